// ---- prelude/traits.rs : in-repo trivia traits as assumed interfaces (class C) ----------------
// The real impls live in trivia.rs / trivia_util.rs behind `define_update_trivia!`-style macros and
// iterator chains; here each impl is an external_body stub with the contract the callers rely on:
// changing trivia never changes the skeleton / operator / token identity of a node.

pub open spec fn ftt_lines_ok(t: FormatTriviaType) -> bool {
    match t { FormatTriviaType::Append(v) => trivia_lines_ok(v@), FormatTriviaType::Replace(v) => trivia_lines_ok(v@), FormatTriviaType::NoChange => true }
}
pub open spec fn ftt_new_line(t: FormatTriviaType) -> bool {
    match t { FormatTriviaType::Append(v) => puts_on_new_line(v@), FormatTriviaType::Replace(v) => puts_on_new_line(v@), FormatTriviaType::NoChange => false }
}
pub trait UpdateLeadingTrivia: Sized {
    spec fn same_sem(&self, r: &Self) -> bool;
    spec fn lead_ok(&self, t: FormatTriviaType, r: &Self) -> bool;
    spec fn on_new_line(&self) -> bool;                 // the node's first token starts a new line (C01, prelude/lines.rs)
    spec fn rest_same(&self, r: &Self) -> bool;         // everything but the leading trivia of the first token is as before
    fn update_leading_trivia(&self, leading_trivia: FormatTriviaType) -> (r: Self)
        ensures self.same_sem(&r), self.lead_ok(leading_trivia, &r);
}
pub trait UpdateTrailingTrivia: Sized {
    spec fn same_sem_t(&self, r: &Self) -> bool;
    spec fn trail_ok(&self, t: FormatTriviaType, r: &Self) -> bool;
    spec fn not_open(&self) -> bool;                    // no line comment behind the node's last token (prelude/lines.rs)
    fn update_trailing_trivia(&self, trailing_trivia: FormatTriviaType) -> (r: Self)
        ensures self.same_sem_t(&r), self.trail_ok(trailing_trivia, &r),
                // replacing the trailing trivia by nothing leaves nothing behind the last token
                (trailing_trivia is Replace && trailing_trivia->Replace_0@.len() == 0) ==> r.not_open();
}
pub trait UpdateTrivia: Sized {
    spec fn same_sem_u(&self, r: &Self) -> bool;
    spec fn trivia_ok(&self, l: FormatTriviaType, t: FormatTriviaType, r: &Self) -> bool;
    fn update_trivia(&self, leading_trivia: FormatTriviaType, trailing_trivia: FormatTriviaType) -> (r: Self)
        ensures self.same_sem_u(&r), self.trivia_ok(leading_trivia, trailing_trivia, &r);
}
pub uninterp spec fn expr_padded_left(e: Expression) -> bool;
pub uninterp spec fn tok_followed_by_ws(t: TokenReference) -> bool;   // the token's trailing trivia ends with trivia the formatter appended
pub open spec fn append_ends_with_space(t: FormatTriviaType) -> bool {
    t is Append && t->Append_0@.len() > 0 && token_type_of(t->Append_0@.last()) == spaces_tt(1)
}   // the expression's leading trivia ends with a space token the formatter appended
impl UpdateLeadingTrivia for Expression {
    open spec fn same_sem(&self, r: &Self) -> bool { skel(*r) == skel(*self) && begins_with_bracket_string(*r) == begins_with_bracket_string(*self) }
    open spec fn lead_ok(&self, t: FormatTriviaType, r: &Self) -> bool {
        (append_ends_with_space(t) ==> expr_padded_left(*r))
        // only the leading trivia of the first token changes: the last token stays as open as it was; new leading trivia whose
        // line comments are each followed by a newline keep the expression safe; trivia ending with newline (+ indent) start a line
        && eopen(*r) == eopen(*self) && (ftt_lines_ok(t) ==> esafe(*r) == esafe(*self)) && (ftt_new_line(t) ==> enl(*r))
    }
    open spec fn on_new_line(&self) -> bool { enl(*self) }
    open spec fn rest_same(&self, r: &Self) -> bool { esafe(*r) == esafe(*self) && eopen(*r) == eopen(*self) }
    #[verifier::external_body] fn update_leading_trivia(&self, leading_trivia: FormatTriviaType) -> (r: Self) { unimplemented!() }
}
impl UpdateTrailingTrivia for Expression {
    // trailing trivia hold whitespace and comments only: changing them never puts code behind a comment, nor moves the first token
    open spec fn same_sem_t(&self, r: &Self) -> bool { skel(*r) == skel(*self) && begins_with_bracket_string(*r) == begins_with_bracket_string(*self) && expr_padded_left(*r) == expr_padded_left(*self)
        && esafe(*r) == esafe(*self) && enl(*r) == enl(*self) }
    open spec fn trail_ok(&self, t: FormatTriviaType, r: &Self) -> bool { true }
    open spec fn not_open(&self) -> bool { !eopen(*self) }
    #[verifier::external_body] fn update_trailing_trivia(&self, trailing_trivia: FormatTriviaType) -> (r: Self) { unimplemented!() }
}
impl UpdateLeadingTrivia for BinOp {
    open spec fn same_sem(&self, r: &Self) -> bool { binop_id(*r) == binop_id(*self) }
    open spec fn lead_ok(&self, t: FormatTriviaType, r: &Self) -> bool { binop_open(*r) == binop_open(*self) && (ftt_new_line(t) ==> binop_nl(*r)) }
    open spec fn on_new_line(&self) -> bool { binop_nl(*self) }
    open spec fn rest_same(&self, r: &Self) -> bool { binop_open(*r) == binop_open(*self) }
    #[verifier::external_body] fn update_leading_trivia(&self, leading_trivia: FormatTriviaType) -> (r: Self) { unimplemented!() }
}
impl UpdateTrailingTrivia for BinOp {
    open spec fn same_sem_t(&self, r: &Self) -> bool { binop_id(*r) == binop_id(*self) && binop_nl(*r) == binop_nl(*self) }
    open spec fn trail_ok(&self, t: FormatTriviaType, r: &Self) -> bool { true }
    open spec fn not_open(&self) -> bool { !binop_open(*self) }
    #[verifier::external_body] fn update_trailing_trivia(&self, trailing_trivia: FormatTriviaType) -> (r: Self) { unimplemented!() }
}
// a trivia list without a line comment (e.g. a single space) leaves nothing open behind the token
pub open spec fn no_line_comment(v: Seq<Token>) -> bool { forall|i: int| 0 <= i < v.len() ==> !is_line_comment_tok(#[trigger] v[i]) }
impl UpdateTrivia for BinOp {
    // both trivia lists are replaced: the operator starts a line if the new leading trivia end with newline (+ indent), and it is
    // closed if the new trailing trivia hold no line comment
    open spec fn same_sem_u(&self, r: &Self) -> bool { binop_id(*r) == binop_id(*self) }
    open spec fn trivia_ok(&self, l: FormatTriviaType, t: FormatTriviaType, r: &Self) -> bool {
        (ftt_new_line(l) ==> binop_nl(*r)) && (t is Replace && no_line_comment(t->Replace_0@) ==> !binop_open(*r))
        && (l is Replace ==> binop_lead_trivia(*r) == l->Replace_0@) && (t is Replace ==> binop_trail_trivia(*r) == t->Replace_0@)
    }
    #[verifier::external_body] fn update_trivia(&self, leading_trivia: FormatTriviaType, trailing_trivia: FormatTriviaType) -> (r: Self) { unimplemented!() }
}
impl UpdateLeadingTrivia for UnOp {
    open spec fn same_sem(&self, r: &Self) -> bool { unop_id(*r) == unop_id(*self) }
    open spec fn lead_ok(&self, t: FormatTriviaType, r: &Self) -> bool { unop_open(*r) == unop_open(*self) && (ftt_new_line(t) ==> unop_nl(*r)) }
    open spec fn on_new_line(&self) -> bool { unop_nl(*self) }
    open spec fn rest_same(&self, r: &Self) -> bool { unop_open(*r) == unop_open(*self) }
    #[verifier::external_body] fn update_leading_trivia(&self, leading_trivia: FormatTriviaType) -> (r: Self) { unimplemented!() }
}
impl UpdateTrailingTrivia for UnOp {
    open spec fn same_sem_t(&self, r: &Self) -> bool { unop_id(*r) == unop_id(*self) }
    open spec fn trail_ok(&self, t: FormatTriviaType, r: &Self) -> bool { true }
    open spec fn not_open(&self) -> bool { !unop_open(*self) }
    #[verifier::external_body] fn update_trailing_trivia(&self, trailing_trivia: FormatTriviaType) -> (r: Self) { unimplemented!() }
}
impl UpdateLeadingTrivia for TokenReference {
    open spec fn same_sem(&self, r: &Self) -> bool { tok_of(*r) == tok_of(*self) }
    open spec fn lead_ok(&self, t: FormatTriviaType, r: &Self) -> bool {
        tok_open(*r) == tok_open(*self) && (ftt_new_line(t) ==> tok_nl(*r))
        // Append puts the new trivia behind the leading trivia the token has
        && (t is Append ==> tr_lead(*r) == tr_lead(*self) + t->Append_0@)
    }
    open spec fn on_new_line(&self) -> bool { tok_nl(*self) }
    open spec fn rest_same(&self, r: &Self) -> bool { tok_open(*r) == tok_open(*self) }
    #[verifier::external_body] fn update_leading_trivia(&self, leading_trivia: FormatTriviaType) -> (r: Self) { unimplemented!() }
}
impl UpdateTrailingTrivia for TokenReference {
    open spec fn same_sem_t(&self, r: &Self) -> bool { tok_of(*r) == tok_of(*self) && tok_nl(*r) == tok_nl(*self) }
    open spec fn trail_ok(&self, t: FormatTriviaType, r: &Self) -> bool {
        ((t is Append && t->Append_0@.len() > 0) ==> tok_followed_by_ws(*r))
        // a newline appended behind the trailing trivia closes an open line comment
        && (t is Append && puts_on_new_line(t->Append_0@) ==> !tok_open(*r))
        // Append puts the new trivia behind the trailing trivia the token has
        && (t is Append ==> tr_trail(*r) == tr_trail(*self) + t->Append_0@)
        // appending trivia without a line comment among them does not open a token that was closed
        && (t is Append && (forall|i: int| 0 <= i < t->Append_0@.len() ==> !is_line_comment_tok(#[trigger] t->Append_0@[i])) ==> (tok_open(*r) ==> tok_open(*self)))
        // ... nor does it change whether a single line comment stands behind the token
        && (t is Append && (forall|i: int| 0 <= i < t->Append_0@.len() ==> !is_line_comment_tok(#[trigger] t->Append_0@[i])) ==> tok_has_single_comment(*r) == tok_has_single_comment(*self))
    }
    open spec fn not_open(&self) -> bool { !tok_open(*self) }
    #[verifier::external_body] fn update_trailing_trivia(&self, trailing_trivia: FormatTriviaType) -> (r: Self) { unimplemented!() }
}
impl UpdateTrivia for TokenReference {
    open spec fn same_sem_u(&self, r: &Self) -> bool { tok_of(*r) == tok_of(*self) }
    // appending trivia without a line comment (spaces) behind the trailing trivia opens nothing
    open spec fn trivia_ok(&self, l: FormatTriviaType, t: FormatTriviaType, r: &Self) -> bool { t is Append && no_line_comment(t->Append_0@) ==> (tok_open(*r) ==> tok_open(*self)) }
    #[verifier::external_body] fn update_trivia(&self, leading_trivia: FormatTriviaType, trailing_trivia: FormatTriviaType) -> (r: Self) { unimplemented!() }
}
impl UpdateLeadingTrivia for ContainedSpan {
    open spec fn same_sem(&self, r: &Self) -> bool { span_close(*r) == span_close(*self) && tok_open(span_open(*r)) == tok_open(span_open(*self)) }
    open spec fn lead_ok(&self, t: FormatTriviaType, r: &Self) -> bool { ftt_new_line(t) ==> tok_nl(span_open(*r)) }
    open spec fn on_new_line(&self) -> bool { tok_nl(span_open(*self)) }
    open spec fn rest_same(&self, r: &Self) -> bool { span_close(*r) == span_close(*self) }
    #[verifier::external_body] fn update_leading_trivia(&self, leading_trivia: FormatTriviaType) -> (r: Self) { unimplemented!() }
}
impl UpdateTrailingTrivia for ContainedSpan {
    open spec fn same_sem_t(&self, r: &Self) -> bool { span_open(*r) == span_open(*self) && tok_nl(span_close(*r)) == tok_nl(span_close(*self)) }
    open spec fn trail_ok(&self, t: FormatTriviaType, r: &Self) -> bool { true }
    open spec fn not_open(&self) -> bool { !tok_open(span_close(*self)) }
    #[verifier::external_body] fn update_trailing_trivia(&self, trailing_trivia: FormatTriviaType) -> (r: Self) { unimplemented!() }
}
#[cfg(feature = "luau")]
impl UpdateLeadingTrivia for full_moon::ast::luau::TypeAssertion {
    open spec fn same_sem(&self, r: &Self) -> bool { type_assertion_id(*r) == type_assertion_id(*self) }
    open spec fn lead_ok(&self, t: FormatTriviaType, r: &Self) -> bool { ta_open(*r) == ta_open(*self) && (ftt_lines_ok(t) ==> ta_safe(*r) == ta_safe(*self)) && (ftt_new_line(t) ==> ta_nl(*r)) }
    open spec fn on_new_line(&self) -> bool { ta_nl(*self) }
    open spec fn rest_same(&self, r: &Self) -> bool { ta_open(*r) == ta_open(*self) && ta_safe(*r) == ta_safe(*self) }
    #[verifier::external_body] fn update_leading_trivia(&self, leading_trivia: FormatTriviaType) -> (r: Self) { unimplemented!() }
}
#[cfg(feature = "luau")]
impl UpdateTrailingTrivia for full_moon::ast::luau::TypeAssertion {
    open spec fn same_sem_t(&self, r: &Self) -> bool { type_assertion_id(*r) == type_assertion_id(*self) && ta_nl(*r) == ta_nl(*self) && ta_safe(*r) == ta_safe(*self) }
    open spec fn trail_ok(&self, t: FormatTriviaType, r: &Self) -> bool { true }
    open spec fn not_open(&self) -> bool { !ta_open(*self) }
    #[verifier::external_body] fn update_trailing_trivia(&self, trailing_trivia: FormatTriviaType) -> (r: Self) { unimplemented!() }
}


// proxy for full_moon::node::Node (sealed by a private supertrait, cannot be specified): same role,
// same method names the in-repo code calls (start_position / end_position / surrounding_trivia().0)
pub enum NodeKey { Stmt(Stmt), Last(LastStmt), Pair(Stmt, Option<TokenReference>), Field(int), Other(int) }
pub uninterp spec fn pos_bytes(p: Position) -> usize;
pub uninterp spec fn node_start(k: NodeKey) -> Option<Position>;
pub uninterp spec fn node_end(k: NodeKey) -> Option<Position>;
pub trait VNode {
    spec fn key(&self) -> NodeKey;
    spec fn line_open(&self) -> bool;      // a token of the node carries a line comment in its trailing trivia (prelude/lines.rs)
    fn start_position(&self) -> (r: Option<Position>) ensures r == node_start(self.key());
    fn end_position(&self) -> (r: Option<Position>) ensures r == node_end(self.key());
    fn leading_trivia_vec(&self) -> (r: Vec<&Token>);
}
pub uninterp spec fn other_key<T>(x: T) -> int;
//@@VNODE_IMPLS@@
impl<'a, T: VNode> VNode for &'a T {
    open spec fn key(&self) -> NodeKey { (**self).key() }
    open spec fn line_open(&self) -> bool { (**self).line_open() }
    #[verifier::external_body] fn start_position(&self) -> (r: Option<Position>) { unimplemented!() }
    #[verifier::external_body] fn end_position(&self) -> (r: Option<Position>) { unimplemented!() }
    #[verifier::external_body] fn leading_trivia_vec(&self) -> (r: Vec<&Token>) { unimplemented!() }
}
impl<T: VNode> VNode for Box<T> {
    open spec fn key(&self) -> NodeKey { (**self).key() }
    open spec fn line_open(&self) -> bool { (**self).line_open() }
    #[verifier::external_body] fn start_position(&self) -> (r: Option<Position>) { unimplemented!() }
    #[verifier::external_body] fn end_position(&self) -> (r: Option<Position>) { unimplemented!() }
    #[verifier::external_body] fn leading_trivia_vec(&self) -> (r: Vec<&Token>) { unimplemented!() }
}
pub assume_specification [Position::bytes] (p: Position) -> (r: usize) ensures r == pos_bytes(p);

pub trait GetLeadingTrivia {
    spec fn leads_with_comment(&self) -> bool;   // a comment stands in the leading trivia of the node's first token (prelude/lines.rs)
    fn leading_trivia(&self) -> Vec<Token>;
    fn has_leading_comments(&self, search: CommentSearch) -> (r: bool)
        ensures self.leads_with_comment() && search is All ==> r;
    fn leading_comments(&self) -> Vec<Token>;
}
pub trait GetTrailingTrivia {
    spec fn ends_open(&self) -> bool;    // the node's last token is followed by a line comment (prelude/lines.rs)
    fn trailing_trivia(&self) -> Vec<Token>;
    // an open last token carries a line comment in its trailing trivia, which a search for line comments (or all comments) finds
    fn has_trailing_comments(&self, search: CommentSearch) -> (r: bool)
        ensures self.ends_open() && !(search is Multiline) ==> r;
    fn trailing_comments(&self) -> Vec<Token>;
}
impl GetLeadingTrivia for Expression {
    open spec fn leads_with_comment(&self) -> bool { elc(*self) }
    #[verifier::external_body] fn leading_trivia(&self) -> Vec<Token> { unimplemented!() }
    #[verifier::external_body] fn has_leading_comments(&self, search: CommentSearch) -> (r: bool) { unimplemented!() }
    #[verifier::external_body] fn leading_comments(&self) -> (r: Vec<Token>) ensures r@ == expr_lead_comments(*self) { unimplemented!() }
}
impl GetTrailingTrivia for Expression {
    open spec fn ends_open(&self) -> bool { eopen(*self) }
    #[verifier::external_body] fn trailing_trivia(&self) -> Vec<Token> { unimplemented!() }
    #[verifier::external_body] fn has_trailing_comments(&self, search: CommentSearch) -> (r: bool) { unimplemented!() }
    #[verifier::external_body] fn trailing_comments(&self) -> Vec<Token> { unimplemented!() }
}
impl GetLeadingTrivia for BinOp {
    open spec fn leads_with_comment(&self) -> bool { other_lc(*self) }
    #[verifier::external_body] fn leading_trivia(&self) -> Vec<Token> { unimplemented!() }
    #[verifier::external_body] fn has_leading_comments(&self, search: CommentSearch) -> (r: bool) { unimplemented!() }
    #[verifier::external_body] fn leading_comments(&self) -> (r: Vec<Token>) ensures r@ == binop_lead_comments(*self) { unimplemented!() }
}
impl GetTrailingTrivia for BinOp {
    open spec fn ends_open(&self) -> bool { binop_open(*self) }
    #[verifier::external_body] fn trailing_trivia(&self) -> Vec<Token> { unimplemented!() }
    #[verifier::external_body] fn has_trailing_comments(&self, search: CommentSearch) -> (r: bool) { unimplemented!() }
    #[verifier::external_body] fn trailing_comments(&self) -> (r: Vec<Token>) ensures r@ == binop_trail_comments(*self) { unimplemented!() }
}
impl GetLeadingTrivia for TokenReference {
    open spec fn leads_with_comment(&self) -> bool { tok_lc(*self) }
    #[verifier::external_body] fn leading_trivia(&self) -> Vec<Token> { unimplemented!() }
    #[verifier::external_body] fn has_leading_comments(&self, search: CommentSearch) -> (r: bool) { unimplemented!() }
    #[verifier::external_body] fn leading_comments(&self) -> Vec<Token> { unimplemented!() }
}
// has_trailing_comments(Single) on a token: is there a single line comment in its trailing trivia (a name for the answer, so that two
// questions about the same token agree)
pub uninterp spec fn tok_has_single_comment(t: TokenReference) -> bool;
impl GetTrailingTrivia for TokenReference {
    open spec fn ends_open(&self) -> bool { tok_open(*self) }
    #[verifier::external_body] fn trailing_trivia(&self) -> Vec<Token> { unimplemented!() }
    #[verifier::external_body] fn has_trailing_comments(&self, search: CommentSearch) -> (r: bool) ensures search is Single ==> r == tok_has_single_comment(*self) { unimplemented!() }
    #[verifier::external_body] fn trailing_comments(&self) -> Vec<Token> { unimplemented!() }
}
