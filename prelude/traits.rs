// ---- prelude/traits.rs : in-repo trivia traits as assumed interfaces (class C) ----------------
// The real impls live in trivia.rs / trivia_util.rs behind `define_update_trivia!`-style macros and
// iterator chains; here each impl is an external_body stub with the contract the callers rely on:
// changing trivia never changes the skeleton / operator / token identity of a node.

pub trait UpdateLeadingTrivia: Sized {
    spec fn same_sem(&self, r: &Self) -> bool;
    spec fn lead_ok(&self, t: FormatTriviaType, r: &Self) -> bool;
    fn update_leading_trivia(&self, leading_trivia: FormatTriviaType) -> (r: Self)
        ensures self.same_sem(&r), self.lead_ok(leading_trivia, &r);
}
pub trait UpdateTrailingTrivia: Sized {
    spec fn same_sem_t(&self, r: &Self) -> bool;
    spec fn trail_ok(&self, t: FormatTriviaType, r: &Self) -> bool;
    fn update_trailing_trivia(&self, trailing_trivia: FormatTriviaType) -> (r: Self)
        ensures self.same_sem_t(&r), self.trail_ok(trailing_trivia, &r);
}
pub trait UpdateTrivia: Sized {
    spec fn same_sem_u(&self, r: &Self) -> bool;
    fn update_trivia(&self, leading_trivia: FormatTriviaType, trailing_trivia: FormatTriviaType) -> (r: Self)
        ensures self.same_sem_u(&r);
}
pub uninterp spec fn expr_padded_left(e: Expression) -> bool;
pub uninterp spec fn tok_followed_by_ws(t: TokenReference) -> bool;   // the token's trailing trivia ends with trivia the formatter appended
pub open spec fn append_ends_with_space(t: FormatTriviaType) -> bool {
    t is Append && t->Append_0@.len() > 0 && token_type_of(t->Append_0@.last()) == spaces_tt(1)
}   // the expression's leading trivia ends with a space token the formatter appended
impl UpdateLeadingTrivia for Expression {
    open spec fn same_sem(&self, r: &Self) -> bool { skel(*r) == skel(*self) && begins_with_bracket_string(*r) == begins_with_bracket_string(*self) }
    open spec fn lead_ok(&self, t: FormatTriviaType, r: &Self) -> bool { append_ends_with_space(t) ==> expr_padded_left(*r) }
    #[verifier::external_body] fn update_leading_trivia(&self, leading_trivia: FormatTriviaType) -> (r: Self) { unimplemented!() }
}
impl UpdateTrailingTrivia for Expression {
    open spec fn same_sem_t(&self, r: &Self) -> bool { skel(*r) == skel(*self) && begins_with_bracket_string(*r) == begins_with_bracket_string(*self) && expr_padded_left(*r) == expr_padded_left(*self) }
    open spec fn trail_ok(&self, t: FormatTriviaType, r: &Self) -> bool { true }
    #[verifier::external_body] fn update_trailing_trivia(&self, trailing_trivia: FormatTriviaType) -> (r: Self) { unimplemented!() }
}
impl UpdateLeadingTrivia for BinOp {
    open spec fn same_sem(&self, r: &Self) -> bool { binop_id(*r) == binop_id(*self) }
    open spec fn lead_ok(&self, t: FormatTriviaType, r: &Self) -> bool { true }
    #[verifier::external_body] fn update_leading_trivia(&self, leading_trivia: FormatTriviaType) -> (r: Self) { unimplemented!() }
}
impl UpdateTrailingTrivia for BinOp {
    open spec fn same_sem_t(&self, r: &Self) -> bool { binop_id(*r) == binop_id(*self) }
    open spec fn trail_ok(&self, t: FormatTriviaType, r: &Self) -> bool { true }
    #[verifier::external_body] fn update_trailing_trivia(&self, trailing_trivia: FormatTriviaType) -> (r: Self) { unimplemented!() }
}
impl UpdateTrivia for BinOp {
    open spec fn same_sem_u(&self, r: &Self) -> bool { binop_id(*r) == binop_id(*self) }
    #[verifier::external_body] fn update_trivia(&self, leading_trivia: FormatTriviaType, trailing_trivia: FormatTriviaType) -> (r: Self) { unimplemented!() }
}
impl UpdateLeadingTrivia for UnOp {
    open spec fn same_sem(&self, r: &Self) -> bool { unop_id(*r) == unop_id(*self) }
    open spec fn lead_ok(&self, t: FormatTriviaType, r: &Self) -> bool { true }
    #[verifier::external_body] fn update_leading_trivia(&self, leading_trivia: FormatTriviaType) -> (r: Self) { unimplemented!() }
}
impl UpdateTrailingTrivia for UnOp {
    open spec fn same_sem_t(&self, r: &Self) -> bool { unop_id(*r) == unop_id(*self) }
    open spec fn trail_ok(&self, t: FormatTriviaType, r: &Self) -> bool { true }
    #[verifier::external_body] fn update_trailing_trivia(&self, trailing_trivia: FormatTriviaType) -> (r: Self) { unimplemented!() }
}
impl UpdateLeadingTrivia for TokenReference {
    open spec fn same_sem(&self, r: &Self) -> bool { tok_of(*r) == tok_of(*self) }
    open spec fn lead_ok(&self, t: FormatTriviaType, r: &Self) -> bool { true }
    #[verifier::external_body] fn update_leading_trivia(&self, leading_trivia: FormatTriviaType) -> (r: Self) { unimplemented!() }
}
impl UpdateTrailingTrivia for TokenReference {
    open spec fn same_sem_t(&self, r: &Self) -> bool { tok_of(*r) == tok_of(*self) }
    open spec fn trail_ok(&self, t: FormatTriviaType, r: &Self) -> bool { (t is Append && t->Append_0@.len() > 0) ==> tok_followed_by_ws(*r) }
    #[verifier::external_body] fn update_trailing_trivia(&self, trailing_trivia: FormatTriviaType) -> (r: Self) { unimplemented!() }
}
impl UpdateTrivia for TokenReference {
    open spec fn same_sem_u(&self, r: &Self) -> bool { tok_of(*r) == tok_of(*self) }
    #[verifier::external_body] fn update_trivia(&self, leading_trivia: FormatTriviaType, trailing_trivia: FormatTriviaType) -> (r: Self) { unimplemented!() }
}
impl UpdateLeadingTrivia for ContainedSpan {
    open spec fn same_sem(&self, r: &Self) -> bool { true }
    open spec fn lead_ok(&self, t: FormatTriviaType, r: &Self) -> bool { true }
    #[verifier::external_body] fn update_leading_trivia(&self, leading_trivia: FormatTriviaType) -> (r: Self) { unimplemented!() }
}
impl UpdateTrailingTrivia for ContainedSpan {
    open spec fn same_sem_t(&self, r: &Self) -> bool { true }
    open spec fn trail_ok(&self, t: FormatTriviaType, r: &Self) -> bool { true }
    #[verifier::external_body] fn update_trailing_trivia(&self, trailing_trivia: FormatTriviaType) -> (r: Self) { unimplemented!() }
}
#[cfg(feature = "luau")]
impl UpdateLeadingTrivia for full_moon::ast::luau::TypeAssertion {
    open spec fn same_sem(&self, r: &Self) -> bool { type_assertion_id(*r) == type_assertion_id(*self) }
    open spec fn lead_ok(&self, t: FormatTriviaType, r: &Self) -> bool { true }
    #[verifier::external_body] fn update_leading_trivia(&self, leading_trivia: FormatTriviaType) -> (r: Self) { unimplemented!() }
}
#[cfg(feature = "luau")]
impl UpdateTrailingTrivia for full_moon::ast::luau::TypeAssertion {
    open spec fn same_sem_t(&self, r: &Self) -> bool { type_assertion_id(*r) == type_assertion_id(*self) }
    open spec fn trail_ok(&self, t: FormatTriviaType, r: &Self) -> bool { true }
    #[verifier::external_body] fn update_trailing_trivia(&self, trailing_trivia: FormatTriviaType) -> (r: Self) { unimplemented!() }
}


// proxy for full_moon::node::Node (sealed by a private supertrait, cannot be specified): same role,
// same method names the in-repo code calls (start_position / end_position / surrounding_trivia().0)
pub enum NodeKey { Stmt(Stmt), Last(LastStmt), Pair(Stmt, Option<TokenReference>), Field(int), Other(int) }
pub uninterp spec fn pos_bytes(p: Position) -> usize;
pub uninterp spec fn node_start(k: NodeKey) -> Option<Position>;
pub uninterp spec fn node_end(k: NodeKey) -> Option<Position>;
pub trait VNode {
    spec fn key(&self) -> NodeKey;
    fn start_position(&self) -> (r: Option<Position>) ensures r == node_start(self.key());
    fn end_position(&self) -> (r: Option<Position>) ensures r == node_end(self.key());
    fn leading_trivia_vec(&self) -> (r: Vec<&Token>);
}
pub uninterp spec fn other_key<T>(x: T) -> int;
//@@VNODE_IMPLS@@
impl<'a, T: VNode> VNode for &'a T {
    open spec fn key(&self) -> NodeKey { (**self).key() }
    #[verifier::external_body] fn start_position(&self) -> (r: Option<Position>) { unimplemented!() }
    #[verifier::external_body] fn end_position(&self) -> (r: Option<Position>) { unimplemented!() }
    #[verifier::external_body] fn leading_trivia_vec(&self) -> (r: Vec<&Token>) { unimplemented!() }
}
impl<T: VNode> VNode for Box<T> {
    open spec fn key(&self) -> NodeKey { (**self).key() }
    #[verifier::external_body] fn start_position(&self) -> (r: Option<Position>) { unimplemented!() }
    #[verifier::external_body] fn end_position(&self) -> (r: Option<Position>) { unimplemented!() }
    #[verifier::external_body] fn leading_trivia_vec(&self) -> (r: Vec<&Token>) { unimplemented!() }
}
pub assume_specification [Position::bytes] (p: Position) -> (r: usize) ensures r == pos_bytes(p);

pub trait GetLeadingTrivia {
    fn leading_trivia(&self) -> Vec<Token>;
    fn has_leading_comments(&self, search: CommentSearch) -> bool;
    fn leading_comments(&self) -> Vec<Token>;
}
pub trait GetTrailingTrivia {
    fn trailing_trivia(&self) -> Vec<Token>;
    fn has_trailing_comments(&self, search: CommentSearch) -> bool;
    fn trailing_comments(&self) -> Vec<Token>;
}
impl GetLeadingTrivia for Expression {
    #[verifier::external_body] fn leading_trivia(&self) -> Vec<Token> { unimplemented!() }
    #[verifier::external_body] fn has_leading_comments(&self, search: CommentSearch) -> bool { unimplemented!() }
    #[verifier::external_body] fn leading_comments(&self) -> Vec<Token> { unimplemented!() }
}
impl GetTrailingTrivia for Expression {
    #[verifier::external_body] fn trailing_trivia(&self) -> Vec<Token> { unimplemented!() }
    #[verifier::external_body] fn has_trailing_comments(&self, search: CommentSearch) -> bool { unimplemented!() }
    #[verifier::external_body] fn trailing_comments(&self) -> Vec<Token> { unimplemented!() }
}
impl GetLeadingTrivia for BinOp {
    #[verifier::external_body] fn leading_trivia(&self) -> Vec<Token> { unimplemented!() }
    #[verifier::external_body] fn has_leading_comments(&self, search: CommentSearch) -> bool { unimplemented!() }
    #[verifier::external_body] fn leading_comments(&self) -> Vec<Token> { unimplemented!() }
}
impl GetTrailingTrivia for BinOp {
    #[verifier::external_body] fn trailing_trivia(&self) -> Vec<Token> { unimplemented!() }
    #[verifier::external_body] fn has_trailing_comments(&self, search: CommentSearch) -> bool { unimplemented!() }
    #[verifier::external_body] fn trailing_comments(&self) -> Vec<Token> { unimplemented!() }
}
impl GetLeadingTrivia for TokenReference {
    #[verifier::external_body] fn leading_trivia(&self) -> Vec<Token> { unimplemented!() }
    #[verifier::external_body] fn has_leading_comments(&self, search: CommentSearch) -> bool { unimplemented!() }
    #[verifier::external_body] fn leading_comments(&self) -> Vec<Token> { unimplemented!() }
}
impl GetTrailingTrivia for TokenReference {
    #[verifier::external_body] fn trailing_trivia(&self) -> Vec<Token> { unimplemented!() }
    #[verifier::external_body] fn has_trailing_comments(&self, search: CommentSearch) -> bool { unimplemented!() }
    #[verifier::external_body] fn trailing_comments(&self) -> Vec<Token> { unimplemented!() }
}
