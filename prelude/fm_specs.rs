// ---- prelude/fm_specs.rs : assumed specifications of full_moon accessors/constructors (class A) ----
pub uninterp spec fn tr_token(t: TokenReference) -> Token;
// identity of a token reference's own token (kind + text), trivia excluded
pub uninterp spec fn tok_of(t: TokenReference) -> int;
pub uninterp spec fn token_type_of(t: Token) -> TokenType;
pub uninterp spec fn tr_lead(t: TokenReference) -> Seq<Token>;    // the leading trivia of a token reference, in order
pub uninterp spec fn tr_trail(t: TokenReference) -> Seq<Token>;   // its trailing trivia, in order
pub uninterp spec fn span_open(c: ContainedSpan) -> TokenReference;
pub uninterp spec fn span_close(c: ContainedSpan) -> TokenReference;

pub open spec fn token_is_ellipsis(t: TokenReference) -> bool {
    token_type_of(tr_token(t)) == (TokenType::Symbol { symbol: Symbol::Ellipsis })
}

pub assume_specification [Token::token_type] (t: &Token) -> (r: &TokenType)
    ensures *r == token_type_of(*t);
pub assume_specification [Token::new] (tt: TokenType) -> (r: Token)
    ensures token_type_of(r) == tt;
pub assume_specification [<TokenReference as std::ops::Deref>::deref] (t: &TokenReference) -> (r: &<TokenReference as std::ops::Deref>::Target)
    ensures *r == tr_token(*t);
pub assume_specification [TokenReference::token] (t: &TokenReference) -> (r: &Token)
    ensures *r == tr_token(*t);
pub assume_specification [TokenReference::symbol] (s: &str) -> (r: Result<TokenReference, full_moon::tokenizer::TokenizerErrorType>)
    ensures r is Ok,   // every literal passed by the formatter is a Lua symbol (class A; exercised by the test-suite)
            r is Ok ==> !tok_open(r->Ok_0) && !tok_nl(r->Ok_0) && !tok_lc(r->Ok_0),   // a fresh symbol token has no comments
            r is Ok ==> tr_token(r->Ok_0) == symbol_of_text(s@);                     // its token is the symbol the text spells (class A)
pub uninterp spec fn symbol_of_text(s: Seq<char>) -> Token;   // the symbol token `TokenReference::symbol` lexes out of a text such as " + "
pub assume_specification [ContainedSpan::tokens] (c: &ContainedSpan) -> (r: (&TokenReference, &TokenReference))
    ensures *r.0 == span_open(*c), *r.1 == span_close(*c);
pub assume_specification [ContainedSpan::new] (a: TokenReference, b: TokenReference) -> (r: ContainedSpan)
    ensures span_open(r) == a, span_close(r) == b;
pub uninterp spec fn tabs_tt(n: usize) -> TokenType;     // TokenType::tabs(n) prints n tab characters (class A)
pub uninterp spec fn spaces_tt(n: usize) -> TokenType;   // TokenType::spaces(n) prints n spaces (class A)
pub assume_specification [TokenType::spaces] (n: usize) -> (r: TokenType) ensures r == spaces_tt(n), r is Whitespace;
pub assume_specification [TokenType::tabs] (n: usize) -> (r: TokenType) ensures r == tabs_tt(n), r is Whitespace;
// layout-only queries: no functional contract needed (results are unconstrained to the proofs)
pub assume_specification [BinOp::precedence] (b: &BinOp) -> (r: u8);
pub assume_specification [BinOp::is_right_associative] (b: &BinOp) -> (r: bool);
pub assume_specification [<BinOp as Clone>::clone] (b: &BinOp) -> (r: BinOp) ensures r == *b;
pub assume_specification [<Expression as Clone>::clone] (b: &Expression) -> (r: Expression) ensures r == *b;
pub assume_specification [<TokenReference as Clone>::clone] (b: &TokenReference) -> (r: TokenReference) ensures r == *b;
