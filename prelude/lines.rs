// ---- prelude/lines.rs : line comments and the code printed behind them (C01, mechanism "single-line comments are
// always followed by a newline") -------------------------------------------------------------------------------
// A line comment in the trailing trivia of a token runs to the end of the line: whatever is printed next on the same
// line is commented out. The formatter keeps such comments behind their token (format_token_reference) and it is the
// job of whoever prints the NEXT token to start a new line. The predicates below state, over the real Expression
// enum, that this has been done everywhere inside a formatted expression.
//
// Token level (uninterpreted: the trivia lists of a TokenReference are opaque to the verifier):
//   tok_open(t)   the trailing trivia of t hold a line comment that no newline *created by the formatter* (is_newline_tok: a token
//                 create_newline_trivia made — never a whitespace token the parser produced) follows. For a token of the formatted
//                 output, whose whitespace is all formatter-made (unit tok: input whitespace is never copied), that is "the line is
//                 still open behind t"; for a token of the parsed input — full_moon keeps the line's own newline in the trailing
//                 trivia — it is "t has a line comment behind it". Both readings are needed (format_token_reference: open(output)
//                 ==> open(input); update_trailing_trivia(Append([newline])) closes), and this one definition gives both.
//   tok_nl(t)     the leading trivia of t puts the token itself at the start of a new line (a newline, possibly an
//                 indent, then the token), so t may follow an open token
pub uninterp spec fn tok_open(t: TokenReference) -> bool;
pub uninterp spec fn tok_nl(t: TokenReference) -> bool;
//   tok_lc(t)     the leading trivia of t hold a comment (printed directly in front of t, behind whatever precedes it)
pub uninterp spec fn tok_lc(t: TokenReference) -> bool;
pub open spec fn unop_lc(u: UnOp) -> bool { tok_lc(unop_tok(u)) }
pub uninterp spec fn leaf_lc(e: Expression) -> bool;
// an operator is its one token
pub uninterp spec fn some_token() -> TokenReference;
pub open spec fn binop_tok(b: BinOp) -> TokenReference {
    match b {
        BinOp::Or(t) => t, BinOp::And(t) => t, BinOp::LessThan(t) => t, BinOp::GreaterThan(t) => t, BinOp::LessThanEqual(t) => t,
        BinOp::GreaterThanEqual(t) => t, BinOp::TildeEqual(t) => t, BinOp::TwoEqual(t) => t, BinOp::TwoDots(t) => t, BinOp::Plus(t) => t,
        BinOp::Minus(t) => t, BinOp::Star(t) => t, BinOp::Slash(t) => t, BinOp::Percent(t) => t, BinOp::Caret(t) => t,
        #[cfg(feature = "lua53")] BinOp::Pipe(t) => t,
        #[cfg(feature = "lua53")] BinOp::Tilde(t) => t,
        #[cfg(feature = "lua53")] BinOp::Ampersand(t) => t,
        #[cfg(feature = "lua53")] BinOp::DoubleLessThan(t) => t,
        #[cfg(feature = "lua53")] BinOp::DoubleGreaterThan(t) => t,
        #[cfg(any(feature = "luau", feature = "lua53"))] BinOp::DoubleSlash(t) => t,
        _ => some_token(),
    }
}
pub open spec fn unop_tok(u: UnOp) -> TokenReference {
    match u {
        UnOp::Minus(t) => t, UnOp::Not(t) => t, UnOp::Hash(t) => t,
        #[cfg(feature = "lua53")] UnOp::Tilde(t) => t,
        _ => some_token(),
    }
}
// the operators fmt_op! lists by name in format_binop (`>>` is handled by the closure it is given)
pub open spec fn binop_listed(b: BinOp) -> bool {
    match b {
        BinOp::Or(_) => true, BinOp::And(_) => true, BinOp::LessThan(_) => true, BinOp::GreaterThan(_) => true, BinOp::LessThanEqual(_) => true,
        BinOp::GreaterThanEqual(_) => true, BinOp::TildeEqual(_) => true, BinOp::TwoEqual(_) => true, BinOp::TwoDots(_) => true, BinOp::Plus(_) => true,
        BinOp::Minus(_) => true, BinOp::Star(_) => true, BinOp::Slash(_) => true, BinOp::Percent(_) => true, BinOp::Caret(_) => true,
        #[cfg(feature = "lua53")] BinOp::Pipe(_) => true,
        #[cfg(feature = "lua53")] BinOp::Tilde(_) => true,
        #[cfg(feature = "lua53")] BinOp::Ampersand(_) => true,
        #[cfg(feature = "lua53")] BinOp::DoubleLessThan(_) => true,
        #[cfg(any(feature = "luau", feature = "lua53"))] BinOp::DoubleSlash(_) => true,
        _ => false,
    }
}
// the text each operator is printed with — written from the Lua 5.4 manual §3.4 / the Luau grammar, with the spaces StyLua puts around it
pub open spec fn binop_text(op: int) -> Seq<char> {
    if op == OP_OR { " or "@ } else if op == OP_AND { " and "@ } else if op == OP_LT { " < "@ } else if op == OP_GT { " > "@ }
    else if op == OP_LE { " <= "@ } else if op == OP_GE { " >= "@ } else if op == OP_NE { " ~= "@ } else if op == OP_EQ { " == "@ }
    else if op == OP_CONCAT { " .. "@ } else if op == OP_PLUS { " + "@ } else if op == OP_MINUS { " - "@ } else if op == OP_STAR { " * "@ }
    else if op == OP_SLASH { " / "@ } else if op == OP_PERCENT { " % "@ } else if op == OP_CARET { " ^ "@ } else if op == OP_PIPE { " | "@ }
    else if op == OP_TILDE { " ~ "@ } else if op == OP_AMP { " & "@ } else if op == OP_SHL { " << "@ } else if op == OP_DSLASH { " // "@ }
    else { " ? "@ }
}
pub open spec fn unop_text(op: int) -> Seq<char> {
    if op == UN_MINUS { "-"@ } else if op == UN_NOT { "not "@ } else if op == UN_HASH { "#"@ } else if op == UN_TILDE { "~"@ } else { "?"@ }
}
pub open spec fn binop_open(b: BinOp) -> bool { tok_open(binop_tok(b)) }
pub open spec fn binop_nl(b: BinOp) -> bool { tok_nl(binop_tok(b)) }
pub open spec fn unop_open(u: UnOp) -> bool { tok_open(unop_tok(u)) }
pub open spec fn unop_nl(u: UnOp) -> bool { tok_nl(unop_tok(u)) }
// leaves of the expression tree (names, calls, tables, functions, literals): their own formatters are outside this unit
pub uninterp spec fn leaf_open(e: Expression) -> bool;
pub uninterp spec fn leaf_nl(e: Expression) -> bool;
pub uninterp spec fn leaf_safe(e: Expression) -> bool;
#[cfg(feature = "luau")] pub uninterp spec fn ta_nl(t: full_moon::ast::luau::TypeAssertion) -> bool;
#[cfg(feature = "luau")] pub uninterp spec fn ta_open(t: full_moon::ast::luau::TypeAssertion) -> bool;
#[cfg(feature = "luau")] pub uninterp spec fn ta_safe(t: full_moon::ast::luau::TypeAssertion) -> bool;

pub uninterp spec fn other_closed<T>(x: T) -> bool;   // no line comment behind the last token, for node types this file does not model
pub uninterp spec fn other_line_open<T>(x: T) -> bool;
pub uninterp spec fn other_lc<T>(x: T) -> bool;
pub uninterp spec fn other_nl<T>(x: T) -> bool;     // first token on a new line, for node types this file does not model

// trivia lists the formatter builds
pub uninterp spec fn is_newline_tok(t: Token) -> bool;
pub uninterp spec fn is_indent_tok(t: Token) -> bool;
pub open spec fn is_line_comment_tok(t: Token) -> bool { token_type_of(t) is SingleLineComment }
/// every line comment in the list is directly followed by a newline token
pub open spec fn trivia_lines_ok(v: Seq<Token>) -> bool {
    forall|i: int| 0 <= i < v.len() && is_line_comment_tok(#[trigger] v[i]) ==> i + 1 < v.len() && is_newline_tok(v[i + 1])
}
/// the list ends with a newline (optionally followed by the indent of the next line): what follows starts a line
pub open spec fn puts_on_new_line(v: Seq<Token>) -> bool {
    v.len() >= 1 && (is_newline_tok(v.last()) || (v.len() >= 2 && is_indent_tok(v.last()) && is_newline_tok(v[v.len() - 2])))
}

/// the expression's last token is open: nothing may follow it on the same line
pub open spec fn eopen(e: Expression) -> bool
    decreases e
{
    match e {
        Expression::BinaryOperator { rhs, .. } => eopen(*rhs),
        Expression::UnaryOperator { expression, .. } => eopen(*expression),
        Expression::Parentheses { contained, .. } => tok_open(span_close(contained)),
        #[cfg(feature = "luau")]
        Expression::TypeAssertion { type_assertion, .. } => ta_open(type_assertion),
        _ => leaf_open(e),
    }
}
/// the expression's first token starts a new line
pub open spec fn enl(e: Expression) -> bool
    decreases e
{
    match e {
        Expression::BinaryOperator { lhs, .. } => enl(*lhs),
        Expression::UnaryOperator { unop, .. } => unop_nl(unop),
        Expression::Parentheses { contained, .. } => tok_nl(span_open(contained)),
        #[cfg(feature = "luau")]
        Expression::TypeAssertion { expression, .. } => enl(*expression),
        _ => leaf_nl(e),
    }
}
/// a comment is printed directly in front of the expression's first token
pub open spec fn elc(e: Expression) -> bool
    decreases e
{
    match e {
        Expression::BinaryOperator { lhs, .. } => elc(*lhs),
        Expression::UnaryOperator { unop, .. } => unop_lc(unop),
        Expression::Parentheses { contained, .. } => tok_lc(span_open(contained)),
        #[cfg(feature = "luau")]
        Expression::TypeAssertion { expression, .. } => elc(*expression),
        _ => leaf_lc(e),
    }
}
/// no token inside the expression is printed behind a line comment on the same line
pub open spec fn esafe(e: Expression) -> bool
    decreases e
{
    match e {
        Expression::BinaryOperator { lhs, binop, rhs } =>
            esafe(*lhs) && esafe(*rhs) && (eopen(*lhs) ==> binop_nl(binop)) && (binop_open(binop) ==> enl(*rhs)),
        Expression::UnaryOperator { unop, expression } => esafe(*expression) && (unop_open(unop) ==> enl(*expression))
            // `-` directly followed by a comment would read `---…`: a comment, but not the one that was written
            && (unop_id(unop) == UN_MINUS && elc(*expression) ==> enl(*expression)),
        Expression::Parentheses { contained, expression } =>
            esafe(*expression) && (tok_open(span_open(contained)) ==> enl(*expression)) && (eopen(*expression) ==> tok_nl(span_close(contained))),
        #[cfg(feature = "luau")]
        Expression::TypeAssertion { expression, type_assertion } =>
            esafe(*expression) && ta_safe(type_assertion) && (eopen(*expression) ==> ta_nl(type_assertion)),
        _ => leaf_safe(e),
    }
}
pub assume_specification [BinOp::token] (b: &BinOp) -> (r: &TokenReference) ensures *r == binop_tok(*b);
pub assume_specification [UnOp::token] (b: &UnOp) -> (r: &TokenReference) ensures *r == unop_tok(*b);

// the comments an operator token carries in front of / behind itself and those in front of an expression (what the
// leading_comments() / trailing_comments() methods of the trivia traits return), and the trivia lists of an operator
pub uninterp spec fn binop_lead_comments(b: BinOp) -> Seq<Token>;
pub uninterp spec fn binop_trail_comments(b: BinOp) -> Seq<Token>;
pub uninterp spec fn expr_lead_comments(e: Expression) -> Seq<Token>;
pub uninterp spec fn binop_lead_trivia(b: BinOp) -> Seq<Token>;
pub uninterp spec fn binop_trail_trivia(b: BinOp) -> Seq<Token>;
