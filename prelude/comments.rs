// ---- prelude/comments.rs : the comment subsequence of a trivia list (C03 at the sites that move comments by hand) ----
pub open spec fn is_comment_tok(t: Token) -> bool { token_type_of(t) is SingleLineComment || token_type_of(t) is MultiLineComment || token_type_of(t) is Shebang }
/// the comments of a trivia list, in order
pub open spec fn cmts(s: Seq<Token>) -> Seq<Token>
    decreases s.len()
{
    if s.len() == 0 { Seq::empty() } else if is_comment_tok(s.last()) { cmts(s.drop_last()).push(s.last()) } else { cmts(s.drop_last()) }
}
pub proof fn lemma_cmts_push(s: Seq<Token>, x: Token)
    ensures cmts(s.push(x)) == if is_comment_tok(x) { cmts(s).push(x) } else { cmts(s) },
{
    assert(s.push(x).drop_last() =~= s);
}
pub proof fn lemma_cmts_concat(a: Seq<Token>, b: Seq<Token>)
    ensures cmts(a + b) == cmts(a) + cmts(b),
    decreases b.len(),
{
    if b.len() == 0 {
        assert(a + b =~= a);
        assert(cmts(a) + cmts(b) =~= cmts(a));
    } else {
        lemma_cmts_concat(a, b.drop_last());
        assert((a + b).drop_last() =~= a + b.drop_last());
        assert((a + b).last() == b.last());
        if is_comment_tok(b.last()) {
            assert(cmts(a) + cmts(b.drop_last()).push(b.last()) =~= (cmts(a) + cmts(b.drop_last())).push(b.last()));
        }
    }
}
