// ---- prelude/skel.rs : specification vocabulary for C02/C05/C01.3 (spec code only) -----------
// Skeleton of an expression: the operator tree with trivia erased, defined by recursion on the
// REAL full_moon enum. Leaves are opaque (identity of the leaf's non-trivia content).
pub enum LeafKind { Call, Varargs, IfExpr, Function, Interp, Table, Number, Str, Symbol, Var }
pub enum Skel {
    Leaf(LeafKind, int),
    Paren(Box<Skel>),
    Un(int, Box<Skel>),
    Bin(Box<Skel>, int, Box<Skel>),
    Assert(Box<Skel>, int),
}
pub uninterp spec fn anon_fn_id(b: (TokenReference, FunctionBody)) -> int;
pub uninterp spec fn call_id(c: FunctionCall) -> int;
pub uninterp spec fn table_id(c: TableConstructor) -> int;
pub uninterp spec fn var_id(c: Var) -> int;
#[cfg(feature = "luau")] pub uninterp spec fn if_id(c: full_moon::ast::luau::IfExpression) -> int;
#[cfg(feature = "luau")] pub uninterp spec fn interp_id(c: full_moon::ast::luau::InterpolatedString) -> int;
#[cfg(feature = "luau")]
pub uninterp spec fn type_assertion_id(t: full_moon::ast::luau::TypeAssertion) -> int;

// operator identities. Written from the Lua 5.4 manual §3.4.8 / Luau grammar, NOT from BinOp::precedence().
pub spec const OP_OR: int = 1;
pub spec const OP_AND: int = 2;
pub spec const OP_LT: int = 3;
pub spec const OP_GT: int = 4;
pub spec const OP_LE: int = 5;
pub spec const OP_GE: int = 6;
pub spec const OP_NE: int = 7;
pub spec const OP_EQ: int = 8;
pub spec const OP_PIPE: int = 9;
pub spec const OP_TILDE: int = 10;
pub spec const OP_AMP: int = 11;
pub spec const OP_SHL: int = 12;
pub spec const OP_SHR: int = 13;
pub spec const OP_CONCAT: int = 14;
pub spec const OP_PLUS: int = 15;
pub spec const OP_MINUS: int = 16;
pub spec const OP_STAR: int = 17;
pub spec const OP_SLASH: int = 18;
pub spec const OP_DSLASH: int = 19;
pub spec const OP_PERCENT: int = 20;
pub spec const OP_CARET: int = 21;
pub spec const OP_UNKNOWN: int = 0;

pub spec const UN_MINUS: int = 1;
pub spec const UN_NOT: int = 2;
pub spec const UN_HASH: int = 3;
pub spec const UN_TILDE: int = 4;

pub open spec fn binop_id(b: BinOp) -> int {
    match b {
        BinOp::Or(_) => OP_OR, BinOp::And(_) => OP_AND,
        BinOp::LessThan(_) => OP_LT, BinOp::GreaterThan(_) => OP_GT, BinOp::LessThanEqual(_) => OP_LE,
        BinOp::GreaterThanEqual(_) => OP_GE, BinOp::TildeEqual(_) => OP_NE, BinOp::TwoEqual(_) => OP_EQ,
        BinOp::TwoDots(_) => OP_CONCAT, BinOp::Plus(_) => OP_PLUS, BinOp::Minus(_) => OP_MINUS,
        BinOp::Star(_) => OP_STAR, BinOp::Slash(_) => OP_SLASH, BinOp::Percent(_) => OP_PERCENT,
        BinOp::Caret(_) => OP_CARET,
        #[cfg(feature = "lua53")] BinOp::Pipe(_) => OP_PIPE,
        #[cfg(feature = "lua53")] BinOp::Tilde(_) => OP_TILDE,
        #[cfg(feature = "lua53")] BinOp::Ampersand(_) => OP_AMP,
        #[cfg(feature = "lua53")] BinOp::DoubleLessThan(_) => OP_SHL,
        #[cfg(feature = "lua53")] BinOp::DoubleGreaterThan(_) => OP_SHR,
        #[cfg(any(feature = "luau", feature = "lua53"))] BinOp::DoubleSlash(_) => OP_DSLASH,
        _ => OP_UNKNOWN,
    }
}
pub open spec fn unop_id(u: UnOp) -> int {
    match u {
        UnOp::Minus(_) => UN_MINUS, UnOp::Not(_) => UN_NOT, UnOp::Hash(_) => UN_HASH,
        #[cfg(feature = "lua53")] UnOp::Tilde(_) => UN_TILDE,
        _ => 0,
    }
}
// precedence levels (higher binds tighter); unary sits between level 10 and `^` (12)
pub open spec fn prec(op: int) -> int {
    if op == OP_OR { 1 } else if op == OP_AND { 2 }
    else if OP_LT <= op <= OP_EQ { 3 }
    else if op == OP_PIPE { 4 } else if op == OP_TILDE { 5 } else if op == OP_AMP { 6 }
    else if op == OP_SHL || op == OP_SHR { 7 }
    else if op == OP_CONCAT { 8 }
    else if op == OP_PLUS || op == OP_MINUS { 9 }
    else if OP_STAR <= op <= OP_PERCENT { 10 }
    else if op == OP_CARET { 12 }
    else { 0 }
}
pub open spec fn right_assoc(op: int) -> bool { op == OP_CARET || op == OP_CONCAT }

pub open spec fn skel(e: Expression) -> Skel
    decreases e
{
    match e {
        Expression::Parentheses { contained, expression } => Skel::Paren(Box::new(skel(*expression))),
        Expression::UnaryOperator { unop, expression } => Skel::Un(unop_id(unop), Box::new(skel(*expression))),
        Expression::BinaryOperator { lhs, binop, rhs } => Skel::Bin(Box::new(skel(*lhs)), binop_id(binop), Box::new(skel(*rhs))),
        #[cfg(feature = "luau")]
        Expression::TypeAssertion { expression, type_assertion } => Skel::Assert(Box::new(skel(*expression)), type_assertion_id(type_assertion)),
        Expression::FunctionCall(c) => Skel::Leaf(LeafKind::Call, call_id(c)),
        Expression::Symbol(t) => if token_is_ellipsis(t) { Skel::Leaf(LeafKind::Varargs, tok_of(t)) } else { Skel::Leaf(LeafKind::Symbol, tok_of(t)) },
        #[cfg(feature = "luau")]
        Expression::IfExpression(c) => Skel::Leaf(LeafKind::IfExpr, if_id(c)),
        #[cfg(feature = "luau")]
        Expression::InterpolatedString(c) => Skel::Leaf(LeafKind::Interp, interp_id(c)),
        Expression::Function(b) => Skel::Leaf(LeafKind::Function, anon_fn_id(*b)),
        Expression::TableConstructor(c) => Skel::Leaf(LeafKind::Table, table_id(c)),
        Expression::Number(t) => Skel::Leaf(LeafKind::Number, tok_of(t)),
        Expression::String(t) => Skel::Leaf(LeafKind::Str, tok_of(t)),
        Expression::Var(v) => Skel::Leaf(LeafKind::Var, var_id(v)),
        _ => Skel::Leaf(LeafKind::Var, -1),
    }
}

// erase redundant parentheses. Parentheses around a call or `...` truncate a value list: they are kept.
pub open spec fn erase(s: Skel) -> Skel
    decreases s
{
    match s {
        Skel::Paren(inner) => match *inner {
            Skel::Leaf(LeafKind::Call, _) => s,
            Skel::Leaf(LeafKind::Varargs, _) => s,
            _ => erase(*inner),
        },
        Skel::Un(o, inner) => Skel::Un(o, Box::new(erase(*inner))),
        Skel::Bin(l, o, r) => Skel::Bin(Box::new(erase(*l)), o, Box::new(erase(*r))),
        Skel::Assert(inner, t) => Skel::Assert(Box::new(erase(*inner)), t),
        other => other,
    }
}

// an expression whose printed form absorbs tokens that follow it: `if c then a else b` (the else
// branch is a full expression) and `e :: T` (the type grammar continues over `<`, `|`, `&`, `?`).
pub open spec fn right_open(s: Skel) -> bool
    decreases s
{
    match s {
        Skel::Leaf(LeafKind::IfExpr, _) => true,
        Skel::Assert(_, _) => true,
        Skel::Un(_, x) => right_open(*x),
        Skel::Bin(_, _, r) => right_open(*r),
        _ => false,
    }
}

// syntactic positions an expression can sit in
pub enum Pos { Free, PrefixPos, AssertOperand, UnaryOperand, BinLhs(int), BinRhs(int) }

pub open spec fn fits(s: Skel, p: Pos) -> bool {
    match p {
        Pos::Free => true,
        Pos::PrefixPos => s is Paren,
        Pos::AssertOperand => s is Paren || (s is Leaf && !(s->Leaf_0 is IfExpr)),
        Pos::UnaryOperand => match s { Skel::Bin(_, o, _) => o == OP_CARET, _ => true },
        Pos::BinLhs(op) => !right_open(s) && match s {
            Skel::Un(_, _) => op != OP_CARET,
            Skel::Bin(_, o, _) => prec(o) > prec(op) || (prec(o) == prec(op) && !right_assoc(op)),
            _ => true,
        },
        Pos::BinRhs(op) => match s {
            Skel::Bin(_, o, _) => prec(o) > prec(op) || (prec(o) == prec(op) && right_assoc(op)),
            _ => true,
        },
    }
}

// printing s and parsing it again yields s (assumed of every parsed input, proved of every output)
pub open spec fn wf(s: Skel) -> bool
    decreases s
{
    match s {
        Skel::Paren(i) => wf(*i),
        Skel::Un(_, x) => wf(*x) && fits(*x, Pos::UnaryOperand),
        Skel::Bin(l, o, r) => wf(*l) && wf(*r) && o != OP_UNKNOWN && fits(*l, Pos::BinLhs(o)) && fits(*r, Pos::BinRhs(o)),
        Skel::Assert(x, _) => wf(*x) && fits(*x, Pos::AssertOperand),
        _ => true,
    }
}

// `- -x` must never be printed as `--x`
pub open spec fn no_double_minus(s: Skel) -> bool
    decreases s
{
    match s {
        Skel::Paren(i) => no_double_minus(*i),
        Skel::Un(o, x) => no_double_minus(*x) && !(o == UN_MINUS && (*x) is Un && (*x)->Un_0 == UN_MINUS),
        Skel::Bin(l, _, r) => no_double_minus(*l) && no_double_minus(*r),
        Skel::Assert(x, _) => no_double_minus(*x),
        _ => true,
    }
}

// parentheses the property says are never dropped, whatever the context: those that truncate a value list (`(f())`, `(...)`) and
// those that hold an if-expression together. (Parentheses around a binary operation are NOT in this list: whether they may go is a
// question of operator grouping, which `fits` answers per position; the current code happens to keep all of them.)
pub open spec fn must_keep_parens(inner: Skel) -> bool {
    inner is Leaf && (inner->Leaf_0 is Call || inner->Leaf_0 is Varargs || inner->Leaf_0 is IfExpr)
}

// ---- long-bracket strings directly inside `[ ]` (C01: `[[` must not be re-lexed) ----
pub open spec fn is_bracket_tok(t: TokenReference) -> bool {
    match token_type_of(tr_token(t)) { TokenType::StringLiteral { quote_type, .. } => quote_type is Brackets, _ => false }
}
// the printed expression begins with a `[[…]]` / `[=[…]=]` string token
pub open spec fn begins_with_bracket_string(e: Expression) -> bool
    decreases e
{
    match e {
        Expression::String(t) => is_bracket_tok(t),
        #[cfg(feature = "luau")]
        Expression::TypeAssertion { expression, .. } => begins_with_bracket_string(*expression),
        Expression::BinaryOperator { lhs, .. } => begins_with_bracket_string(*lhs),
        _ => false,
    }
}
// ... or will, once redundant parentheses are removed
pub open spec fn may_begin_with_bracket_string(e: Expression) -> bool
    decreases e
{
    match e {
        Expression::String(t) => is_bracket_tok(t),
        #[cfg(feature = "luau")]
        Expression::TypeAssertion { expression, .. } => may_begin_with_bracket_string(*expression),
        Expression::BinaryOperator { lhs, .. } => may_begin_with_bracket_string(*lhs),
        Expression::Parentheses { expression, .. } => may_begin_with_bracket_string(*expression),
        _ => false,
    }
}
