// ---- prelude/fm_stmt_types.rs : statement-level full_moon types -------------------------------
#[verifier::external_type_specification] #[verifier::external_body] pub struct ExBlock(Block);
#[verifier::external_type_specification] #[verifier::external_body] pub struct ExReturn(Return);
#[verifier::external_type_specification] #[verifier::external_body] pub struct ExAssignment(Assignment);
#[verifier::external_type_specification] #[verifier::external_body] pub struct ExDo(Do);
#[verifier::external_type_specification] #[verifier::external_body] pub struct ExFunctionDeclaration(FunctionDeclaration);
#[verifier::external_type_specification] #[verifier::external_body] pub struct ExGenericFor(GenericFor);
#[verifier::external_type_specification] #[verifier::external_body] pub struct ExIf(If);
#[verifier::external_type_specification] #[verifier::external_body] pub struct ExLocalAssignment(LocalAssignment);
#[verifier::external_type_specification] #[verifier::external_body] pub struct ExLocalFunction(LocalFunction);
#[verifier::external_type_specification] #[verifier::external_body] pub struct ExNumericFor(NumericFor);
#[verifier::external_type_specification] #[verifier::external_body] pub struct ExRepeat(Repeat);
#[verifier::external_type_specification] #[verifier::external_body] pub struct ExWhile(While);
#[cfg(feature = "luau")] #[verifier::external_type_specification] #[verifier::external_body] pub struct ExCompoundAssignment(full_moon::ast::luau::CompoundAssignment);
#[cfg(feature = "luau")] #[verifier::external_type_specification] #[verifier::external_body] pub struct ExExportedTypeDeclaration(full_moon::ast::luau::ExportedTypeDeclaration);
#[cfg(feature = "luau")] #[verifier::external_type_specification] #[verifier::external_body] pub struct ExTypeDeclaration(full_moon::ast::luau::TypeDeclaration);
#[cfg(feature = "luau")] #[verifier::external_type_specification] #[verifier::external_body] pub struct ExExportedTypeFunction(full_moon::ast::luau::ExportedTypeFunction);
#[cfg(feature = "luau")] #[verifier::external_type_specification] #[verifier::external_body] pub struct ExTypeFunction(full_moon::ast::luau::TypeFunction);
#[cfg(any(feature = "lua52", feature = "luajit"))] #[verifier::external_type_specification] #[verifier::external_body] pub struct ExGoto(full_moon::ast::lua52::Goto);
#[cfg(any(feature = "lua52", feature = "luajit"))] #[verifier::external_type_specification] #[verifier::external_body] pub struct ExLabel(full_moon::ast::lua52::Label);
#[verifier::external_type_specification] pub struct ExStmt(Stmt);
#[verifier::external_type_specification] pub struct ExLastStmt(LastStmt);

#[verifier::reject_recursive_types(I)]
#[verifier::external_type_specification] #[verifier::external_body]
pub struct ExPeekable<I>(std::iter::Peekable<I>) where I: Iterator;

pub type StmtSemi = (Stmt, Option<TokenReference>);
pub uninterp spec fn block_stmts(b: &Block) -> Seq<StmtSemi>;
pub uninterp spec fn block_last(b: &Block) -> Option<(LastStmt, Option<TokenReference>)>;
pub uninterp spec fn pk_rest<I: Iterator>(p: &std::iter::Peekable<I>) -> Seq<I::Item>;
pub uninterp spec fn it_rest<I: Iterator>(p: &I) -> Seq<I::Item>;

pub assume_specification [Block::stmts_with_semicolon] (b: &Block) -> (r: impl Iterator<Item = &(Stmt, Option<TokenReference>)>)
    ensures it_rest(&r).len() == block_stmts(b).len(),
            forall|i: int| 0 <= i < it_rest(&r).len() ==> *(#[trigger] it_rest(&r)[i]) == block_stmts(b)[i];
pub assume_specification [Block::last_stmt_with_semicolon] (b: &Block) -> (r: Option<&(LastStmt, Option<TokenReference>)>)
    ensures r is Some == block_last(b) is Some, r is Some ==> *r.unwrap() == block_last(b).unwrap();
pub assume_specification [Block::new] () -> (r: Block) ensures block_stmts(&r).len() == 0, block_last(&r) is None;
pub assume_specification [Block::with_stmts] (b: Block, stmts: Vec<(Stmt, Option<TokenReference>)>) -> (r: Block)
    ensures block_stmts(&r) == stmts@, block_last(&r) == block_last(&b);
pub assume_specification [Block::with_last_stmt] (b: Block, l: Option<(LastStmt, Option<TokenReference>)>) -> (r: Block)
    ensures block_stmts(&r) == block_stmts(&b), block_last(&r) == l;
#[verifier::allow(undeclared_external_trait)]
pub assume_specification<T> [std::mem::drop] (x: T) where T: std::marker::Destruct;

pub assume_specification<I> [std::iter::Peekable::<I>::peek] (p: &mut std::iter::Peekable<I>) -> (r: Option<&<I as Iterator>::Item>)
    where I: Iterator,
    ensures pk_rest(final(p)) == pk_rest(old(p)),
            pk_rest(old(p)).len() == 0 ==> r is None,
            pk_rest(old(p)).len() > 0 ==> r is Some && *r.unwrap() == pk_rest(old(p))[0];
pub assume_specification<I> [<std::iter::Peekable::<I> as Iterator>::next] (p: &mut std::iter::Peekable<I>) -> (r: Option<<I as Iterator>::Item>)
    where I: Iterator,
    ensures pk_rest(old(p)).len() == 0 ==> r is None && pk_rest(final(p)) == pk_rest(old(p)),
            pk_rest(old(p)).len() > 0 ==> r is Some && r.unwrap() == pk_rest(old(p))[0] && pk_rest(final(p)) == pk_rest(old(p)).skip(1);
