// ---- prelude/fm_types.rs : external type specifications for the REAL full_moon types --------
// Enums the contracts look into are transparent; payload structs are opaque (external_body).
#[verifier::external_type_specification] #[verifier::external_body] pub struct ExTokenReference(TokenReference);
#[verifier::external_type_specification] #[verifier::external_body] pub struct ExToken(Token);
#[verifier::external_type_specification] #[verifier::external_body] pub struct ExContainedSpan(ContainedSpan);
#[verifier::external_type_specification] #[verifier::external_body] pub struct ExFunctionBody(FunctionBody);
#[verifier::external_type_specification] #[verifier::external_body] pub struct ExFunctionCall(FunctionCall);
#[verifier::external_type_specification] #[verifier::external_body] pub struct ExTableConstructor(TableConstructor);
#[verifier::external_type_specification] #[verifier::external_body] pub struct ExVarExpression(VarExpression);
#[verifier::external_type_specification] #[verifier::external_body] pub struct ExMethodCall(MethodCall);
#[verifier::external_type_specification] #[verifier::external_body] pub struct ExShortString(full_moon::ShortString);
#[verifier::external_type_specification] #[verifier::external_body] pub struct ExPosition(full_moon::tokenizer::Position);
#[verifier::external_type_specification] #[verifier::external_body] pub struct ExTokErr(full_moon::tokenizer::TokenizerErrorType);
#[cfg(feature = "luau")] #[verifier::external_type_specification] #[verifier::external_body] pub struct ExIfExpression(full_moon::ast::luau::IfExpression);
#[cfg(feature = "luau")] #[verifier::external_type_specification] #[verifier::external_body] pub struct ExInterpolatedString(full_moon::ast::luau::InterpolatedString);
#[cfg(feature = "luau")] #[verifier::external_type_specification] #[verifier::external_body] pub struct ExTypeAssertion(full_moon::ast::luau::TypeAssertion);
#[verifier::external_type_specification] pub struct ExUnOp(UnOp);
#[verifier::external_type_specification] pub struct ExBinOp(BinOp);
#[verifier::external_type_specification] pub struct ExExpression(Expression);
#[verifier::external_type_specification] pub struct ExVar(Var);
#[verifier::external_type_specification] pub struct ExPrefix(Prefix);
#[verifier::external_type_specification] pub struct ExSuffix(Suffix);
#[verifier::external_type_specification] pub struct ExIndex(Index);
#[verifier::external_type_specification] pub struct ExCall(Call);
#[verifier::external_type_specification] pub struct ExFunctionArgs(FunctionArgs);
#[verifier::external_type_specification] pub struct ExSymbol(Symbol);
#[verifier::external_type_specification] pub struct ExTokenType(TokenType);
#[verifier::external_type_specification] pub struct ExStringLiteralQuoteType(StringLiteralQuoteType);
#[cfg(feature = "luau")] #[verifier::external_type_specification] pub struct ExInterpolatedStringKind(full_moon::tokenizer::InterpolatedStringKind);
#[verifier::accept_recursive_types(T)]   // a sequence of (T, Option<TokenReference>) pairs: T occurs positively only
#[verifier::external_type_specification] #[verifier::external_body] pub struct ExPunctuated<T>(Punctuated<T>);

pub assume_specification<T> [<T as std::borrow::ToOwned>::to_owned] (x: &T) -> (r: T) where T: std::clone::Clone, ensures r == *x;
