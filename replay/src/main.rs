//! vxreplay: runs witness programs against the REAL stylua_lib built from /repo's working tree and
//! evaluates a property-level oracle on input vs. output. Used only to replay failed obligations.
use full_moon::ast::{Ast, Expression};
use full_moon::tokenizer::{Token, TokenReference, TokenType};
use full_moon::visitors::{Visitor, VisitorMut};
use full_moon::ast::span::ContainedSpan;
use serde_json::json;
use stylua_lib::*;

fn syntax_of(s: &str) -> LuaVersion {
    match s {
        "lua51" => LuaVersion::Lua51,
        "lua52" => LuaVersion::Lua52,
        "lua53" => LuaVersion::Lua53,
        "lua54" => LuaVersion::Lua54,
        "luau" => LuaVersion::Luau,
        "luajit" => LuaVersion::LuaJIT,
        _ => LuaVersion::All,
    }
}

fn apply_opt(cfg: &mut Config, k: &str, v: &str) {
    match k {
        "syntax" => cfg.syntax = syntax_of(v),
        "column_width" => cfg.column_width = v.parse().unwrap(),
        "indent_width" => cfg.indent_width = v.parse().unwrap(),
        "indent_type" => cfg.indent_type = if v == "Spaces" { IndentType::Spaces } else { IndentType::Tabs },
        "line_endings" => cfg.line_endings = if v == "Windows" { LineEndings::Windows } else { LineEndings::Unix },
        "quote_style" => cfg.quote_style = match v { "AutoPreferSingle" => QuoteStyle::AutoPreferSingle, "ForceDouble" => QuoteStyle::ForceDouble, "ForceSingle" => QuoteStyle::ForceSingle, _ => QuoteStyle::AutoPreferDouble },
        "call_parentheses" => cfg.call_parentheses = match v { "NoSingleString" => CallParenType::NoSingleString, "NoSingleTable" => CallParenType::NoSingleTable, "None" => CallParenType::None, "Input" => CallParenType::Input, _ => CallParenType::Always },
        "collapse_simple_statement" => cfg.collapse_simple_statement = match v { "FunctionOnly" => CollapseSimpleStatement::FunctionOnly, "ConditionalOnly" => CollapseSimpleStatement::ConditionalOnly, "Always" => CollapseSimpleStatement::Always, _ => CollapseSimpleStatement::Never },
        "sort_requires" => cfg.sort_requires = SortRequiresConfig { enabled: v == "true" },
        "space_after_function_names" => cfg.space_after_function_names = match v { "Definitions" => SpaceAfterFunctionNames::Definitions, "Calls" => SpaceAfterFunctionNames::Calls, "Always" => SpaceAfterFunctionNames::Always, _ => SpaceAfterFunctionNames::Never },
        _ => panic!("unknown option {k}"),
    }
}

/// Fully parenthesise every operator application and drop the parentheses the property calls
/// redundant (all but those around a call or `...`): token streams of two ASTs are then equal
/// iff their operator trees are equal modulo redundant parentheses.
struct Normalise;
fn sym(s: &str) -> TokenReference { TokenReference::symbol(s).unwrap() }
impl VisitorMut for Normalise {
    fn visit_expression_end(&mut self, e: Expression) -> Expression {
        match e {
            Expression::Parentheses { contained, expression } => {
                let keep = match &*expression {
                    Expression::FunctionCall(_) => true,
                    Expression::Symbol(t) => matches!(t.token_type(), TokenType::Symbol { symbol: full_moon::tokenizer::Symbol::Ellipsis }),
                    _ => false,
                };
                if keep { Expression::Parentheses { contained, expression } } else { *expression }
            }
            e @ Expression::BinaryOperator { .. } | e @ Expression::UnaryOperator { .. } => Expression::Parentheses {
                contained: ContainedSpan::new(sym("("), sym(")")),
                expression: Box::new(e),
            },
            other => other,
        }
    }
    // separators of a table constructor (`,` / `;`, trailing or not) may change
    fn visit_table_constructor_end(&mut self, t: full_moon::ast::TableConstructor) -> full_moon::ast::TableConstructor {
        use full_moon::ast::punctuated::{Pair, Punctuated};
        let n = t.fields().len();
        let mut fields = Punctuated::new();
        for (i, pair) in t.fields().clone().into_pairs().enumerate() {
            let v = pair.into_value();
            fields.push(if i + 1 < n { Pair::new(v, Some(sym(","))) } else { Pair::new(v, None) });
        }
        t.with_fields(fields)
    }
    // `f"s"` / `f{t}` and `f("s")` / `f({t})` are the same call
    fn visit_function_args_end(&mut self, a: full_moon::ast::FunctionArgs) -> full_moon::ast::FunctionArgs {
        use full_moon::ast::punctuated::{Pair, Punctuated};
        use full_moon::ast::FunctionArgs;
        let one = |e: Expression| { let mut p = Punctuated::new(); p.push(Pair::new(e, None)); p };
        match a {
            FunctionArgs::String(s) => FunctionArgs::Parentheses { parentheses: ContainedSpan::new(sym("("), sym(")")), arguments: one(Expression::String(s)) },
            FunctionArgs::TableConstructor(t) => FunctionArgs::Parentheses { parentheses: ContainedSpan::new(sym("("), sym(")")), arguments: one(Expression::TableConstructor(t)) },
            other => other,
        }
    }
}

#[derive(Default)]
struct Collect { toks: Vec<String>, comments: Vec<String> }
impl Visitor for Collect {
    fn visit_token(&mut self, t: &Token) {
        match t.token_type() {
            TokenType::Whitespace { .. } | TokenType::Eof => {}
            TokenType::SingleLineComment { comment } => self.comments.push(format!("--{}", comment.as_str().trim_end())),
            TokenType::MultiLineComment { blocks, comment } => self.comments.push(format!("--[{}[{}", blocks, comment.as_str().replace("\r\n", "\n"))),
            TokenType::Shebang { line } => self.comments.push(format!("#!{}", line.as_str().trim_end())),
            TokenType::StringLiteral { .. } => self.toks.push("<str>".into()),
            TokenType::Number { .. } => self.toks.push("<num>".into()),
            _ => self.toks.push(t.to_string()),
        }
    }
}

fn classify(t: &Token, toks: &mut Vec<String>, comments: &mut Vec<String>) {
    match t.token_type() {
        TokenType::Whitespace { .. } | TokenType::Eof => {}
        TokenType::SingleLineComment { comment } => comments.push(format!("--{}", comment.as_str().trim_end())),
        TokenType::MultiLineComment { blocks, comment } => comments.push(format!("--[{}[{}", blocks, comment.as_str().replace("\r\n", "\n"))),
        TokenType::Shebang { line } => comments.push(format!("#!{}", line.as_str().trim_end())),
        TokenType::StringLiteral { .. } => toks.push("<str>".into()),
        TokenType::Number { .. } => toks.push("<num>".into()),
        _ => toks.push(t.to_string()),
    }
}
/// every token reference of the file in source order (Node::tokens reaches the tokens of contained spans with
/// their trivia, which the Visitor does not)
fn normal_form(ast: Ast) -> (Vec<String>, Vec<String>) {
    use full_moon::node::Node;
    // the comment census is taken on the AST as parsed (normalising drops parentheses together with their trivia)
    let (mut ignore, mut comments) = (vec![], vec![]);
    for tr in ast.nodes().tokens().chain(std::iter::once(ast.eof())) {
        for t in tr.leading_trivia() { classify(t, &mut ignore, &mut comments) }
        for t in tr.trailing_trivia() { classify(t, &mut ignore, &mut comments) }
    }
    let ast = Normalise.visit_ast(ast);
    let (mut toks, mut ignore2) = (vec![], vec![]);
    for tr in ast.nodes().tokens().chain(std::iter::once(ast.eof())) {
        classify(tr.token(), &mut toks, &mut ignore2);
    }
    // semicolons and table separators / trailing commas are allowed to differ
    let toks = toks.into_iter().filter(|t| t != ";").collect();
    (toks, comments)
}

/// Decode a quoted Lua string body (all escapes of Lua 5.1-5.4 / Luau) to bytes.
fn decode_quoted(body: &str) -> Vec<u8> {
    let b = body.as_bytes();
    let mut out = Vec::new();
    let mut i = 0;
    while i < b.len() {
        if b[i] != b'\\' { out.push(b[i]); i += 1; continue; }
        i += 1;
        if i >= b.len() { break; }
        match b[i] {
            b'a' => { out.push(7); i += 1 } b'b' => { out.push(8); i += 1 } b'f' => { out.push(12); i += 1 }
            b'n' => { out.push(10); i += 1 } b'r' => { out.push(13); i += 1 } b't' => { out.push(9); i += 1 } b'v' => { out.push(11); i += 1 }
            b'\r' => { out.push(10); i += 1; if i < b.len() && b[i] == b'\n' { i += 1 } }
            b'\n' => { out.push(10); i += 1; if i < b.len() && b[i] == b'\r' { i += 1 } }
            b'z' => { i += 1; while i < b.len() && (b[i] as char).is_ascii_whitespace() { i += 1 } }
            b'x' => { let h = std::str::from_utf8(&b[i + 1..(i + 3).min(b.len())]).unwrap_or("0"); out.push(u8::from_str_radix(h, 16).unwrap_or(0)); i += 3 }
            b'u' => {
                let end = body[i..].find('}').map(|e| i + e).unwrap_or(b.len() - 1);
                let cp = u32::from_str_radix(&body[i + 2..end], 16).unwrap_or(0);
                let mut buf = [0u8; 4];
                match char::from_u32(cp) { Some(c) => out.extend_from_slice(c.encode_utf8(&mut buf).as_bytes()), None => out.extend_from_slice(&cp.to_be_bytes()) }
                i = end + 1
            }
            d if d.is_ascii_digit() => {
                let mut n = 0u32; let mut k = 0;
                while k < 3 && i < b.len() && b[i].is_ascii_digit() { n = n * 10 + (b[i] - b'0') as u32; i += 1; k += 1 }
                out.push(n as u8)
            }
            other => { out.push(other); i += 1 }
        }
    }
    out
}
fn string_values(ast: &Ast) -> Vec<Vec<u8>> {
    struct S(Vec<Vec<u8>>);
    impl Visitor for S {
        fn visit_token(&mut self, t: &Token) {
            if let TokenType::StringLiteral { literal, quote_type, .. } = t.token_type() {
                match quote_type {
                    full_moon::tokenizer::StringLiteralQuoteType::Brackets => {
                        // a first newline is skipped by Lua; newline convention inside long strings may change
                        let l = literal.as_str().replace("\r\n", "\n");
                        self.0.push(l.strip_prefix('\n').unwrap_or(&l).as_bytes().to_vec())
                    }
                    _ => self.0.push(decode_quoted(literal.as_str())),
                }
            }
        }
    }
    let mut s = S(vec![]); s.visit_ast(ast); s.0
}
fn number_value(text: &str) -> String {
    let t = text.replace('_', "").to_lowercase();
    let (neg, t) = match t.strip_prefix('-') { Some(r) => (true, r.to_string()), None => (false, t) };
    let v = if let Some(h) = t.strip_prefix("0x") {
        let (mant, exp) = match h.split_once('p') { Some((m, e)) => (m.to_string(), e.parse::<i32>().unwrap_or(0)), None => (h.to_string(), 0) };
        let (ip, fp) = match mant.split_once('.') { Some((a, b)) => (a.to_string(), b.to_string()), None => (mant, String::new()) };
        let mut v = 0f64;
        for c in ip.chars() { v = v * 16.0 + c.to_digit(16).unwrap_or(0) as f64 }
        let mut scale = 1.0 / 16.0;
        for c in fp.chars() { v += c.to_digit(16).unwrap_or(0) as f64 * scale; scale /= 16.0 }
        v * 2f64.powi(exp)
    } else if let Some(bn) = t.strip_prefix("0b") {
        bn.chars().fold(0f64, |a, c| a * 2.0 + if c == '1' { 1.0 } else { 0.0 })
    } else {
        let t2 = t.trim_end_matches("ull").trim_end_matches("ll").trim_end_matches('i');
        t2.parse::<f64>().unwrap_or(f64::NAN)
    };
    format!("{:e}", if neg { -v } else { v })
}
fn number_values(ast: &Ast) -> Vec<String> {
    struct S(Vec<String>);
    impl Visitor for S { fn visit_token(&mut self, t: &Token) { if let TokenType::Number { text } = t.token_type() { self.0.push(number_value(text.as_str())) } } }
    let mut s = S(vec![]); s.visit_ast(ast); s.0
}

/// corpus mode: every file of a list under one configuration and a few column widths; all oracles that apply to any input
/// (the formatter does not panic, the output parses, same operator tree, same comments, same literal values)
fn corpus(args: &[String]) {
    let list = std::fs::read_to_string(&args[2]).unwrap();
    let mut cfg = Config::default();
    let mut widths: Vec<usize> = vec![];
    for kv in &args[3..] {
        let (k, v) = kv.split_once('=').unwrap();
        if k == "widths" { widths = v.split(',').map(|x| x.parse().unwrap()).collect(); } else if k != "syntax" { apply_opt(&mut cfg, k, v); }
    }
    if widths.is_empty() { widths.push(cfg.column_width); }
    let mut failures = vec![];
    let (mut files, mut runs) = (0, 0);
    std::panic::set_hook(Box::new(|_| {}));
    for line in list.lines() {
        let Some((path, syntax)) = line.split_once('\t') else { continue };
        let Ok(src) = std::fs::read_to_string(path) else { continue };
        cfg.syntax = syntax_of(syntax);
        let Ok(i) = full_moon::parse_fallible(&src, cfg.syntax.into()).into_result() else { continue };
        files += 1;
        let (ti, ci) = normal_form(i.clone());
        let (si, ni) = (string_values(&i), number_values(&i));
        for w in &widths {
            cfg.column_width = *w;
            runs += 1;
            let mut fail = |kind: &str, detail: String| failures.push(json!({"file": path, "column_width": w, "kind": kind, "detail": detail}));
            let res = std::panic::catch_unwind(|| format_code(&src, cfg, None, OutputVerification::None));
            let out = match res { Err(_) => { fail("panic", "formatter panicked".into()); continue } Ok(Err(e)) => { fail("error", e.to_string()); continue } Ok(Ok(o)) => o };
            let o = match full_moon::parse_fallible(&out, cfg.syntax.into()).into_result() {
                Err(errs) => { fail("parse", errs.iter().map(|e| e.to_string()).collect::<Vec<_>>().join("; ")); continue }
                Ok(o) => o,
            };
            let (so, no) = (string_values(&o), number_values(&o));
            let (to, co) = normal_form(o);
            // Luau type syntax: redundant parentheses around types and separators of type tables may change, and this normal form
            // does not parenthesise type operators: for Luau files the streams are compared without `(` `)` `,` (corpus mode only)
            let loose = |v: &Vec<String>| -> Vec<String> { v.iter().filter(|t| !matches!(t.as_str(), "(" | ")" | ",")).cloned().collect() };
            let same = if syntax == "luau" { loose(&ti) == loose(&to) } else { ti == to };
            if !cfg.sort_requires.enabled && !same {
                let k = ti.iter().zip(to.iter()).position(|(a, b)| a != b).unwrap_or(ti.len().min(to.len()));
                fail("tree", format!("token {}: input …{} / output …{}", k, ti[k.saturating_sub(4)..(k + 4).min(ti.len())].join(" "), to[k.saturating_sub(4)..(k + 4).min(to.len())].join(" ")));
            }
            let mut a = ci.clone(); a.sort(); let mut b = co.clone(); b.sort();
            if a != b {
                let lost: Vec<_> = a.iter().filter(|x| !b.contains(x)).take(3).collect();
                let made: Vec<_> = b.iter().filter(|x| !a.contains(x)).take(3).collect();
                fail("comments", format!("only in input {:?} / only in output {:?} ({} vs {} comments)", lost, made, a.len(), b.len()));
            }
            if !cfg.sort_requires.enabled && (si != so || ni != no) { fail("literals", "literal values differ".into()); }
        }
    }
    println!("{}", json!({"files": files, "runs": runs, "failures": failures}));
    std::process::exit(if failures.is_empty() { 0 } else { 1 });
}

fn main() {
    let args: Vec<String> = std::env::args().collect();
    if args[1] == "corpus" { return corpus(&args); }
    // vxreplay <oracle> <file> [k=v]... [range=a:b] [contains=<file>]
    let oracle = &args[1];
    let src = std::fs::read_to_string(&args[2]).unwrap();
    let mut cfg = Config::default();
    let mut range = None;
    let mut contains: Option<String> = None;
    let mut widths: Vec<usize> = vec![];
    for kv in &args[3..] {
        let (k, v) = kv.split_once('=').unwrap();
        if k == "range" {
            let (a, b) = v.split_once(':').unwrap();
            range = Some(Range::from_values(a.parse().ok(), b.parse().ok()));
        } else if k == "contains" {
            contains = Some(std::fs::read_to_string(v).unwrap());
        } else if k == "sweep_widths" {
            let (a, b) = v.split_once(':').unwrap();
            widths = (a.parse::<usize>().unwrap()..=b.parse::<usize>().unwrap()).collect();
        } else {
            apply_opt(&mut cfg, k, v);
        }
    }
    if widths.is_empty() { widths.push(cfg.column_width); }
    let mut out_json = vec![];
    let mut violated = false;
    for w in widths {
        cfg.column_width = w;
        let res = std::panic::catch_unwind(|| format_code(&src, cfg, range, OutputVerification::None));
        let (verdict, detail, output) = match res {
            Err(_) => ("violated", "formatter panicked".to_string(), String::new()),
            Ok(Err(e)) => ("input-rejected", e.to_string(), String::new()),
            Ok(Ok(out)) => {
                let reparsed = full_moon::parse_fallible(&out, cfg.syntax.into()).into_result();
                match (oracle.as_str(), reparsed) {
                    (_, Err(errs)) => ("violated", format!("output does not parse: {}", errs.iter().map(|e| e.to_string()).collect::<Vec<_>>().join("; ")), out),
                    ("parse", Ok(_)) => ("ok", String::new(), out),
                    ("tree", Ok(o)) | ("comments", Ok(o)) => {
                        let i = full_moon::parse_fallible(&src, cfg.syntax.into()).into_result().unwrap();
                        let (ti, ci) = normal_form(i);
                        let (to, co) = normal_form(o);
                        if oracle == "tree" {
                            // call sugar / trailing separators: compare modulo `(` `)` `,` around single string/table args is out of
                            // scope for this oracle; witnesses avoid them
                            if ti == to { ("ok", String::new(), out) } else {
                                let k = ti.iter().zip(to.iter()).position(|(a, b)| a != b).unwrap_or(ti.len().min(to.len()));
                                ("violated", format!("operator tree differs at normalised token {}: input …{} / output …{}", k,
                                    ti[k.saturating_sub(4)..(k + 4).min(ti.len())].join(" "), to[k.saturating_sub(4)..(k + 4).min(to.len())].join(" ")), out)
                            }
                        } else {
                            let mut a = ci.clone(); a.sort(); let mut b = co.clone(); b.sort();
                            if a == b { ("ok", String::new(), out) } else { ("violated", format!("comment census differs: input {:?} / output {:?}", ci, co), out) }
                        }
                    }
                    ("permutation", Ok(o)) => {
                        // C12: top-level statements of the output are a permutation of the input's; statements that are not
                        // `local NAME = require(..)/game:GetService(..)` keep their relative order; comments all survive
                        let i = full_moon::parse_fallible(&src, cfg.syntax.into()).into_result().unwrap();
                        fn stmt_keys(ast: &Ast) -> Vec<(String, bool)> {
                            ast.nodes().stmts().map(|s| {
                                let mut c = Collect::default();
                                c.visit_stmt(s);
                                let k = c.toks.join(" ");
                                let is_req = k.starts_with("local ") && (k.contains("= require") || k.contains(": GetService") || k.contains(":GetService"));
                                (k, is_req)
                            }).collect()
                        }
                        let ki = stmt_keys(&i); let ko = stmt_keys(&o);
                        let mut a: Vec<_> = ki.iter().map(|x| x.0.clone()).collect(); a.sort();
                        let mut b: Vec<_> = ko.iter().map(|x| x.0.clone()).collect(); b.sort();
                        let fi: Vec<_> = ki.iter().filter(|x| !x.1).map(|x| x.0.clone()).collect();
                        let fo: Vec<_> = ko.iter().filter(|x| !x.1).map(|x| x.0.clone()).collect();
                        let (_, ci) = normal_form(i); let (_, co) = normal_form(o);
                        let mut ca = ci.clone(); ca.sort(); let mut cb = co.clone(); cb.sort();
                        if a != b { ("violated", format!("statements are not a permutation: input {:?} / output {:?}", ki, ko), out) }
                        else if fi != fo { ("violated", "non-require statements changed order".to_string(), out) }
                        else if ca != cb { ("violated", format!("comment census differs: input {:?} / output {:?}", ci, co), out) }
                        else if !cfg.sort_requires.enabled && ki != ko { ("violated", "statement order changed although sort_requires is off".to_string(), out) }
                        else { ("ok", String::new(), out) }
                    }
                    ("literals", Ok(o)) => {
                        let i = full_moon::parse_fallible(&src, cfg.syntax.into()).into_result().unwrap();
                        let (si, so) = (string_values(&i), string_values(&o));
                        let (ni, no) = (number_values(&i), number_values(&o));
                        if si != so { let k = si.iter().zip(so.iter()).position(|(a, b)| a != b).unwrap_or(0);
                            ("violated", format!("string literal #{} denotes {:?} in the input and {:?} in the output", k, si.get(k).map(|x| String::from_utf8_lossy(x).to_string()), so.get(k).map(|x| String::from_utf8_lossy(x).to_string())), out) }
                        else if ni != no { ("violated", format!("numeric literals denote {:?} in the input and {:?} in the output", ni, no), out) }
                        else { ("ok", String::new(), out) }
                    }
                    ("whitespace", Ok(_)) => {
                        // C10 on text without string literals: line endings and leading whitespace obey the configuration
                        let crlf = matches!(cfg.line_endings, LineEndings::Windows);
                        let bytes = out.as_bytes();
                        let mut bad: Option<String> = None;
                        for (k, c) in bytes.iter().enumerate() {
                            if *c == b'\n' && crlf && (k == 0 || bytes[k - 1] != b'\r') { bad = Some(format!("bare line feed at byte {k}")); break; }
                            if *c == b'\r' && (!crlf || k + 1 >= bytes.len() || bytes[k + 1] != b'\n') { bad = Some(format!("stray carriage return at byte {k}")); break; }
                        }
                        if bad.is_none() {
                            for (n, line) in out.split('\n').enumerate() {
                                let line = line.trim_end_matches('\r');
                                let ws: String = line.chars().take_while(|c| *c == ' ' || *c == '\t').collect();
                                if line.trim().is_empty() { if !line.is_empty() { bad = Some(format!("line {} holds only whitespace", n + 1)); break; } continue; }
                                let ok = match cfg.indent_type { IndentType::Tabs => ws.chars().all(|c| c == '\t'), IndentType::Spaces => ws.chars().all(|c| c == ' ') && ws.len() % cfg.indent_width.max(1) == 0 };
                                if !ok { bad = Some(format!("line {} is indented with {:?}", n + 1, ws)); break; }
                            }
                        }
                        if bad.is_none() && !out.is_empty() && (!out.ends_with('\n') || out.ends_with("\n\n") || out.ends_with("\n\r\n")) { bad = Some("output does not end with exactly one line ending".into()); }
                        match bad { Some(b) => ("violated", b, out), None => ("ok", String::new(), out) }
                    }
                    ("contains", Ok(_)) => {
                        let needle = contains.clone().unwrap();
                        if out.contains(&needle) { ("ok", String::new(), out) } else { ("violated", format!("output does not contain the verbatim text {:?}", needle), out) }
                    }
                    ("selfverify", Ok(_)) => match format_code(&src, cfg, range, OutputVerification::Full) {
                        Ok(_) => ("ok", String::new(), out),
                        Err(e) => ("violated", e.to_string(), out),
                    },
                    (o, _) => panic!("unknown oracle {o}"),
                }
            }
        };
        if verdict == "violated" { violated = true; }
        if verdict != "ok" || out_json.is_empty() {
            out_json.push(json!({"column_width": w, "verdict": verdict, "detail": detail, "output": output}));
        }
        if violated { break; }
    }
    println!("{}", json!({"oracle": oracle, "input": src, "violated": violated, "runs": out_json}));
    std::process::exit(if violated { 1 } else { 0 });
}
