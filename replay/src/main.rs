//! vxreplay: runs witness programs against the REAL stylua_lib built from /repo's working tree and
//! evaluates a property-level oracle on input vs. output. Used only to replay failed obligations.
use full_moon::ast::{Ast, Expression};
use full_moon::tokenizer::{Token, TokenReference, TokenType};
use full_moon::visitors::{Visitor, VisitorMut};
use full_moon::ast::span::ContainedSpan;
use serde_json::json;
use stylua_lib::*;

fn syntax_of(s: &str) -> LuaVersion {
    match s {
        "lua51" => LuaVersion::Lua51,
        "lua52" => LuaVersion::Lua52,
        "lua53" => LuaVersion::Lua53,
        "lua54" => LuaVersion::Lua54,
        "luau" => LuaVersion::Luau,
        "luajit" => LuaVersion::LuaJIT,
        _ => LuaVersion::All,
    }
}

fn apply_opt(cfg: &mut Config, k: &str, v: &str) {
    match k {
        "syntax" => cfg.syntax = syntax_of(v),
        "column_width" => cfg.column_width = v.parse().unwrap(),
        "indent_width" => cfg.indent_width = v.parse().unwrap(),
        "indent_type" => cfg.indent_type = if v == "Spaces" { IndentType::Spaces } else { IndentType::Tabs },
        "line_endings" => cfg.line_endings = if v == "Windows" { LineEndings::Windows } else { LineEndings::Unix },
        "quote_style" => cfg.quote_style = match v { "AutoPreferSingle" => QuoteStyle::AutoPreferSingle, "ForceDouble" => QuoteStyle::ForceDouble, "ForceSingle" => QuoteStyle::ForceSingle, _ => QuoteStyle::AutoPreferDouble },
        "call_parentheses" => cfg.call_parentheses = match v { "NoSingleString" => CallParenType::NoSingleString, "NoSingleTable" => CallParenType::NoSingleTable, "None" => CallParenType::None, "Input" => CallParenType::Input, _ => CallParenType::Always },
        "collapse_simple_statement" => cfg.collapse_simple_statement = match v { "FunctionOnly" => CollapseSimpleStatement::FunctionOnly, "ConditionalOnly" => CollapseSimpleStatement::ConditionalOnly, "Always" => CollapseSimpleStatement::Always, _ => CollapseSimpleStatement::Never },
        "sort_requires" => cfg.sort_requires = SortRequiresConfig { enabled: v == "true" },
        "space_after_function_names" => cfg.space_after_function_names = match v { "Definitions" => SpaceAfterFunctionNames::Definitions, "Calls" => SpaceAfterFunctionNames::Calls, "Always" => SpaceAfterFunctionNames::Always, _ => SpaceAfterFunctionNames::Never },
        _ => panic!("unknown option {k}"),
    }
}

/// Fully parenthesise every operator application and drop the parentheses the property calls
/// redundant (all but those around a call or `...`): token streams of two ASTs are then equal
/// iff their operator trees are equal modulo redundant parentheses.
struct Normalise;
fn sym(s: &str) -> TokenReference { TokenReference::symbol(s).unwrap() }
impl VisitorMut for Normalise {
    fn visit_expression_end(&mut self, e: Expression) -> Expression {
        match e {
            Expression::Parentheses { contained, expression } => {
                let keep = match &*expression {
                    Expression::FunctionCall(_) => true,
                    Expression::Symbol(t) => matches!(t.token_type(), TokenType::Symbol { symbol: full_moon::tokenizer::Symbol::Ellipsis }),
                    _ => false,
                };
                if keep { Expression::Parentheses { contained, expression } } else { *expression }
            }
            e @ Expression::BinaryOperator { .. } | e @ Expression::UnaryOperator { .. } => Expression::Parentheses {
                contained: ContainedSpan::new(sym("("), sym(")")),
                expression: Box::new(e),
            },
            other => other,
        }
    }
}

#[derive(Default)]
struct Collect { toks: Vec<String>, comments: Vec<String> }
impl Visitor for Collect {
    fn visit_token(&mut self, t: &Token) {
        match t.token_type() {
            TokenType::Whitespace { .. } | TokenType::Eof => {}
            TokenType::SingleLineComment { comment } => self.comments.push(format!("--{}", comment.as_str().trim_end())),
            TokenType::MultiLineComment { blocks, comment } => self.comments.push(format!("--[{}[{}", blocks, comment.as_str().replace("\r\n", "\n"))),
            TokenType::Shebang { line } => self.comments.push(format!("#!{}", line.as_str().trim_end())),
            TokenType::StringLiteral { .. } => self.toks.push("<str>".into()),
            TokenType::Number { .. } => self.toks.push("<num>".into()),
            _ => self.toks.push(t.to_string()),
        }
    }
}

fn normal_form(ast: Ast) -> (Vec<String>, Vec<String>) {
    let ast = Normalise.visit_ast(ast);
    let mut c = Collect::default();
    c.visit_ast(&ast);
    // semicolons and table separators / trailing commas are allowed to differ
    let toks = c.toks.into_iter().filter(|t| t != ";").collect();
    (toks, c.comments)
}

fn main() {
    let args: Vec<String> = std::env::args().collect();
    // vxreplay <oracle> <file> [k=v]... [range=a:b] [contains=<file>]
    let oracle = &args[1];
    let src = std::fs::read_to_string(&args[2]).unwrap();
    let mut cfg = Config::default();
    let mut range = None;
    let mut contains: Option<String> = None;
    let mut widths: Vec<usize> = vec![];
    for kv in &args[3..] {
        let (k, v) = kv.split_once('=').unwrap();
        if k == "range" {
            let (a, b) = v.split_once(':').unwrap();
            range = Some(Range::from_values(a.parse().ok(), b.parse().ok()));
        } else if k == "contains" {
            contains = Some(std::fs::read_to_string(v).unwrap());
        } else if k == "sweep_widths" {
            let (a, b) = v.split_once(':').unwrap();
            widths = (a.parse::<usize>().unwrap()..=b.parse::<usize>().unwrap()).collect();
        } else {
            apply_opt(&mut cfg, k, v);
        }
    }
    if widths.is_empty() { widths.push(cfg.column_width); }
    let mut out_json = vec![];
    let mut violated = false;
    for w in widths {
        cfg.column_width = w;
        let res = std::panic::catch_unwind(|| format_code(&src, cfg, range, OutputVerification::None));
        let (verdict, detail, output) = match res {
            Err(_) => ("violated", "formatter panicked".to_string(), String::new()),
            Ok(Err(e)) => ("input-rejected", e.to_string(), String::new()),
            Ok(Ok(out)) => {
                let reparsed = full_moon::parse_fallible(&out, cfg.syntax.into()).into_result();
                match (oracle.as_str(), reparsed) {
                    (_, Err(errs)) => ("violated", format!("output does not parse: {}", errs.iter().map(|e| e.to_string()).collect::<Vec<_>>().join("; ")), out),
                    ("parse", Ok(_)) => ("ok", String::new(), out),
                    ("tree", Ok(o)) | ("comments", Ok(o)) => {
                        let i = full_moon::parse_fallible(&src, cfg.syntax.into()).into_result().unwrap();
                        let (ti, ci) = normal_form(i);
                        let (to, co) = normal_form(o);
                        if oracle == "tree" {
                            // call sugar / trailing separators: compare modulo `(` `)` `,` around single string/table args is out of
                            // scope for this oracle; witnesses avoid them
                            if ti == to { ("ok", String::new(), out) } else {
                                let k = ti.iter().zip(to.iter()).position(|(a, b)| a != b).unwrap_or(ti.len().min(to.len()));
                                ("violated", format!("operator tree differs at normalised token {}: input …{} / output …{}", k,
                                    ti[k.saturating_sub(4)..(k + 4).min(ti.len())].join(" "), to[k.saturating_sub(4)..(k + 4).min(to.len())].join(" ")), out)
                            }
                        } else {
                            let mut a = ci.clone(); a.sort(); let mut b = co.clone(); b.sort();
                            if a == b { ("ok", String::new(), out) } else { ("violated", format!("comment census differs: input {:?} / output {:?}", ci, co), out) }
                        }
                    }
                    ("permutation", Ok(o)) => {
                        // C12: top-level statements of the output are a permutation of the input's; statements that are not
                        // `local NAME = require(..)/game:GetService(..)` keep their relative order; comments all survive
                        let i = full_moon::parse_fallible(&src, cfg.syntax.into()).into_result().unwrap();
                        fn stmt_keys(ast: &Ast) -> Vec<(String, bool)> {
                            ast.nodes().stmts().map(|s| {
                                let mut c = Collect::default();
                                c.visit_stmt(s);
                                let k = c.toks.join(" ");
                                let is_req = k.starts_with("local ") && (k.contains("= require") || k.contains(": GetService") || k.contains(":GetService"));
                                (k, is_req)
                            }).collect()
                        }
                        let ki = stmt_keys(&i); let ko = stmt_keys(&o);
                        let mut a: Vec<_> = ki.iter().map(|x| x.0.clone()).collect(); a.sort();
                        let mut b: Vec<_> = ko.iter().map(|x| x.0.clone()).collect(); b.sort();
                        let fi: Vec<_> = ki.iter().filter(|x| !x.1).map(|x| x.0.clone()).collect();
                        let fo: Vec<_> = ko.iter().filter(|x| !x.1).map(|x| x.0.clone()).collect();
                        let (_, ci) = normal_form(i); let (_, co) = normal_form(o);
                        let mut ca = ci.clone(); ca.sort(); let mut cb = co.clone(); cb.sort();
                        if a != b { ("violated", format!("statements are not a permutation: input {:?} / output {:?}", ki, ko), out) }
                        else if fi != fo { ("violated", "non-require statements changed order".to_string(), out) }
                        else if ca != cb { ("violated", format!("comment census differs: input {:?} / output {:?}", ci, co), out) }
                        else if !cfg.sort_requires.enabled && ki != ko { ("violated", "statement order changed although sort_requires is off".to_string(), out) }
                        else { ("ok", String::new(), out) }
                    }
                    ("contains", Ok(_)) => {
                        let needle = contains.clone().unwrap();
                        if out.contains(&needle) { ("ok", String::new(), out) } else { ("violated", format!("output does not contain the verbatim text {:?}", needle), out) }
                    }
                    ("selfverify", Ok(_)) => match format_code(&src, cfg, range, OutputVerification::Full) {
                        Ok(_) => ("ok", String::new(), out),
                        Err(e) => ("violated", e.to_string(), out),
                    },
                    (o, _) => panic!("unknown oracle {o}"),
                }
            }
        };
        if verdict == "violated" { violated = true; }
        if verdict != "ok" || out_json.is_empty() {
            out_json.push(json!({"column_width": w, "verdict": verdict, "detail": detail, "output": output}));
        }
        if violated { break; }
    }
    println!("{}", json!({"oracle": oracle, "input": src, "violated": violated, "runs": out_json}));
    std::process::exit(if violated { 1 } else { 0 });
}
