//! vxreplay: runs witness programs against the REAL stylua_lib built from /repo's working tree and
//! evaluates a property-level oracle on input vs. output. Used only to replay failed obligations.
use full_moon::ast::{Ast, Expression};
use full_moon::tokenizer::{Token, TokenReference, TokenType};
use full_moon::visitors::{Visitor, VisitorMut};
use full_moon::ast::span::ContainedSpan;
use serde_json::json;
use stylua_lib::*;

fn syntax_of(s: &str) -> LuaVersion {
    match s {
        "lua51" => LuaVersion::Lua51,
        "lua52" => LuaVersion::Lua52,
        "lua53" => LuaVersion::Lua53,
        "lua54" => LuaVersion::Lua54,
        "luau" => LuaVersion::Luau,
        "luajit" => LuaVersion::LuaJIT,
        _ => LuaVersion::All,
    }
}

fn apply_opt(cfg: &mut Config, k: &str, v: &str) {
    match k {
        "syntax" => cfg.syntax = syntax_of(v),
        "column_width" => cfg.column_width = v.parse().unwrap(),
        "indent_width" => cfg.indent_width = v.parse().unwrap(),
        "indent_type" => cfg.indent_type = if v == "Spaces" { IndentType::Spaces } else { IndentType::Tabs },
        "line_endings" => cfg.line_endings = if v == "Windows" { LineEndings::Windows } else { LineEndings::Unix },
        "quote_style" => cfg.quote_style = match v { "AutoPreferSingle" => QuoteStyle::AutoPreferSingle, "ForceDouble" => QuoteStyle::ForceDouble, "ForceSingle" => QuoteStyle::ForceSingle, _ => QuoteStyle::AutoPreferDouble },
        "call_parentheses" => cfg.call_parentheses = match v { "NoSingleString" => CallParenType::NoSingleString, "NoSingleTable" => CallParenType::NoSingleTable, "None" => CallParenType::None, "Input" => CallParenType::Input, _ => CallParenType::Always },
        "collapse_simple_statement" => cfg.collapse_simple_statement = match v { "FunctionOnly" => CollapseSimpleStatement::FunctionOnly, "ConditionalOnly" => CollapseSimpleStatement::ConditionalOnly, "Always" => CollapseSimpleStatement::Always, _ => CollapseSimpleStatement::Never },
        "sort_requires" => cfg.sort_requires = SortRequiresConfig { enabled: v == "true" },
        "space_after_function_names" => cfg.space_after_function_names = match v { "Definitions" => SpaceAfterFunctionNames::Definitions, "Calls" => SpaceAfterFunctionNames::Calls, "Always" => SpaceAfterFunctionNames::Always, _ => SpaceAfterFunctionNames::Never },
        _ => panic!("unknown option {k}"),
    }
}

/// Fully parenthesise every operator application and drop the parentheses the property calls
/// redundant (all but those around a call or `...`): token streams of two ASTs are then equal
/// iff their operator trees are equal modulo redundant parentheses.
struct Normalise;
fn sym(s: &str) -> TokenReference { TokenReference::symbol(s).unwrap() }
fn strip_condition(e: Expression) -> Expression {
    match e {
        Expression::Parentheses { contained, expression } => match &*expression {
            Expression::FunctionCall(_) | Expression::Symbol(_) => *expression,
            _ => Expression::Parentheses { contained, expression },
        },
        other => other,
    }
}

impl VisitorMut for Normalise {
    fn visit_expression_end(&mut self, e: Expression) -> Expression {
        match e {
            Expression::Parentheses { contained, expression } => {
                let keep = match &*expression {
                    Expression::FunctionCall(_) => true,
                    Expression::Symbol(t) => matches!(t.token_type(), TokenType::Symbol { symbol: full_moon::tokenizer::Symbol::Ellipsis }),
                    _ => false,
                };
                if keep { Expression::Parentheses { contained, expression } } else { *expression }
            }
            e @ Expression::BinaryOperator { .. } | e @ Expression::UnaryOperator { .. } => Expression::Parentheses {
                contained: ContainedSpan::new(sym("("), sym(")")),
                expression: Box::new(e),
            },
            other => other,
        }
    }
    // a condition uses one value only: parentheses around a call / `...` (which cut a value list down to one value) mean nothing there,
    // and StyLua takes the top-level pair of a condition off
    fn visit_if_end(&mut self, n: full_moon::ast::If) -> full_moon::ast::If { let c = strip_condition(n.condition().clone()); n.with_condition(c) }
    fn visit_else_if_end(&mut self, n: full_moon::ast::ElseIf) -> full_moon::ast::ElseIf { let c = strip_condition(n.condition().clone()); n.with_condition(c) }
    fn visit_while_end(&mut self, n: full_moon::ast::While) -> full_moon::ast::While { let c = strip_condition(n.condition().clone()); n.with_condition(c) }
    fn visit_repeat_end(&mut self, n: full_moon::ast::Repeat) -> full_moon::ast::Repeat { let c = strip_condition(n.until().clone()); n.with_until(c) }
    // statement boundaries are part of the meaning (`a = b` / `(f)()` is not `a = b(f)()`): every statement gets a `;`, so that the token
    // stream shows where statements end whether or not the source had a semicolon
    fn visit_block_end(&mut self, b: full_moon::ast::Block) -> full_moon::ast::Block {
        let stmts: Vec<_> = b.stmts_with_semicolon().map(|(s, _)| (s.clone(), Some(sym(";")))).collect();
        let last = b.last_stmt_with_semicolon().map(|(l, _)| (l.clone(), Some(sym(";"))));
        b.with_stmts(stmts).with_last_stmt(last)
    }
    // separators of a table constructor (`,` / `;`, trailing or not) may change
    fn visit_table_constructor_end(&mut self, t: full_moon::ast::TableConstructor) -> full_moon::ast::TableConstructor {
        use full_moon::ast::punctuated::{Pair, Punctuated};
        let n = t.fields().len();
        let mut fields = Punctuated::new();
        for (i, pair) in t.fields().clone().into_pairs().enumerate() {
            let v = pair.into_value();
            fields.push(if i + 1 < n { Pair::new(v, Some(sym(","))) } else { Pair::new(v, None) });
        }
        t.with_fields(fields)
    }
    // separators of a Luau table type, likewise
    fn visit_type_info_end(&mut self, t: full_moon::ast::luau::TypeInfo) -> full_moon::ast::luau::TypeInfo {
        use full_moon::ast::punctuated::{Pair, Punctuated};
        match t {
            full_moon::ast::luau::TypeInfo::Table { braces, fields } => {
                let n = fields.len();
                let mut out = Punctuated::new();
                for (i, pair) in fields.into_pairs().enumerate() {
                    let v = pair.into_value();
                    out.push(if i + 1 < n { Pair::new(v, Some(sym(","))) } else { Pair::new(v, None) });
                }
                full_moon::ast::luau::TypeInfo::Table { braces, fields: out }
            }
            other => other,
        }
    }
    // `f"s"` / `f{t}` and `f("s")` / `f({t})` are the same call
    fn visit_function_args_end(&mut self, a: full_moon::ast::FunctionArgs) -> full_moon::ast::FunctionArgs {
        use full_moon::ast::punctuated::{Pair, Punctuated};
        use full_moon::ast::FunctionArgs;
        let one = |e: Expression| { let mut p = Punctuated::new(); p.push(Pair::new(e, None)); p };
        match a {
            FunctionArgs::String(s) => FunctionArgs::Parentheses { parentheses: ContainedSpan::new(sym("("), sym(")")), arguments: one(Expression::String(s)) },
            FunctionArgs::TableConstructor(t) => FunctionArgs::Parentheses { parentheses: ContainedSpan::new(sym("("), sym(")")), arguments: one(Expression::TableConstructor(t)) },
            other => other,
        }
    }
}

#[derive(Default)]
struct Collect { toks: Vec<String>, comments: Vec<String> }
impl Visitor for Collect {
    fn visit_token(&mut self, t: &Token) {
        match t.token_type() {
            TokenType::Whitespace { .. } | TokenType::Eof => {}
            TokenType::SingleLineComment { comment } => self.comments.push(format!("--{}", comment.as_str().trim_end())),
            TokenType::MultiLineComment { blocks, comment } => self.comments.push(format!("--[{}[{}", blocks, comment.as_str().replace("\r\n", "\n"))),
            TokenType::Shebang { line } => self.comments.push(format!("#!{}", line.as_str().trim_end())),
            TokenType::StringLiteral { .. } => self.toks.push("<str>".into()),
            TokenType::Number { .. } => self.toks.push("<num>".into()),
            _ => self.toks.push(t.to_string()),
        }
    }
}

fn classify(t: &Token, toks: &mut Vec<String>, comments: &mut Vec<String>) {
    match t.token_type() {
        TokenType::Whitespace { .. } | TokenType::Eof => {}
        TokenType::SingleLineComment { comment } => comments.push(format!("--{}", comment.as_str().trim_end())),
        TokenType::MultiLineComment { blocks, comment } => comments.push(format!("--[{}[{}", blocks, comment.as_str().replace("\r\n", "\n"))),
        TokenType::Shebang { line } => comments.push(format!("#!{}", line.as_str().trim_end())),
        TokenType::StringLiteral { .. } => toks.push("<str>".into()),
        TokenType::Number { .. } => toks.push("<num>".into()),
        _ => toks.push(t.to_string()),
    }
}
/// every token reference of the file in source order (Node::tokens reaches the tokens of contained spans with
/// their trivia, which the Visitor does not)
fn normal_form(ast: Ast) -> (Vec<String>, Vec<String>) {
    use full_moon::node::Node;
    // the comment census is taken on the AST as parsed (normalising drops parentheses together with their trivia)
    let (mut ignore, mut comments) = (vec![], vec![]);
    for tr in ast.nodes().tokens().chain(std::iter::once(ast.eof())) {
        for t in tr.leading_trivia() { classify(t, &mut ignore, &mut comments) }
        for t in tr.trailing_trivia() { classify(t, &mut ignore, &mut comments) }
    }
    // Node::tokens() walks the fields of a node in declaration order, which is not the source order for every node (a local
    // assignment lists its Luau type annotations and its attributes in front of its names): a second stream, sorted by position and
    // without `(` `)` `;` `,` (the tokens the allowed differences add or remove), shows WHICH name an annotation or attribute belongs to
    let mut by_pos: Vec<(usize, String)> = vec![];
    for tr in ast.nodes().tokens() {
        let (mut one, mut none) = (vec![], vec![]);
        classify(tr.token(), &mut one, &mut none);
        if let Some(t) = one.pop() { if !matches!(t.as_str(), "(" | ")" | ";" | ",") { by_pos.push((tr.token().start_position().bytes(), t)) } }
    }
    by_pos.sort_by_key(|x| x.0);
    let ast = Normalise.visit_ast(ast);
    let (mut toks, mut ignore2) = (vec![], vec![]);
    for tr in ast.nodes().tokens().chain(std::iter::once(ast.eof())) {
        classify(tr.token(), &mut toks, &mut ignore2);
    }
    toks.push("<in source order>".into());
    toks.extend(by_pos.into_iter().map(|x| x.1));
    // (semicolons: one behind every statement, see visit_block_end; table separators: normalised by visit_table_constructor_end)
    (toks, comments)
}

/// Decode a quoted Lua string body (all escapes of Lua 5.1-5.4 / Luau) to bytes.
fn decode_quoted(body: &str) -> Vec<u8> {
    let b = body.as_bytes();
    let mut out = Vec::new();
    let mut i = 0;
    while i < b.len() {
        if b[i] != b'\\' { out.push(b[i]); i += 1; continue; }
        i += 1;
        if i >= b.len() { break; }
        match b[i] {
            b'a' => { out.push(7); i += 1 } b'b' => { out.push(8); i += 1 } b'f' => { out.push(12); i += 1 }
            b'n' => { out.push(10); i += 1 } b'r' => { out.push(13); i += 1 } b't' => { out.push(9); i += 1 } b'v' => { out.push(11); i += 1 }
            b'\r' => { out.push(10); i += 1; if i < b.len() && b[i] == b'\n' { i += 1 } }
            b'\n' => { out.push(10); i += 1; if i < b.len() && b[i] == b'\r' { i += 1 } }
            b'z' => { i += 1; while i < b.len() && (b[i] as char).is_ascii_whitespace() { i += 1 } }
            b'x' => { let h = std::str::from_utf8(&b[i + 1..(i + 3).min(b.len())]).unwrap_or("0"); out.push(u8::from_str_radix(h, 16).unwrap_or(0)); i += 3 }
            b'u' => {
                let end = body[i..].find('}').map(|e| i + e).unwrap_or(b.len() - 1);
                let cp = u32::from_str_radix(&body[i + 2..end], 16).unwrap_or(0);
                let mut buf = [0u8; 4];
                match char::from_u32(cp) { Some(c) => out.extend_from_slice(c.encode_utf8(&mut buf).as_bytes()), None => out.extend_from_slice(&cp.to_be_bytes()) }
                i = end + 1
            }
            d if d.is_ascii_digit() => {
                let mut n = 0u32; let mut k = 0;
                while k < 3 && i < b.len() && b[i].is_ascii_digit() { n = n * 10 + (b[i] - b'0') as u32; i += 1; k += 1 }
                out.push(n as u8)
            }
            other => { out.push(other); i += 1 }
        }
    }
    out
}
fn string_values(ast: &Ast) -> Vec<Vec<u8>> {
    struct S(Vec<Vec<u8>>);
    impl Visitor for S {
        fn visit_token(&mut self, t: &Token) {
            if let TokenType::StringLiteral { literal, quote_type, .. } = t.token_type() {
                match quote_type {
                    full_moon::tokenizer::StringLiteralQuoteType::Brackets => {
                        // a first newline is skipped by Lua; newline convention inside long strings may change
                        let l = literal.as_str().replace("\r\n", "\n");
                        self.0.push(l.strip_prefix('\n').unwrap_or(&l).as_bytes().to_vec())
                    }
                    _ => self.0.push(decode_quoted(literal.as_str())),
                }
            }
        }
    }
    let mut s = S(vec![]); s.visit_ast(ast); s.0
}
fn number_value(text: &str) -> String {
    let t = text.replace('_', "").to_lowercase();
    let (neg, t) = match t.strip_prefix('-') { Some(r) => (true, r.to_string()), None => (false, t) };
    let v = if let Some(h) = t.strip_prefix("0x") {
        let (mant, exp) = match h.split_once('p') { Some((m, e)) => (m.to_string(), e.parse::<i32>().unwrap_or(0)), None => (h.to_string(), 0) };
        let (ip, fp) = match mant.split_once('.') { Some((a, b)) => (a.to_string(), b.to_string()), None => (mant, String::new()) };
        let mut v = 0f64;
        for c in ip.chars() { v = v * 16.0 + c.to_digit(16).unwrap_or(0) as f64 }
        let mut scale = 1.0 / 16.0;
        for c in fp.chars() { v += c.to_digit(16).unwrap_or(0) as f64 * scale; scale /= 16.0 }
        v * 2f64.powi(exp)
    } else if let Some(bn) = t.strip_prefix("0b") {
        bn.chars().fold(0f64, |a, c| a * 2.0 + if c == '1' { 1.0 } else { 0.0 })
    } else {
        let t2 = t.trim_end_matches("ull").trim_end_matches("ll").trim_end_matches('i');
        t2.parse::<f64>().unwrap_or(f64::NAN)
    };
    format!("{:e}", if neg { -v } else { v })
}
fn number_values(ast: &Ast) -> Vec<String> {
    struct S(Vec<String>);
    impl Visitor for S { fn visit_token(&mut self, t: &Token) { if let TokenType::Number { text } = t.token_type() { self.0.push(number_value(text.as_str())) } } }
    let mut s = S(vec![]); s.visit_ast(ast); s.0
}

/// C11, checked on the output alone: which calls are written without parentheses under the configured call_parentheses
/// (Always: none; None / NoSingleString / NoSingleTable: every call whose only argument is a string / table, unless an index or a method
/// call follows it or the parentheses carry comments; Input: not checked here).
fn call_paren_violations(ast: &Ast, cfg: &Config) -> Vec<String> {
    use full_moon::ast::{Call, FunctionArgs, FunctionCall, Suffix, Index};
    struct V { omit_string: bool, omit_table: bool, always: bool, bad: Vec<String> }
    fn has_comment(t: &TokenReference) -> bool {
        t.leading_trivia().chain(t.trailing_trivia()).any(|x| !matches!(x.token_type(), TokenType::Whitespace { .. }))
    }
    impl V {
        fn check(&mut self, suffixes: Vec<&Suffix>, text: String) {
            for (i, sfx) in suffixes.iter().enumerate() {
                let args = match sfx { Suffix::Call(Call::AnonymousCall(a)) => a, Suffix::Call(Call::MethodCall(m)) => m.args(), _ => continue };
                let followed = matches!(suffixes.get(i + 1), Some(Suffix::Index(_)) | Some(Suffix::Call(Call::MethodCall(_))));
                let _ = Index::Dot { dot: TokenReference::symbol(".").unwrap(), name: TokenReference::symbol(".").unwrap() };
                match args {
                    FunctionArgs::String(_) => if self.always || !self.omit_string || followed { self.bad.push(format!("string call without parentheses in `{}`", text)) },
                    FunctionArgs::TableConstructor(_) => if self.always || !self.omit_table || followed { self.bad.push(format!("table call without parentheses in `{}`", text)) },
                    FunctionArgs::Parentheses { parentheses, arguments } if arguments.len() == 1 && !followed => {
                        let (o, c) = parentheses.tokens();
                        if has_comment(o) || c.leading_trivia().any(|x| !matches!(x.token_type(), TokenType::Whitespace { .. })) { continue }
                        match arguments.iter().next().unwrap() {
                            Expression::String(_) if self.omit_string => self.bad.push(format!("string call keeps its parentheses in `{}`", text)),
                            Expression::TableConstructor(_) if self.omit_table => self.bad.push(format!("table call keeps its parentheses in `{}`", text)),
                            _ => {}
                        }
                    }
                    _ => {}
                }
            }
        }
    }
    impl Visitor for V {
        fn visit_function_call(&mut self, fc: &FunctionCall) {
            let t = fc.to_string(); let t = t.trim().chars().take(60).collect::<String>();
            self.check(fc.suffixes().collect(), t);
        }
        fn visit_var_expression(&mut self, ve: &full_moon::ast::VarExpression) {
            let t = ve.to_string(); let t = t.trim().chars().take(60).collect::<String>();
            self.check(ve.suffixes().collect(), t);
        }
    }
    let (os, ot, always) = match cfg.call_parentheses {
        CallParenType::Always => (false, false, true), CallParenType::NoSingleString => (true, false, false),
        CallParenType::NoSingleTable => (false, true, false), CallParenType::None => (true, true, false), CallParenType::Input => return vec![],
    };
    let mut v = V { omit_string: os, omit_table: ot, always, bad: vec![] };
    v.visit_ast(ast);
    v.bad
}

/// C10, checked on the output text, with the reparsed output telling which lines lie inside a block comment or a long string (their
/// content is not the formatter's): every line break is the configured one (inside those tokens too: they are converted), the file ends
/// with exactly one, no other line ends with whitespace or is blank but not empty, and the leading whitespace of every other line is
/// made of the configured indentation character only (spaces: a multiple of indent_width).
fn whitespace_violations(ast: &Ast, out: &str, cfg: &Config) -> Vec<String> {
    use full_moon::node::Node;
    let crlf = matches!(cfg.line_endings, LineEndings::Windows);
    let mut bad = vec![];
    // a quoted or interpolated string that runs over several lines (`\` + line break, `\z`) keeps its line breaks and its continuation
    // lines as they are, and full_moon's line numbers behind such a token are not reliable: such files are not judged here
    for tr in ast.nodes().tokens() {
        let bracket = matches!(tr.token().token_type(), TokenType::StringLiteral { quote_type, .. } if matches!(quote_type, full_moon::tokenizer::StringLiteralQuoteType::Brackets));
        if !bracket && tr.token().to_string().contains('\n') { return bad; }
    }
    let b = out.as_bytes();
    for (k, c) in b.iter().enumerate() {
        if *c == b'\n' && crlf && (k == 0 || b[k - 1] != b'\r') { bad.push(format!("bare line feed at byte {k}")); break; }
        if *c == b'\r' && (!crlf || k + 1 >= b.len() || b[k + 1] != b'\n') { bad.push(format!("stray carriage return at byte {k}")); break; }
    }
    if !out.is_empty() && (!out.ends_with('\n') || out.ends_with("\n\n") || out.ends_with("\n\r\n")) { bad.push("the output does not end with exactly one line break".into()); }
    // lines (1-based) that start or end inside a multi-line token
    let mut inside_start = std::collections::HashSet::new();   // the line starts inside the token: its leading whitespace is content
    let mut inside_end = std::collections::HashSet::new();     // the line ends inside the token: its trailing whitespace is content
    for tr in ast.nodes().tokens().chain(std::iter::once(ast.eof())) {
        for t in tr.leading_trivia().chain(std::iter::once(tr.token())).chain(tr.trailing_trivia()) {
            let multi = match t.token_type() { TokenType::MultiLineComment { .. } => true, TokenType::StringLiteral { quote_type, .. } => matches!(quote_type, full_moon::tokenizer::StringLiteralQuoteType::Brackets),
                                               TokenType::StringLiteral { .. } => false, _ => false };
            let (l0, l1) = (t.start_position().line(), t.end_position().line());
            if l1 > l0 && (multi || matches!(t.token_type(), TokenType::StringLiteral { .. })) {
                for l in l0..l1 { inside_end.insert(l); }
                for l in (l0 + 1)..=l1 { inside_start.insert(l); }
            }
        }
    }
    for (n, line) in out.split('\n').enumerate() {
        let ln = n + 1;
        let line = line.strip_suffix('\r').unwrap_or(line);
        if !inside_end.contains(&ln) && !inside_start.contains(&ln) && line.trim().is_empty() && !line.is_empty() { bad.push(format!("line {ln} holds only whitespace")); }
        else if !inside_end.contains(&ln) && line.ends_with(|c: char| c == ' ' || c == '\t') && !line.trim().is_empty() { bad.push(format!("line {ln} ends with whitespace")); }
        if !inside_start.contains(&ln) && !line.trim().is_empty() {
            let ws: String = line.chars().take_while(|c| *c == ' ' || *c == '\t').collect();
            let ok = match cfg.indent_type { IndentType::Tabs => ws.chars().all(|c| c == '\t'), IndentType::Spaces => ws.chars().all(|c| c == ' ') && ws.len() % cfg.indent_width.max(1) == 0 };
            if !ok { bad.push(format!("line {ln} is indented with {:?}", ws)); }
        }
        if bad.len() > 3 { break; }
    }
    bad
}

/// C12, checked on input and output: with sort_requires the top-level statements are a permutation; the statements that are not
/// requires keep their order and no require moves across one of them; requires bound to the same name keep their order
fn sort_violations(i: &Ast, o: &Ast) -> Vec<String> {
    fn keys(ast: &Ast) -> Vec<(String, Option<String>)> {
        ast.nodes().stmts().map(|s| {
            let mut c = Collect::default(); c.visit_stmt(s);
            let k = c.toks.join(" ");
            let is_req = k.starts_with("local ") && c.toks.get(2).map(|t| t == "=").unwrap_or(false) && (c.toks.get(3).map(|t| t == "require").unwrap_or(false) || k.contains(": GetService"));
            (k, if is_req { c.toks.get(1).cloned() } else { None })
        }).collect()
    }
    let (ki, ko) = (keys(i), keys(o));
    let mut bad = vec![];
    let mut a: Vec<_> = ki.iter().map(|x| &x.0).collect(); a.sort();
    let mut b: Vec<_> = ko.iter().map(|x| &x.0).collect(); b.sort();
    if a != b { bad.push("the top-level statements are not a permutation of the input's".to_string()); return bad; }
    let fixed = |v: &Vec<(String, Option<String>)>| v.iter().filter(|x| x.1.is_none()).map(|x| x.0.clone()).collect::<Vec<_>>();
    if fixed(&ki) != fixed(&ko) { bad.push("statements that are not requires changed their order".into()); }
    // the segment (number of non-require statements in front) of every require is unchanged
    let seg = |v: &Vec<(String, Option<String>)>| { let mut n = 0; let mut m = std::collections::BTreeMap::<String, Vec<usize>>::new(); for x in v { if x.1.is_none() { n += 1 } else { m.entry(x.0.clone()).or_default().push(n) } } m };
    if seg(&ki) != seg(&ko) { bad.push("a require moved across a statement that is not a require".into()); }
    let by_name = |v: &Vec<(String, Option<String>)>| { let mut m = std::collections::BTreeMap::<String, Vec<String>>::new(); for x in v { if let Some(n) = &x.1 { m.entry(n.clone()).or_default().push(x.0.clone()) } } m };
    if by_name(&ki) != by_name(&ko) { bad.push("requires bound to the same name changed their order".into()); }
    // in the output, two requires of the same kind that follow each other without a blank line or a comment line in between belong to
    // one group: their names are in order
    {
        use full_moon::node::Node;
        let stmts: Vec<_> = o.nodes().stmts().collect();
        let kind = |k: &str| if k.contains("= require") { 1 } else { 2 };
        for w in 0..stmts.len().saturating_sub(1) {
            let (a, b) = (&ko[w], &ko[w + 1]);
            if let (Some(na), Some(nb)) = (&a.1, &b.1) {
                if kind(&a.0) != kind(&b.0) { continue }
                let lead = stmts[w + 1].surrounding_trivia().0;
                let newlines: usize = lead.iter().map(|t| match t.token_type() { TokenType::Whitespace { characters } => characters.as_str().matches('\n').count(), _ => 0 }).sum();
                let comment = lead.iter().any(|t| !matches!(t.token_type(), TokenType::Whitespace { .. }));
                if newlines == 0 && !comment && na > nb { bad.push(format!("requires `{}` and `{}` stand in one group in the wrong order", na, nb)); }
            }
        }
    }
    bad
}

/// corpus mode: every file of a list under one configuration and a few column widths; all oracles that apply to any input
/// (the formatter does not panic, the output parses, same operator tree, same comments, same literal values)
fn corpus(args: &[String]) {
    let list = std::fs::read_to_string(&args[2]).unwrap();
    let mut cfg = Config::default();
    let mut widths: Vec<usize> = vec![];
    for kv in &args[3..] {
        let (k, v) = kv.split_once('=').unwrap();
        if k == "widths" { widths = v.split(',').map(|x| x.parse().unwrap()).collect(); } else if k != "syntax" { apply_opt(&mut cfg, k, v); }
    }
    if widths.is_empty() { widths.push(cfg.column_width); }
    let mut failures = vec![];
    let (mut files, mut runs) = (0, 0);
    std::panic::set_hook(Box::new(|_| {}));
    for line in list.lines() {
        let Some((path, syntax)) = line.split_once('\t') else { continue };
        let Ok(src) = std::fs::read_to_string(path) else { continue };
        cfg.syntax = syntax_of(syntax);
        let Ok(i) = full_moon::parse_fallible(&src, cfg.syntax.into()).into_result() else { continue };
        files += 1;
        let (ti, ci) = normal_form(i.clone());
        let (si, ni) = (string_values(&i), number_values(&i));
        for w in &widths {
            cfg.column_width = *w;
            runs += 1;
            let mut fail = |kind: &str, detail: String| failures.push(json!({"file": path, "column_width": w, "kind": kind, "detail": detail}));
            let res = std::panic::catch_unwind(|| format_code(&src, cfg, None, OutputVerification::None));
            let out = match res { Err(_) => { fail("panic", "formatter panicked".into()); continue } Ok(Err(e)) => { fail("error", e.to_string()); continue } Ok(Ok(o)) => o };
            let o = match full_moon::parse_fallible(&out, cfg.syntax.into()).into_result() {
                Err(errs) => { fail("parse", errs.iter().map(|e| e.to_string()).collect::<Vec<_>>().join("; ")); continue }
                Ok(o) => o,
            };
            let (so, no) = (string_values(&o), number_values(&o));
            let o2 = o.clone();
            let (to, co) = normal_form(o);
            // Luau type syntax: redundant parentheses around types and separators of type tables may change, and this normal form
            // does not parenthesise type operators: for Luau files the streams are compared without `(` `)` `,` (corpus mode only)
            let loose = |v: &Vec<String>| -> Vec<String> { v.iter().filter(|t| !matches!(t.as_str(), "(" | ")" | ",")).cloned().collect() };
            let same = if syntax == "luau" { loose(&ti) == loose(&to) } else { ti == to };
            if !cfg.sort_requires.enabled && !same {
                let k = ti.iter().zip(to.iter()).position(|(a, b)| a != b).unwrap_or(ti.len().min(to.len()));
                fail("tree", format!("token {}: input …{} / output …{}", k, ti[k.saturating_sub(4)..(k + 4).min(ti.len())].join(" "), to[k.saturating_sub(4)..(k + 4).min(to.len())].join(" ")));
            }
            let mut a = ci.clone(); a.sort(); let mut b = co.clone(); b.sort();
            if a != b {
                let lost: Vec<_> = a.iter().filter(|x| !b.contains(x)).take(3).collect();
                let made: Vec<_> = b.iter().filter(|x| !a.contains(x)).take(3).collect();
                fail("comments", format!("only in input {:?} / only in output {:?} ({} vs {} comments)", lost, made, a.len(), b.len()));
            }
            if !cfg.sort_requires.enabled && (si != so || ni != no) { fail("literals", "literal values differ".into()); }
            if !src.contains("stylua:") { for b in call_paren_violations(&o2, &cfg).into_iter().take(3) { fail("callparens", b); } }   // ignored statements keep their form
            if cfg.sort_requires.enabled { for b in sort_violations(&i, &o2) { fail("sort", b); } }
            if !src.contains("stylua:") { for b in whitespace_violations(&o2, &out, &cfg).into_iter().take(2) { fail("whitespace", b); } }   // ignored statements keep their whitespace
        }
    }
    println!("{}", json!({"files": files, "runs": runs, "failures": failures}));
    std::process::exit(if failures.is_empty() { 0 } else { 1 });
}

/// range mode: every file of a list, once per top-level statement, with the formatting range set to exactly the bytes of that
/// statement (first token to last token). C09: every byte in front of the range and behind it is reproduced.
fn corpus_range(args: &[String]) {
    use full_moon::node::Node;
    let list = std::fs::read_to_string(&args[2]).unwrap();
    let mut cfg = Config::default();
    let mut max_nested = 6000usize;   // nested statements are used as ranges only in files up to this size (the top-level ones always)
    for kv in &args[3..] { let (k, v) = kv.split_once('=').unwrap(); if k == "max_nested" { max_nested = v.parse().unwrap(); } else if k != "syntax" { apply_opt(&mut cfg, k, v); } }
    let mut failures = vec![];
    let (mut files, mut runs) = (0, 0);
    std::panic::set_hook(Box::new(|_| {}));
    for line in list.lines() {
        let Some((path, syntax)) = line.split_once('\t') else { continue };
        let Ok(src) = std::fs::read_to_string(path) else { continue };
        if src.contains('\r') { continue }   // byte positions of full_moon count characters; keep to LF files
        if !src.is_ascii() { continue }
        cfg.syntax = syntax_of(syntax);
        let Ok(ast) = full_moon::parse_fallible(&src, cfg.syntax.into()).into_result() else { continue };
        files += 1;
        let (ti_range, ci_range) = normal_form(ast.clone());
        // (start, end, the leading trivia of the statement's first token hold a comment)
        let mut spans: Vec<(usize, usize, bool)> = vec![];
        let has_comment = |t: Vec<&Token>| t.iter().any(|x| !matches!(x.token_type(), TokenType::Whitespace { .. }));
        // every statement of the file, nested ones included
        struct Spans(Vec<(usize, usize, bool)>, std::collections::HashSet<usize>);
        impl Visitor for Spans {
            fn visit_block(&mut self, b: &full_moon::ast::Block) {
                use full_moon::node::Node;
                // the first statement of a block: blank lines in front of it are dropped, not capped at one
                let first = match b.stmts().next() { Some(s) => s.start_position(), None => b.last_stmt().and_then(|l| l.start_position()) };
                if let Some(p) = first { self.1.insert(p.bytes()); }
            }
            fn visit_stmt(&mut self, st: &full_moon::ast::Stmt) {
                use full_moon::node::Node;
                if let (Some(a), Some(b)) = (st.start_position(), st.end_position()) {
                    self.0.push((a.bytes(), b.bytes(), st.surrounding_trivia().0.iter().any(|x| !matches!(x.token_type(), TokenType::Whitespace { .. }))));
                }
            }
            fn visit_last_stmt(&mut self, st: &full_moon::ast::LastStmt) {
                use full_moon::node::Node;
                if let (Some(a), Some(b)) = (st.start_position(), st.end_position()) {
                    self.0.push((a.bytes(), b.bytes(), st.surrounding_trivia().0.iter().any(|x| !matches!(x.token_type(), TokenType::Whitespace { .. }))));
                }
            }
        }
        let mut sp = Spans(vec![], Default::default()); sp.visit_ast(&ast);
        let firsts = sp.1;
        let top: std::collections::HashSet<usize> = ast.nodes().stmts().filter_map(|s| s.start_position()).map(|p| p.bytes())
            .chain(ast.nodes().last_stmt().and_then(|l| l.start_position()).map(|p| p.bytes())).collect();
        spans = sp.0.into_iter().filter(|x| src.len() <= max_nested || top.contains(&x.0)).collect();
        let _ = &has_comment;
        for (a, b, lead_comment) in spans {
            if lead_comment { continue }   // comments directly above the statement are its own leading trivia: they are reformatted with it
            if a >= b || b > src.len() { continue }
            // full_moon's end_position is not the last byte of every statement kind: only spans that are a statement by themselves are used
            if full_moon::parse_fallible(&src[a..b], cfg.syntax.into()).into_result().is_err() { continue }
            runs += 1;
            let range = Some(Range::from_values(Some(a), Some(b)));
            let res = std::panic::catch_unwind(|| format_code(&src, cfg, range, OutputVerification::None));
            let out = match res { Err(_) => { failures.push(json!({"file": path, "range": [a, b], "kind": "panic", "detail": "formatter panicked"})); continue }
                                  Ok(Err(e)) => { failures.push(json!({"file": path, "range": [a, b], "kind": "error", "detail": e.to_string()})); continue } Ok(Ok(o)) => o };
            // whatever the range: the output parses, means the same and has the same comments (C01 / C02 / C03 under range formatting)
            match full_moon::parse_fallible(&out, cfg.syntax.into()).into_result() {
                Err(errs) => { failures.push(json!({"file": path, "range": [a, b], "kind": "parse", "detail": errs.iter().map(|e| e.to_string()).collect::<Vec<_>>().join("; ")})); continue }
                Ok(o) => {
                    let (to, co) = normal_form(o);
                    let loose = |v: &Vec<String>| -> Vec<String> { v.iter().filter(|t| !matches!(t.as_str(), "(" | ")" | ",")).cloned().collect() };
                    let same = if syntax == "luau" { loose(&ti_range) == loose(&to) } else { ti_range == to };
                    if !cfg.sort_requires.enabled && !same {
                        let k = ti_range.iter().zip(to.iter()).position(|(x, y)| x != y).unwrap_or(ti_range.len().min(to.len()));
                        failures.push(json!({"file": path, "range": [a, b], "kind": "tree", "detail": format!("token {}: input …{} / output …{}", k, ti_range[k.saturating_sub(4)..(k + 4).min(ti_range.len())].join(" "), to[k.saturating_sub(4)..(k + 4).min(to.len())].join(" "))}));
                        continue
                    }
                    let mut x = ci_range.clone(); x.sort(); let mut y = co.clone(); y.sort();
                    if x != y {
                        failures.push(json!({"file": path, "range": [a, b], "kind": "comments", "detail": format!("{} comments in the input, {} in the output", x.len(), y.len())}));
                        continue
                    }
                }
            }
            // the leading trivia of the statement (blank lines, indentation in front of it) and the rest of its last line (trailing
            // trivia) belong to the statement and may be reformatted: blank lines in front of it are kept (capped at one)
            let (pre, post) = (&src[..a], &src[b..]);
            // pre_core: up to the end of the last line in front of the statement that is not blank (its own trailing spaces included)
            let mut cut = pre.len();
            loop {
                let line_start = pre[..cut].rfind('\n').map(|i| i + 1).unwrap_or(0);
                if pre[line_start..cut].trim().is_empty() && line_start > 0 { cut = line_start - 1; } else { if pre[line_start..cut].trim().is_empty() { cut = 0; } break; }
            }
            let pre_core = &pre[..cut];
            let gap_newlines = pre[cut..].matches('\n').count();
            let post_rest = match post.find('\n') { Some(i) => &post[i + 1..], None => "" };
            if !out.starts_with(pre_core) {
                let k = out.bytes().zip(pre_core.bytes()).position(|(x, y)| x != y).unwrap_or(out.len().min(pre_core.len()));
                failures.push(json!({"file": path, "range": [a, b], "kind": "before", "detail": format!("byte {} in front of the range changed: input {:?} / output {:?}", k, &pre_core[k.saturating_sub(20)..(k + 20).min(pre_core.len())], &out[k.saturating_sub(20).min(out.len())..(k + 20).min(out.len())])}));
            } else if !pre_core.is_empty() && {
                let tail = &out[pre_core.len()..];
                let got = tail.len() - tail.trim_start_matches('\n').len();
                got != gap_newlines.min(2) && !(firsts.contains(&a) && got == 1)
            } {
                failures.push(json!({"file": path, "range": [a, b], "kind": "blank-lines", "detail": format!("{} line break(s) in front of the statement in the input, output continues {:?}", gap_newlines, &out[pre_core.len()..(pre_core.len() + 12).min(out.len())])}));
            } else if !out.ends_with(post_rest) && !out.replace(';', "").ends_with(&post_rest.replace(';', "")) {   // the statement's own `;` may sit on a later line
                failures.push(json!({"file": path, "range": [a, b], "kind": "after", "detail": format!("text behind the range changed: input ends {:?} / output ends {:?}", &post_rest[post_rest.len().saturating_sub(40)..], &out[out.len().saturating_sub(40)..])}));
            }
        }
    }
    println!("{}", json!({"files": files, "runs": runs, "failures": failures}));
    std::process::exit(if failures.is_empty() { 0 } else { 1 });
}

/// ignore mode (C08): every file of a list, once per statement (top-level; nested ones in small files): `-- stylua: ignore` is put on
/// the line above the statement, and once per pair of neighbouring top-level statements: `-- stylua: ignore start` / `-- stylua: ignore end`
/// around them. The source text of the ignored statement(s) must appear verbatim in the output.
fn corpus_ignore(args: &[String]) {
    use full_moon::node::Node;
    let list = std::fs::read_to_string(&args[2]).unwrap();
    let mut cfg = Config::default();
    let (mut max_nested, mut max_file) = (6000usize, 20000usize);
    for kv in &args[3..] { let (k, v) = kv.split_once('=').unwrap(); if k == "max_nested" { max_nested = v.parse().unwrap(); } else if k == "max_file" { max_file = v.parse().unwrap(); } else if k != "syntax" { apply_opt(&mut cfg, k, v); } }
    let mut failures = vec![];
    let (mut files, mut runs) = (0, 0);
    std::panic::set_hook(Box::new(|_| {}));
    for line in list.lines() {
        let Some((path, syntax)) = line.split_once('\t') else { continue };
        let Ok(src) = std::fs::read_to_string(path) else { continue };
        if src.contains('\r') || !src.is_ascii() || src.len() > max_file { continue }
        if src.contains("stylua:") { continue }   // files with directives of their own: an inserted region would nest with them
        cfg.syntax = syntax_of(syntax);
        let Ok(ast) = full_moon::parse_fallible(&src, cfg.syntax.into()).into_result() else { continue };
        files += 1;
        struct Spans(Vec<(usize, usize)>);
        impl Visitor for Spans {
            fn visit_stmt(&mut self, st: &full_moon::ast::Stmt) {
                use full_moon::node::Node;
                if let (Some(a), Some(b)) = (st.start_position(), st.end_position()) { self.0.push((a.bytes(), b.bytes())); }
            }
        }
        let mut sp = Spans(vec![]); sp.visit_ast(&ast);
        let top: Vec<(usize, usize)> = ast.nodes().stmts().filter_map(|s| Some((s.start_position()?.bytes(), s.end_position()?.bytes()))).collect();
        let spans: Vec<(usize, usize)> = sp.0.into_iter().filter(|x| src.len() <= max_nested || top.contains(x)).collect();
        let line_start = |p: usize| src[..p].rfind('\n').map(|i| i + 1).unwrap_or(0);
        let mut cases: Vec<(String, String, String, Option<(usize, usize)>)> = vec![];   // (kind, modified source, text that must survive, formatting range)
        let all_spans = spans.clone();
        for (a, b) in spans {
            if a >= b || b > src.len() { continue }
            if full_moon::parse_fallible(&src[a..b], cfg.syntax.into()).into_result().is_err() { continue }
            let ls = line_start(a);
            if !src[ls..a].trim().is_empty() { continue }    // the statement does not start its line: a directive cannot be put above it alone
            let indent = &src[ls..a];
            let directive = format!("{}-- stylua: ignore\n", indent);
            cases.push((format!("ignore@{a}"), format!("{}{}{}", &src[..ls], directive, &src[ls..]), src[a..b].to_string(), None));
            // the directive counts wherever it stands among the comments above the statement: here another comment line follows it
            if top.contains(&(a, b)) {
                cases.push((format!("ignore+comment@{a}"), format!("{}{}{}-- luacheck: ignore 631\n{}", &src[..ls], directive, indent, &src[ls..]), src[a..b].to_string(), None));
            }
            // the directive wins over the range: with the range set to a statement nested in the ignored one, it still comes out verbatim
            if let Some((c, d)) = all_spans.iter().find(|(c, d)| a < *c && *d < b) {
                cases.push((format!("ignore@{a}+range@{c}"), format!("{}{}{}", &src[..ls], directive, &src[ls..]), src[a..b].to_string(), Some((c + directive.len(), d + directive.len()))));
            }
        }
        for wnd in top.windows(2) {
            let ((a, _), (_, b2)) = (wnd[0], wnd[1]);
            let ls = line_start(a);
            if !src[ls..a].trim().is_empty() { continue }
            let le = src[b2..].find('\n').map(|i| b2 + i + 1).unwrap_or(src.len());
            if full_moon::parse_fallible(&src[a..b2], cfg.syntax.into()).into_result().is_err() { continue }
            let tail_nl = if le == src.len() && !src.ends_with('\n') { "\n" } else { "" };
            cases.push((format!("region@{a}"), format!("{}-- stylua: ignore start\n{}{}-- stylua: ignore end\n{}", &src[..ls], &src[ls..le], tail_nl, &src[le..]), src[a..b2].to_string(), None));
        }
        for (kind, text, keep, rng) in cases {
            if full_moon::parse_fallible(&text, cfg.syntax.into()).into_result().is_err() { continue }
            runs += 1;
            let range = rng.map(|(c, d)| Range::from_values(Some(c), Some(d)));
            let res = std::panic::catch_unwind(|| format_code(&text, cfg, range, OutputVerification::None));
            let out = match res { Err(_) => { failures.push(json!({"file": path, "case": kind, "kind": "panic", "detail": "formatter panicked"})); continue }
                                  Ok(Err(e)) => { failures.push(json!({"file": path, "case": kind, "kind": "error", "detail": e.to_string()})); continue } Ok(Ok(o)) => o };
            if !out.contains(&keep) {
                failures.push(json!({"file": path, "case": kind, "kind": "ignored-changed", "detail": format!("the ignored text {:?} is not in the output", &keep[..keep.len().min(120)])}));
            }
        }
    }
    println!("{}", json!({"files": files, "runs": runs, "failures": failures}));
    std::process::exit(if failures.is_empty() { 0 } else { 1 });
}

fn main() {
    let args: Vec<String> = std::env::args().collect();
    if args[1] == "corpus-ignore" { return corpus_ignore(&args); }
    if args[1] == "corpus" { return corpus(&args); }
    if args[1] == "corpus-range" { return corpus_range(&args); }
    // vxreplay <oracle> <file> [k=v]... [range=a:b] [contains=<file>]
    let oracle = &args[1];
    let src = std::fs::read_to_string(&args[2]).unwrap();
    let mut cfg = Config::default();
    let mut range = None;
    let mut contains: Option<String> = None;
    let mut widths: Vec<usize> = vec![];
    for kv in &args[3..] {
        let (k, v) = kv.split_once('=').unwrap();
        if k == "range" {
            let (a, b) = v.split_once(':').unwrap();
            range = Some(Range::from_values(a.parse().ok(), b.parse().ok()));
        } else if k == "contains" {
            contains = Some(std::fs::read_to_string(v).unwrap());
        } else if k == "sweep_widths" {
            let (a, b) = v.split_once(':').unwrap();
            widths = (a.parse::<usize>().unwrap()..=b.parse::<usize>().unwrap()).collect();
        } else {
            apply_opt(&mut cfg, k, v);
        }
    }
    if widths.is_empty() { widths.push(cfg.column_width); }
    let mut out_json = vec![];
    let mut violated = false;
    for w in widths {
        cfg.column_width = w;
        let res = std::panic::catch_unwind(|| format_code(&src, cfg, range, OutputVerification::None));
        let (verdict, detail, output) = match res {
            Err(_) => ("violated", "formatter panicked".to_string(), String::new()),
            Ok(Err(e)) => ("input-rejected", e.to_string(), String::new()),
            Ok(Ok(out)) => {
                let reparsed = full_moon::parse_fallible(&out, cfg.syntax.into()).into_result();
                match (oracle.as_str(), reparsed) {
                    (_, Err(errs)) => ("violated", format!("output does not parse: {}", errs.iter().map(|e| e.to_string()).collect::<Vec<_>>().join("; ")), out),
                    ("parse", Ok(_)) => ("ok", String::new(), out),
                    ("tree", Ok(o)) | ("comments", Ok(o)) => {
                        let i = full_moon::parse_fallible(&src, cfg.syntax.into()).into_result().unwrap();
                        let (ti, ci) = normal_form(i);
                        let (to, co) = normal_form(o);
                        if oracle == "tree" {
                            // call sugar / trailing separators: compare modulo `(` `)` `,` around single string/table args is out of
                            // scope for this oracle; witnesses avoid them
                            if ti == to { ("ok", String::new(), out) } else {
                                let k = ti.iter().zip(to.iter()).position(|(a, b)| a != b).unwrap_or(ti.len().min(to.len()));
                                ("violated", format!("operator tree differs at normalised token {}: input …{} / output …{}", k,
                                    ti[k.saturating_sub(4)..(k + 4).min(ti.len())].join(" "), to[k.saturating_sub(4)..(k + 4).min(to.len())].join(" ")), out)
                            }
                        } else {
                            let mut a = ci.clone(); a.sort(); let mut b = co.clone(); b.sort();
                            if a == b { ("ok", String::new(), out) } else { ("violated", format!("comment census differs: input {:?} / output {:?}", ci, co), out) }
                        }
                    }
                    ("permutation", Ok(o)) => {
                        // C12: top-level statements of the output are a permutation of the input's; statements that are not
                        // `local NAME = require(..)/game:GetService(..)` keep their relative order; comments all survive
                        let i = full_moon::parse_fallible(&src, cfg.syntax.into()).into_result().unwrap();
                        fn stmt_keys(ast: &Ast) -> Vec<(String, bool)> {
                            ast.nodes().stmts().map(|s| {
                                let mut c = Collect::default();
                                c.visit_stmt(s);
                                let k = c.toks.join(" ");
                                let is_req = k.starts_with("local ") && (k.contains("= require") || k.contains(": GetService") || k.contains(":GetService"));
                                (k, is_req)
                            }).collect()
                        }
                        let ki = stmt_keys(&i); let ko = stmt_keys(&o);
                        let mut a: Vec<_> = ki.iter().map(|x| x.0.clone()).collect(); a.sort();
                        let mut b: Vec<_> = ko.iter().map(|x| x.0.clone()).collect(); b.sort();
                        let fi: Vec<_> = ki.iter().filter(|x| !x.1).map(|x| x.0.clone()).collect();
                        let fo: Vec<_> = ko.iter().filter(|x| !x.1).map(|x| x.0.clone()).collect();
                        let (_, ci) = normal_form(i); let (_, co) = normal_form(o);
                        let mut ca = ci.clone(); ca.sort(); let mut cb = co.clone(); cb.sort();
                        if a != b { ("violated", format!("statements are not a permutation: input {:?} / output {:?}", ki, ko), out) }
                        else if fi != fo { ("violated", "non-require statements changed order".to_string(), out) }
                        else if ca != cb { ("violated", format!("comment census differs: input {:?} / output {:?}", ci, co), out) }
                        else if !cfg.sort_requires.enabled && ki != ko { ("violated", "statement order changed although sort_requires is off".to_string(), out) }
                        else { ("ok", String::new(), out) }
                    }
                    ("literals", Ok(o)) => {
                        let i = full_moon::parse_fallible(&src, cfg.syntax.into()).into_result().unwrap();
                        let (si, so) = (string_values(&i), string_values(&o));
                        let (ni, no) = (number_values(&i), number_values(&o));
                        if si != so { let k = si.iter().zip(so.iter()).position(|(a, b)| a != b).unwrap_or(0);
                            ("violated", format!("string literal #{} denotes {:?} in the input and {:?} in the output", k, si.get(k).map(|x| String::from_utf8_lossy(x).to_string()), so.get(k).map(|x| String::from_utf8_lossy(x).to_string())), out) }
                        else if ni != no { ("violated", format!("numeric literals denote {:?} in the input and {:?} in the output", ni, no), out) }
                        else { ("ok", String::new(), out) }
                    }
                    ("whitespace", Ok(_)) => {
                        // C10 on text without string literals: line endings and leading whitespace obey the configuration
                        let crlf = matches!(cfg.line_endings, LineEndings::Windows);
                        let bytes = out.as_bytes();
                        let mut bad: Option<String> = None;
                        for (k, c) in bytes.iter().enumerate() {
                            if *c == b'\n' && crlf && (k == 0 || bytes[k - 1] != b'\r') { bad = Some(format!("bare line feed at byte {k}")); break; }
                            if *c == b'\r' && (!crlf || k + 1 >= bytes.len() || bytes[k + 1] != b'\n') { bad = Some(format!("stray carriage return at byte {k}")); break; }
                        }
                        if bad.is_none() {
                            for (n, line) in out.split('\n').enumerate() {
                                let line = line.trim_end_matches('\r');
                                let ws: String = line.chars().take_while(|c| *c == ' ' || *c == '\t').collect();
                                if line.trim().is_empty() { if !line.is_empty() { bad = Some(format!("line {} holds only whitespace", n + 1)); break; } continue; }
                                let ok = match cfg.indent_type { IndentType::Tabs => ws.chars().all(|c| c == '\t'), IndentType::Spaces => ws.chars().all(|c| c == ' ') && ws.len() % cfg.indent_width.max(1) == 0 };
                                if !ok { bad = Some(format!("line {} is indented with {:?}", n + 1, ws)); break; }
                            }
                        }
                        if bad.is_none() && !out.is_empty() && (!out.ends_with('\n') || out.ends_with("\n\n") || out.ends_with("\n\r\n")) { bad = Some("output does not end with exactly one line ending".into()); }
                        match bad { Some(b) => ("violated", b, out), None => ("ok", String::new(), out) }
                    }
                    ("contains", Ok(_)) => {
                        let needle = contains.clone().unwrap();
                        if out.contains(&needle) { ("ok", String::new(), out) } else { ("violated", format!("output does not contain the verbatim text {:?}", needle), out) }
                    }
                    ("selfverify", Ok(_)) => match format_code(&src, cfg, range, OutputVerification::Full) {
                        Ok(_) => ("ok", String::new(), out),
                        Err(e) => ("violated", e.to_string(), out),
                    },
                    (o, _) => panic!("unknown oracle {o}"),
                }
            }
        };
        if verdict == "violated" { violated = true; }
        if verdict != "ok" || out_json.is_empty() {
            out_json.push(json!({"column_width": w, "verdict": verdict, "detail": detail, "output": output}));
        }
        if violated { break; }
    }
    println!("{}", json!({"oracle": oracle, "input": src, "violated": violated, "runs": out_json}));
    std::process::exit(if violated { 1 } else { 0 });
}
