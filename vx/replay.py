"""Replay stage: a failed obligation is replayed against the real stylua_lib (replay/ crate, path
dependency on /repo) with the witness programs registered for its label."""
import json, os, subprocess, hashlib, tempfile, re
ROOT = os.path.dirname(os.path.dirname(os.path.abspath(__file__)))
TARGET = os.path.join(ROOT, ".build", "replay-target")
BIN = os.path.join(TARGET, "debug", "vxreplay")
last_found_input = False

def build():
    env = dict(os.environ, CARGO_NET_OFFLINE="true", CARGO_TARGET_DIR=TARGET)
    env.pop("RUSTUP_TOOLCHAIN", None)
    lock = os.path.join(ROOT, "replay", "Cargo.lock")
    p = subprocess.run(["cargo", "build", "--offline"], cwd=os.path.join(ROOT, "replay"), env=env, capture_output=True, text=True)
    return p.returncode == 0, p.stderr[-3000:]

def run_witness(w):
    """w: dict(src, oracle, opts{}, range, contains, sweep). returns (violated, result json)"""
    if w.get("kind") == "cli":
        import cli_witness
        ok, err = cli_witness.build()
        if not ok:
            return False, dict(error="stylua binary does not build: " + err[-500:])
        return cli_witness.run_witness(w)
    if w.get("kind") == "featbin":
        # the stylua binary built from /repo's working tree with one Cargo feature set of its own (e.g. `luau` without `lua53`): the formatter
        # has to return a result for a program of that dialect (C07: the oracle is "no panic, exit 0, some output")
        tgt = os.path.join(ROOT, ".build", "feat-" + re.sub(r"[^a-z0-9]+", "-", w["features"]) + "-target")
        env = dict(os.environ, CARGO_NET_OFFLINE="true", CARGO_TARGET_DIR=tgt); env.pop("RUSTUP_TOOLCHAIN", None)
        p = subprocess.run(["cargo", "build", "--offline", "--features", w["features"]], cwd=os.environ.get("VX_REPO", "/repo"), env=env, capture_output=True, text=True)
        if p.returncode != 0:
            return False, dict(error=f"stylua --features {w['features']} does not build: " + p.stderr[-500:])
        q = subprocess.run([os.path.join(tgt, "debug", "stylua")] + list(w.get("args") or []) + ["-"], input=w["src"], capture_output=True, text=True, timeout=120)
        bad = q.returncode != 0 or "panicked" in q.stderr or not q.stdout
        return bad, dict(violated=bad, detail=(f"stylua built with --features {w['features']}: exit {q.returncode}; " + q.stderr[:400]) if bad else "", output=q.stdout[:2000])
    if w.get("kind") == "ignorefile":
        fails, _ = run_corpus_ignore([w.get("opts") or {}], thorough=True, only=w["file"])
        hit = [f for f in fails if f["case"] == w["case"]]
        return bool(hit), dict(violated=bool(hit), detail=(hit[0]["detail"] if hit else ""), failures=hit)
    if w.get("kind") == "rangefile":
        fails, _ = run_corpus_range([w.get("opts") or {}], thorough=True, only=w["file"])
        hit = [f for f in fails if f["range"] == w["range"]]
        return bool(hit), dict(violated=bool(hit), detail=(hit[0]["detail"] if hit else ""), failures=hit)
    if w.get("kind") == "corpusfile":
        fails, _ = run_corpus([w.get("opts") or {}], [w["column_width"]], only=w["file"])
        hit = [f for f in fails if f["kind"] == w["fkind"]]
        return bool(hit), dict(violated=bool(hit), detail=(hit[0]["detail"] if hit else ""), failures=hit)
    with tempfile.TemporaryDirectory(prefix="vxw", dir=os.path.join(ROOT, ".build")) as d:
        f = os.path.join(d, "w.lua")
        open(f, "w").write(w["src"])
        args = [BIN, w.get("oracle", "tree"), f]
        for k, v in (w.get("opts") or {}).items():
            args.append(f"{k}={v}")
        if w.get("range"):
            args.append(f"range={w['range'][0]}:{w['range'][1]}")
        if w.get("contains") is not None:
            cf = os.path.join(d, "needle")
            open(cf, "w").write(w["contains"])
            args.append(f"contains={cf}")
        if w.get("sweep"):
            args.append(f"sweep_widths={w['sweep'][0]}:{w['sweep'][1]}")
        try:
            p = subprocess.run(args, capture_output=True, text=True, timeout=w.get("time_limit", 300))
        except subprocess.TimeoutExpired:
            if w.get("time_limit"):
                return True, dict(violated=True, runs=[dict(verdict="violated", detail=f"the formatter did not finish within {w['time_limit']} s on a {len(w['src'])}-byte input", output="")])
            raise
        try:
            j = json.loads(p.stdout)
        except Exception:
            j = dict(violated=False, error=(p.stderr or p.stdout)[-2000:])
        return bool(j.get("violated")), j

CORPUS_DIRS = {"inputs": "lua51", "inputs-full_moon": "lua51", "inputs-lua52": "lua52", "inputs-lua53": "lua53", "inputs-lua54": "lua54", "inputs-luau": "luau",
               "inputs-luau-full_moon": "luau", "inputs-ignore": "lua51", "inputs-collapse-single-statement": "lua51", "inputs-sort-requires": "lua51"}
_corpus_cache = {}
CORPUS_TIME_LIMIT = 240    # seconds per configuration; the sweep takes 3-4 s per configuration in the quick tier, 15 s in the thorough tier

def corpus_list(only=None):
    import glob
    repo = os.environ.get("VX_REPO", "/repo")
    lines = []
    for d, syn in CORPUS_DIRS.items():
        for f in sorted(glob.glob(os.path.join(repo, "tests", d, "*.lua"))):
            rel = os.path.relpath(f, repo)
            if only is None or rel == only:
                lines.append(f"{f}\t{syn}")
    return lines

def run_corpus(configs, widths, only=None):
    """the repository's own test inputs under several configurations and column widths, all general oracles.
    returns (failures, stats); a failure is dict(file (relative), column_width, kind, detail, opts)"""
    key = json.dumps([configs, widths, only], sort_keys=True)
    if key in _corpus_cache: return _corpus_cache[key]
    repo = os.environ.get("VX_REPO", "/repo")
    fails, stats = [], dict(files=0, runs=0, configs=len(configs), widths=widths)
    with tempfile.TemporaryDirectory(prefix="vxc", dir=os.path.join(ROOT, ".build")) as d:
        lst = os.path.join(d, "corpus.lst")
        open(lst, "w").write("\n".join(corpus_list(only)) + "\n")
        for opts in configs:
            args = [BIN, "corpus", lst, "widths=" + ",".join(str(w) for w in widths)] + [f"{k}={v}" for k, v in opts.items()]
            try:
                p = subprocess.run(args, capture_output=True, text=True, timeout=CORPUS_TIME_LIMIT)
            except subprocess.TimeoutExpired:
                # (a few seconds on the unchanged tree) reported as its own kind: decided by C07 only
                stats["runs"] += 0
                fails.append(dict(file="tests", column_width=widths[0], kind="timeout", opts=opts,
                                  detail=f"the formatter did not get through the repository's test inputs under {opts} within {CORPUS_TIME_LIMIT} s"))
                continue
            try:
                j = json.loads(p.stdout)
            except Exception:
                raise RuntimeError("corpus run produced no result: " + (p.stderr or p.stdout)[-500:])
            stats["files"] = j["files"]; stats["runs"] += j["runs"]
            for f in j["failures"]:
                f["file"] = os.path.relpath(f["file"], repo); f["opts"] = opts
                fails.append(f)
    _corpus_cache[key] = (fails, stats)
    return fails, stats

def run_corpus_range(configs, thorough=False, only=None):
    """C09 sweep: every statement of the repository's test inputs as the formatting range (replay `corpus-range` mode).
    returns (failures, stats); a failure is dict(file (relative), range, kind, detail, opts)"""
    key = "range:" + json.dumps([configs, thorough, only], sort_keys=True)
    if key in _corpus_cache: return _corpus_cache[key]
    repo = os.environ.get("VX_REPO", "/repo")
    fails, stats = [], dict(files=0, runs=0, configs=len(configs))
    with tempfile.TemporaryDirectory(prefix="vxr", dir=os.path.join(ROOT, ".build")) as d:
        lst = os.path.join(d, "corpus.lst")
        open(lst, "w").write("\n".join(corpus_list(only)) + "\n")
        for opts in configs:
            args = [BIN, "corpus-range", lst] + [f"{k}={v}" for k, v in opts.items()] + (["max_nested=100000000"] if thorough else [])
            try:
                p = subprocess.run(args, capture_output=True, text=True, timeout=CORPUS_TIME_LIMIT * (4 if thorough else 1))
            except subprocess.TimeoutExpired:
                fails.append(dict(file="tests", range=[0, 0], kind="timeout", opts=opts, detail=f"the range sweep under {opts} did not finish in time")); continue
            try:
                j = json.loads(p.stdout)
            except Exception:
                raise RuntimeError("range sweep produced no result: " + (p.stderr or p.stdout)[-500:])
            stats["files"] = j["files"]; stats["runs"] += j["runs"]
            for f in j["failures"]:
                f["file"] = os.path.relpath(f["file"], repo); f["opts"] = opts
                fails.append(f)
    _corpus_cache[key] = (fails, stats)
    return fails, stats

def run_corpus_ignore(configs, thorough=False, only=None):
    """C08 sweep (replay `corpus-ignore` mode): `-- stylua: ignore` above every statement / an ignore region around every pair of
    neighbouring top-level statements of the repository's test inputs; the ignored source text must appear verbatim in the output"""
    key = "ignore:" + json.dumps([configs, thorough, only], sort_keys=True)
    if key in _corpus_cache: return _corpus_cache[key]
    repo = os.environ.get("VX_REPO", "/repo")
    fails, stats = [], dict(files=0, runs=0, configs=len(configs))
    with tempfile.TemporaryDirectory(prefix="vxi", dir=os.path.join(ROOT, ".build")) as d:
        lst = os.path.join(d, "corpus.lst")
        open(lst, "w").write("\n".join(corpus_list(only)) + "\n")
        for ci, opts in enumerate(configs):
            full = thorough and ci == 0
            args = [BIN, "corpus-ignore", lst] + [f"{k}={v}" for k, v in opts.items()] + (["max_nested=100000000", "max_file=100000000"] if full else [])
            try:
                p = subprocess.run(args, capture_output=True, text=True, timeout=CORPUS_TIME_LIMIT * (6 if full else 1))
            except subprocess.TimeoutExpired:
                fails.append(dict(file="tests", case="-", kind="timeout", opts=opts, detail=f"the ignore sweep under {opts} did not finish in time")); continue
            try:
                j = json.loads(p.stdout)
            except Exception:
                raise RuntimeError("ignore sweep produced no result: " + (p.stderr or p.stdout)[-500:])
            stats["files"] = max(stats["files"], j["files"]); stats["runs"] += j["runs"]
            for f in j["failures"]:
                f["file"] = os.path.relpath(f["file"], repo); f["opts"] = opts
                fails.append(f)
    _corpus_cache[key] = (fails, stats)
    return fails, stats

def witnesses_for(label, registry):
    if label.endswith(".total"):
        fn = label[:-6].split("::")[-1]
        ws = registry.FN_WITNESSES.get(fn)
        if ws: return ws
    # every registered prefix of the label contributes, most specific first
    out, seen = [], set()
    for pref, ws in sorted(registry.WITNESSES.items(), key=lambda kv: -len(kv[0])):
        if label == pref or label.startswith(pref):
            for w in ws:
                k = json.dumps(w, sort_keys=True)
                if k not in seen:
                    seen.add(k); out.append(w)
    return out

def make_replay(prop, failure, registry):
    """returns path of the replay file; sets last_found_input"""
    global last_found_input
    last_found_input = False
    outdir = os.path.join(ROOT, "replays")
    os.makedirs(outdir, exist_ok=True)
    label = failure["label"]
    path = os.path.join(outdir, f"{prop}-{re.sub(r'[^A-Za-z0-9_.-]', '_', label)}.json")
    diag = failure["diag"]
    rec = dict(property=prop, obligation=label, statement=failure.get("text"), unit=failure["unit"], feature_set=failure["fs"],
               function=diag.get("fn"), file=diag.get("file"), verifier_message=diag.get("message"),
               verifier_output=diag.get("rendered"), source_line=diag.get("text"), found_input=False, witness_runs=[])
    if failure.get("scenario"):
        rec["found_input"] = True
        sc = failure["scenario"]
        rec["failing_input"] = dict(kind=sc.get("kind"), scenario=sc.get("scenario"), src=sc.get("src"), opts=sc.get("opts"), range=sc.get("range"), contains=sc.get("contains"), oracle=sc.get("oracle"), result=failure.get("scenario_result"),
                                    file=sc.get("file"), column_width=sc.get("column_width"), fkind=sc.get("fkind"))
        if sc.get("kind") == "rangefile": rec["failing_input"]["range"] = sc.get("range")
        if sc.get("kind") == "ignorefile": rec["failing_input"]["case"] = sc.get("case")
        last_found_input = True
        json.dump(rec, open(path, "w"), indent=1)
        return path
    if failure.get("kani"):
        rec["kani_counterexample"] = failure["kani"]
        rec["found_input"] = bool(failure["kani"].get("concrete"))
        last_found_input = rec["found_input"]
        json.dump(rec, open(path, "w"), indent=1)
        return path
    ws = witnesses_for(label, registry)
    if ws:
        ok, err = build()
        if not ok:
            rec["replay_build_error"] = err
        else:
            for w in ws:
                try:
                    v, j = run_witness(w)
                except Exception as e:
                    rec["witness_runs"].append(dict(witness=w, error=str(e))); continue
                rec["witness_runs"].append(dict(witness=w, violated=v, result=j if v else dict(runs=len(j.get("runs", [])))))
                if v:
                    rec["found_input"] = True
                    rec["failing_input"] = dict(src=w.get("src"), kind=w.get("kind"), scenario=w.get("scenario"), opts=w.get("opts"), range=w.get("range"), contains=w.get("contains"), oracle=w.get("oracle", "tree"), result=j)
                    last_found_input = True
                    break
    json.dump(rec, open(path, "w"), indent=1)
    return path

def rerun(path):
    rec = json.load(open(path))
    fi = rec.get("failing_input")
    if not fi:
        print(f"replay file names obligation {rec['obligation']} ({rec.get('verifier_message')}); no failing input was found. Verifier output:\n{rec.get('verifier_output')}")
        return 0
    ok, err = build()
    if not ok:
        print("cannot build replay crate:", err); return 2
    v, j = run_witness(dict(src=fi.get("src"), kind=fi.get("kind"), scenario=fi.get("scenario"), opts=fi.get("opts"), range=fi.get("range"), oracle=fi.get("oracle"), contains=fi.get("contains"),
                            file=fi.get("file"), column_width=fi.get("column_width"), fkind=fi.get("fkind"), case=fi.get("case")))
    print(json.dumps(j, indent=1)[:4000])
    print("REPRODUCED" if v else "not reproduced on the current tree")
    return 1 if v else 0

def witness_sweep(prop, units, registry):
    """run every witness registered for a label of `prop`; return a replay path for the first failing one"""
    labs = [lab for u in units for lab, d in u.labels.items() if prop in d["props"]]
    seen, todo = set(), []
    for pref, ws in registry.WITNESSES.items():
        if any(l == pref or l.startswith(pref) for l in labs):
            for w in ws:
                key = json.dumps(w, sort_keys=True)
                if key not in seen:
                    seen.add(key); todo.append((pref, w))
    if not todo:
        return None
    ok, err = build()
    if not ok:
        return None
    for pref, w in todo:
        try:
            v, j = run_witness(w)
        except Exception:
            continue
        if v:
            outdir = os.path.join(ROOT, "replays"); os.makedirs(outdir, exist_ok=True)
            path = os.path.join(outdir, f"{prop}-witness-{hashlib.sha256(json.dumps(w, sort_keys=True).encode()).hexdigest()[:10]}.json")
            json.dump(dict(property=prop, obligation=pref + " (verifier undecided on this tree; witness program failed on the real library)", found_input=True,
                           failing_input=dict(src=w.get("src"), kind=w.get("kind"), scenario=w.get("scenario"), opts=w.get("opts"), range=w.get("range"), oracle=w.get("oracle", "tree"), contains=w.get("contains"), result=j)),
                      open(path, "w"), indent=1)
            return path
    return None
