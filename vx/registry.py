"""Which contract units decide which property; what is not decided; witness programs for replay."""

A = "x" * 0
def long(c, n): return c * n

PROPS = {
    "C05": dict(units=["expr"],
        explanation="The parenthesis rule has three implementations (single-line, hanging operand chains, hanging expression). "
                    "Each real function carries the same contract: operator tree preserved modulo redundant parentheses (calls/`...` keep theirs), "
                    "output re-parse-stable (every operand fits its position by the Lua/Luau precedence table written from the manuals), no `--`, "
                    "no type assertion / if-expression freed under an operator. Proved by induction on the real full_moon Expression enum for all "
                    "operators, nestings, widths (Shape is uninterpreted: both layout branches always explored) and both feature sets.",
        not_decided=["multi-line argument lists / assignment / return layouts call hang_expression and format_expression, whose contracts are proved here; "
                     "that those callers pass the expression they were given is part of C02's statement-level units"],
        assumptions=["wf(skel(input)) is assumed of every parsed input (parser guarantee): operator tokens match their variant, operands fit",
                     "leaf formatters (calls, tables, functions, vars, if-expressions, interpolated strings, type assertions) keep their identity (class C stubs)"]),
    "C08": dict(units=["ctx", "block", "lib", "sort", "table"], bounded=[dict(kind="ignore", kinds=["ignored-changed", "panic", "error", "timeout"])],
        explanation="should_format_node (real text): inside an ignore region or under a `stylua: ignore` directive the decision is Skip. "
                    "format_stmt / format_last_stmt: Skip => the node is returned unchanged. format_block (real loop, inductive invariant over the "
                    "peekable iterator): for every statement whose decision (under the context folded from the ignore start/end toggles) is Skip, the "
                    "output pair (statement, semicolon token) is identical to the input pair; same for the last statement. "
                    "format_multiline_table (real loop): the context is folded the same way over the fields of a table.",
        not_decided=["the string matching that recognises the directive text inside a comment (comment.lines().map(trim) — str iterators): assumed as has_ignore()/toggled()",
                     "format_multiline_table's loop (it toggles the ignore state per field and calls format_field) is under contract (unit table: field i is formatted under the context folded from the toggles of the i-1 fields before it); that a Skip decision for a field returns the field unchanged is format_field's contract; should_expand (string search for comments) is assumed"],
        assumptions=["Block::stmts_with_semicolon / with_stmts / Peekable::next/peek behave as sequences (class A/B)"]),
    "C09": dict(units=["ctx", "block", "lib", "sort", "range"], bounded=[dict(kind="lib", witnesses="RANGE_SORT_WITNESSES"), dict(kind="lib", witnesses="RANGE_BLANK_WITNESSES"), dict(kind="range", kinds=["before", "blank-lines", "after", "panic", "error", "timeout"]), dict(kind="ignore", kinds=["ignored-changed"], case_contains="+range@"), dict(kind="cli", scenario="range_options")],
        explanation="should_format_node (real text) returns NotInRange iff start < range.start or end > range.end for all positions and bounds. "
                    "format_stmt / format_last_stmt: NotInRange => only nested blocks may change (stmt_block::*, assumed). format_block: an out-of-range "
                    "statement keeps its semicolon token and trailing trivia (pair pushed as returned), in the same position. "
                    "stmt_block::format_stmt_block / format_expression_block (unit range, real text): the result is the same kind of node built from the input by replacing its block(s) — the blocks inside its "
                    "expressions, for assignments and calls — with every other part (tokens, names, conditions, operators) handed through: per node, the untracked remainder `<node>_rest` is equal.",
        not_decided=["in-range statements come out as in whole-file formatting (relates two runs)",
                     "the closures of stmt_block that map over lists (expression lists, table fields, call suffixes, elseif branches) are wrappers with the recursive contract assumed; "
                     "that a nested block is visited at all (so that in-range statements inside an out-of-range statement are formatted) is not stated: a block may differ in any way under this contract",
                     "the block unit's stub of format_stmt_block (`blocks_only`, uninterpreted there) is not connected to the structural definition of the unit range"],
        assumptions=[]),
    "C03": dict(units=["tok", "args", "stmt", "table", "expr", "collapse", "trivia"], bounded=[dict(kind="lib", witnesses="C03_BOUNDED"), dict(kind="corpus", kinds=["comments"]), dict(kind="inject", kinds=["comments"]), dict(kind="range", kinds=["comments"])],
        explanation="token/trivia layer, all real text: format_token keeps a comment's kind, long-bracket level and text (line comments right-trimmed, block comments newline-normalised) and "
                    "creates only whitespace; load_token_trivia (real loop over a Peekable with an inner next(), inductive invariant): the comments of the input trivia come out in order, each only "
                    "rewritten as format_token allows, input whitespace is never copied, and in leading trivia every line comment is followed by a newline; format_token_reference / format_symbol / "
                    "format_eof / format_end_token (reverse pass proved with a reverse lemma) re-emit exactly those comments (stated over the comment subsequence cms()); pop_until_no_whitespace removes whitespace only. "
                    "format_function_args keeps parentheses that carry comments. remove_condition_parentheses appends every comment of the removed parentheses to the condition; "
                    "take_singleline_trailing_comments / format_field_expression_value hand on the comments of the formatted field value. "
                    "hang_binop (real text, the three fetches and the two appends): the comments in front of the hung operator are its own leading and trailing ones and those in front of the right operand. "
                    "is_if_guard / should_collapse_function_body (real text): a body is only collapsed — its statement's trivia replaced — when contains_comments finds no comment in it (and none behind `)` / in front of `end`). "
                    "Unit trivia (trivia.rs, real text): update_trivia on a token keeps the token and appends to / replaces / keeps each trivia list exactly as asked (no trivia token — so no comment — is dropped or invented by the updaters); "
                    "the node-level updaters touch the first / last token only and hand every other part through. "
                    "Bounded (labelled): comment-census witnesses per transplant site and the corpus sweep.",
        not_decided=[
                     "comment transplant sites built from iterator-adapter chains (parenthesis removal, semicolon removal, hang_binop, punctuated lists, table fields): holes; "
                     "a comment dropped inside such a chain is not visible to this unit",
                     "code never ends up inside a comment: decided inside expressions (line safety, see C01) and for leading trivia (C01.load_line_comment_terminated); elsewhere bounded witnesses only",
                     "known NOT to hold on the current tree: two line comments around a comma merge (D28), a comment between a name key and `=` is lost (D29, pinned by a snapshot), comments behind header keywords (D30)"],
        assumptions=["TokenReference::new/leading_trivia/trailing_trivia behave as a triple of sequences (class A)"]),
    "C04": dict(units=["tok", "expr"], bounded=[dict(kind="lib", witnesses="C04_WITNESSES"), dict(kind="corpus", kinds=["literals"])],
        explanation="quote choice (get_quote_to_use against the counting spec), number rewriting limited to inserting `0` before a leading `.` / after `-` "
                    "(real text of the Number arm through string wrappers; the `.expect` cannot fail), long-bracket strings keep level and only get the newline rewrite.",
        not_decided=["escape rewriting of quoted strings (regexes RE / UNNECESSARY_ESCAPES + closure): assumed value-preserving (verif::rewrite_escapes); C04's escape clause is undecided",
                     "that `0.5` and `.5` denote the same number is the reader's arithmetic, no numeric-literal semantics is specified"],
        assumptions=["std string primitives agree with their Seq<char> specs (class B wrappers)"]),
    "C10": dict(units=["ctx", "tok", "lib", "args"], bounded=[dict(kind="lib", witnesses="C10_WITNESSES"), dict(kind="corpus", kinds=["whitespace"], configs="C10"), dict(kind="inject", kinds=["whitespace"])],
        explanation="single source of newline/indent trivia proved against the configuration (ctx); format_token normalises newlines inside block comments/long strings and right-trims line comments; "
                    "format_eof ends a non-empty trivia list with exactly one configured newline; format_code returns the printed AST unmodified. "
                    "separator_or_indent / format_call / format_function_args (real text): what is put between a function name and its arguments is never a space in front of a line's indentation "
                    "(behind comments that end the line it is the indent helper's token).",
        not_decided=["that every trivia-construction site in functions outside the units uses these helpers"],
        assumptions=["TokenType::tabs(n)/spaces(n) print n tabs/spaces (class A)", "indent arithmetic does not overflow usize (nesting depth x indent_width), stated as a precondition"]),
    "C11": dict(units=["ctx", "tok", "args", "bodies"], bounded=[dict(kind="lib", witnesses="C11_WITNESSES"), dict(kind="corpus", kinds=["callparens"], configs="C11")],
        explanation="get_quote_to_use equals the quote-choice table of the property; should_omit_string/table_parens equal the call_parentheses table; "
                    "create_function_definition/call_trivia produce one space exactly for the option values that name the case. format_call and format_method_call (real text): the arguments get the form format_function_args decides "
                    "and are separated from the name by that token (behind comments that end the line: indented on their own line; behind a line comment on a method name: on a new line). "
                    "format_local_function / format_function_declaration / format_anonymous_function (unit bodies, real text): the token appended behind the name (behind `function`) is create_function_definition_trivia's. "
                    "format_suffix / format_function_call (real text, the loop over the peekable suffixes with an inductive invariant): every suffix of a call chain comes out in the form the call_parentheses table gives for it, "
                    "with the `obscure` flag computed from the suffix that follows (an index or a method call keeps the parentheses), same arguments, same number and order of suffixes.",
        not_decided=["format_function_name (the dotted names of `function a.b:c`) is a stub in the unit bodies: that the definition trivia is appended to its last token is the trait wrapper's assumption",
                     "format_function_call: the two computations that decide whether the chain hangs (a loop looking for comments, a trial formatting against the column width) are holes that yield a bool; a hole whose text could leave the function (`return`, `?`) is refused"],
        assumptions=[]),
    "C13": dict(units=["cli_io", "diff"], bounded=[dict(kind="cli", scenario="check_never_writes")],
        explanation="format_file (real text): the fs::write call carries the precondition may_write(check=false, data = format_code output of the text read from that path, data != that text); "
                    "Verus proves the call unreachable in check mode. In check mode the result is Diff exactly when the formatted text differs (create_diff returns None iff the texts are equal, "
                    "for every output format; JSON arm proved in unit diff).",
        not_decided=["exit status (0/1/2) and `a diff is printed for precisely the differing files`: computed in the 300-line format() with threads, channels and the logger side effect on EXIT_CODE; "
                     "no function boundary carries it. The CLI witness scenarios (bounded) exercise it in the thorough tier only",
                     "output_diff / output_diff_unified (inside `similar`): None-iff-equal assumed"],
        assumptions=["fs::read_to_string / fs::write / format_code are seen through wrappers that drop the .with_context decoration (DESIGN §3 rule 7)"]),
    "C14": dict(units=["cli_io", "lib"], bounded=[dict(kind="cli", scenario="write_only_formatted_text")],
        explanation="format_file: the only write is the complete formatted text of what was read, only if it differs, and it comes after every `?` exit (read error, parse error, --verify failure: "
                    "format_code's Err leaves the function before the write). format_ast (unit lib): with verification on, Ok is returned only if the output re-parses and compares equal.",
        not_decided=["`every other selected file is still formatted` and the exit status: inline in format() (threads, channel), not decided",
                     "a worker panic (`formatting crashes`): catch_unwind/threadpool behaviour is outside every contract"],
        assumptions=[]),
    "C17": dict(units=["cli_io"], bounded=[dict(kind="cli", scenario="stdin_stdout_only")],
        explanation="format_string (real text): the buffer handed to stdout is exactly the bytes of format_code's output for the input, or of the untouched input when should_skip; an error returns Err (no buffer); "
                    "no file-system wrapper is called in this function at all (a call would be an unknown function to the unit).",
        not_decided=["that nothing else is printed to stdout / the exit status on parse error: inline in format()", "should_skip is computed by the caller (path_is_stylua_ignored): not under contract"],
        assumptions=[]),
    "C18": dict(units=["diff", "cli_io"], bounded=[dict(kind="cli", scenario="json_diff_reconstructs"), dict(kind="cli", scenario="unified_diff_reconstructs")],
        explanation="output_diff_json (real text, two nested loops with invariants): None iff the texts are equal; every mismatch carries the 0-based inclusive line ranges of its similar::DiffOp, "
                    "computed without underflow. create_diff: None iff equal for all four formats; Summary prints the file name iff the texts differ.",
        not_decided=["the unified / standard diff text is produced inside `similar` (assumed); that patch(1) applied to it reconstructs the file is only exercised by the bounded CLI scenario in the thorough tier",
                     "JSON content clause: the `expected` text of an Insert op records only the first inserted line; a formatter-reachable (original, formatted) pair with a pure multi-line insertion was not found "
                     "(every line the formatter adds comes from splitting a line that thereby changes => Replace op), so the clause is restricted to ranges (DESIGN §6.4)"],
        assumptions=["similar::TextDiff::grouped_ops(0): ops are non-empty and there is none iff the texts are equal (class B)"]),
    "C15": dict(units=["config"], bounded=[dict(kind="cli", scenario="config_search")],
        explanation="real text of load_overrides, lookup_config_file_in_directory, find_config_file (recursive, memoised) and load_configuration against a ghost file system: "
                    "find_config_file equals the recursive spec search(dir, root) (nearest stylua.toml/.stylua.toml walking up, stopping at cwd, or root + XDG/HOME with --search-parent-directories), "
                    "keeps the memo-table invariant (every cached entry is the search result of its directory); load_configuration implements forced > found > editorconfig (unless disabled) > default; "
                    "load_overrides overrides exactly the fields given on the command line.",
        not_decided=["`the result on disk equals the library's output for that configuration`: format_file's contract (C14) is stated for the Config it is given; that format() passes the resolved one is inline code",
                     "search_config_locations (XDG/HOME env vars) and load_configuration_for_stdin's stdin-filepath branch: assumed / not under contract",
                     "toml deserialisation of the file contents (serde derive)"],
        assumptions=["Path::parent/join/exists, fs, env behave like the ghost file system (wrappers, class B); paths are finite (depth decreases towards the root)"]),
    "C20": dict(units=["econf", "config"], kani=["opt_enums"], bounded=[dict(kind="cli", scenario="option_carriers")],
        explanation="(1) Kani, complete loop-free enumeration in the real binary crate: every variant of every clap-facing Arg* enum converts to the same-named library variant and back. "
                    "(2) Verus on the real text of load_overrides: a flag overrides exactly its field. (3) Verus on the real text of editorconfig::load against the documented key table: "
                    "each key sets exactly its field (Cr|Lf -> Unix, CrLf -> Windows, indent_size = tab -> tab_width, max_line_length = off -> usize::MAX, quote_type = auto -> unchanged, ...) and nothing else changes.",
        not_decided=["TOML decoding and `deny_unknown_fields` live in serde derive output; clap parsing likewise: a removed attribute is invisible to every contract (the bounded CLI scenario option_carriers exercises unknown keys / invalid values)",
                     "byte-identical output across carriers is implied only through `same Config`; equality of the library's output for equal Configs is determinism of format_code, not proved"],
        assumptions=["ec4rs Properties::get::<T>() returns the parsed value of key T (wrappers); the string parsers generated by property_choice! are macro output (assumed)"],
        technique="Kani complete enumeration of finite enum domains + Verus contracts on mechanically extracted real functions"),
    "C07": dict(bounded=[dict(kind="lib", witnesses="C07_BOUNDED"), dict(kind="corpus", kinds=["panic", "error", "timeout"]), dict(kind="inject", kinds=["panic", "error"])], units=["expr", "block", "ctx", "lib", "tok", "cli_io", "diff", "config", "econf", "sort", "args", "table", "stmt", "luau", "collapse", "bodies", "range", "lists", "assign", "trivia"], kani=["shape"],
        explanation="Totality of the library call, decided per function under contract: inside every function whose real text is verified, each panic!/unreachable!/assert!/expect/unwrap, "
                    "each usize subtraction/addition/multiplication and every recursion or loop (decreases) is an obligation Verus discharges for all inputs (one `.total` obligation per function and "
                    "feature set). format_code returns Err(ParseError) iff the input does not parse and never Ok otherwise; format_ast without verification always returns Ok. "
                    "Kani: Shape/Indent arithmetic cannot overflow within stated input bounds.",
        not_decided=["functions not under contract (hang_punctuated_list, function parameters, most Luau declarations, trivia_util): their panic sites are not covered; coverage is measured in the evidence (panic_sites)",
                     "format_singleline_table's `assert!(trailing_trivia.is_empty())` is dropped from the verified text as a stated assumption (format_field returns no trailing comments for a table without comments: should_expand decides that, by string search, outside the contracts)",
                     "running time in proportion to input size and stack depth: no cost semantics in the verifier",
                     "panics inside full_moon (e.g. BinOp::precedence `expect(\"invalid token\")`) and other dependencies"],
        assumptions=["machine integers: indent arithmetic (nesting depth x indent_width) and Display widths are treated as non-overflowing (stated preconditions / holes); Kani bounds: indent width < 2^16, nesting < 2^24, widths < 2^32"],
        technique="Verus: panic/arithmetic/termination obligations of every function under contract; Kani complete loop-free harness for Shape arithmetic within stated bounds"),
    "C12": dict(units=["sort", "lib", "block"], bounded=[dict(kind="lib", witnesses="SORT_WITNESSES"), dict(kind="corpus", kinds=["sort"], configs="C12")],
        explanation="partition_nodes_into_groups (real loop, inductive invariant, last_mut pushes): the parts concatenated in order are exactly the block's statements, no part is empty, group members are local assignments. "
                    "sort_requires (real text, outer loop desugared to while-let, two inner for-loops, first_mut write-throughs): the AST is returned untouched or rebuilt from statements emitted part by part in place — "
                    "a non-require part verbatim; a group containing a statement that is ignored (directive or ignore start/end region, folded over all statements in order) or outside the range verbatim; otherwise a "
                    "permutation of the group (same statements modulo the leading trivia of `local`) in name order. format_ast: the codemod runs iff sort_requires.enabled; format_block keeps number and order of statements.",
        not_decided=["group boundaries by line adjacency: the line arithmetic (current_line - previous_line) is behind a wrapper; its usize subtraction is not checked",
                     "slice::sort_by_key is assumed to be a stable sort by the name (class B wrapper); the leading-trivia swap (comments of the group's first line stay on top) is a hole: comment preservation inside a sorted group is only exercised by the bounded witnesses",
                     "get_expression_kind (what counts as a require / GetService call): string matching, assumed"],
        assumptions=["parsed ASTs carry positions; local names are identifier tokens (parser)"]),
    "C02": dict(units=["expr", "block", "lib", "tok", "args", "table", "stmt", "luau", "collapse", "bodies", "range", "lists", "assign", "trivia"], bounded=[dict(kind="lib", witnesses="C02_BOUNDED"), dict(kind="corpus", kinds=["tree", "literals"]), dict(kind="inject", kinds=["tree", "literals"]), dict(kind="range", kinds=["tree"])],
        explanation="expression spine: same obligations as C05 (operator tree, leaves, operators) plus line safety (code printed behind a line comment silently disappears: D25, D32, D33); "
                    "statements of a block are the input's, in order (format_block invariant); token layer: names/symbols/numbers/strings per fmt_tt; call sugar keeps the single argument (args_sem); "
                    "table fields keep kind, key and value trees (format_field, format_field_expression_value); a condition loses at most its top-level parentheses; "
                    "Luau: keep_parentheses keeps the parentheses of a single type wherever the grammar reads the type differently without them (parens_needed, written from the Luau grammar); "
                    "format_type_info_internal (real text of the Tuple, Union, Intersection, Optional, Variadic arms, real loops) drops the parentheses of `(T)` only where keep_parentheses says no for the context it was given, and formats "
                    "every member of a union / intersection, the base of an optional and the type of a variadic for the context that carries the matching mark; hang_type_info (real text, both loops) does the same for the members it hangs. "
                    "collapse_simple_statement (unit collapse, real text): is_block_simple / is_if_guard / should_collapse_function_body say yes only for a body of exactly one statement of a kind the one-line path prints "
                    "(no elseif / else), and format_if — collapsed or not — returns an `if` with the same number of statements in every block, the same branches and the same condition. "
                    "Unit bodies (real text): format_do_block / format_while_block / format_repeat_block / format_else_if / format_numeric_for / format_generic_for return a node whose body has the statement census "
                    "format_block returns for the input's body and whose condition / bounds / names / expression list are the input's (modulo redundant parentheses and the top-level pair of a condition), on every layout path. "
                    "Unit lists (real text, real loops, closure specifications): format_punctuated / format_punctuated_multiline / format_contained_punctuated_multiline / try_format_punctuated return as many items as they were given, item i being what the "
                    "item formatter they were passed returns for item i (modulo the trivia they add); every call site under contract instantiates that with the contract of the named formatter it passes. "
                    "Unit assign (real text): attempt_assignment_tactics, format_assignment_no_trivia, format_local_no_assignment, format_local_assignment_no_trivia and format_return return the same number of variables / names / values, "
                    "value i being the input's value i modulo redundant parentheses, on every layout path (one line, hung, one value per line — the zip/enumerate loop with its two `map` closures under closure contracts). "
                    "Unit table: format_table_constructor / format_multiline_table / format_singleline_table return as many fields as the input, field i by format_field for the context reached after i-1 fields. "
                    "Bounded (labelled): Luau type witnesses, collapse witnesses, call-behind-comment witnesses, list / assignment / return witnesses at every width 10..120, corpus sweep (tree and literal values).",
        not_decided=["parameters and Luau annotations of function declarations, Luau type declarations, compound assignments, goto / label / attributes, if-expressions and interpolated strings: not under contract; format_stmt's dispatch assumes they rebuild the same statement (class C stubs)",
                     "assignments and returns: hang_punctuated_list / hang_equal_token / format_var are class C stubs (same list, same token, same variable); the one-value hanging path is therefore assumed, the multi-value paths are verified",
                     "the census / condition contracts of the unit bodies are stated per node; that format_stmt's stub contract `same statement` follows from them is not proved (the two vocabularies are not connected)",
                     "Luau types: the arms of format_type_info_internal that build arrays, callbacks, generics, tables, typeof and module types are behind one wrapper without contract (the types nested in them are formatted by calls the unit does not follow); "
                     "the list formatter of the types inside parentheses takes a closure that recurses: its result is assumed to have as many types as its input"],
        assumptions=["leaf formatters return the same leaf (var_id, call_id, table_id, ... postconditions on stubs)",
                     "the trivia updaters (update_leading_trivia / update_trailing_trivia / update_trivia) are assumed interfaces in every unit but `trivia` (prelude/traits.rs); unit trivia verifies the real implementations for TokenReference, the blanket impls, Punctuated, ContainedSpan, BinOp, UnOp, Expression, Var, VarExpression, FunctionCall, TableConstructor, Suffix, Call, Index, MethodCall, FunctionArgs, FunctionBody, FunctionName, Parameter, If, Assignment, LocalAssignment, Attribute, Return, Stmt, LastStmt "
                     "and proves the assumed clauses for TokenReference / ContainedSpan / BinOp from them; the implementations for Prefix (a cycle through trait implementations has to be cut somewhere) and the Luau nodes stay assumed, and so does that a change of first / last trivia keeps the identity of a leaf (definitional axioms)"]),
    "C01": dict(units=["expr", "block", "lib", "tok", "table", "collapse", "bodies", "trivia", "luau"], bounded=[dict(kind="lib", witnesses="C01_BOUNDED"), dict(kind="corpus", kinds=["parse"]), dict(kind="inject", kinds=["parse"]), dict(kind="range", kinds=["parse"])],
        explanation="(unit collapse: a function body / if guard is only written on one line — with `end` behind its statement — when no comment is found in it.) necessary conditions, each a mechanism the property names: (1) `- -x` guard on both layout paths, right-open expressions never freed under an operator (C05 contract); "
                    "(2) a long-bracket string is separated from `[` (format_index, format_field, is_brackets_string); (3) the statement separator is kept where the next statement starts with `(` "
                    "(format_block); (4) LINE SAFETY inside expressions (prelude/lines.rs): esafe(r) is a postcondition of format_expression, format_expression_internal, hang_binop_expression, "
                    "format_hanging_expression_, hang_expression, parenthesise, keep_double_minus_apart, move_operand_below_comment — at every operator, parenthesis and type assertion of the "
                    "formatted expression, whatever follows a token whose trailing trivia end with a line comment starts a new line; (5) format_code returns exactly the printed AST. "
                    "Bounded (labelled): witness programs for line comments outside expressions (arguments, parameters, for headers, callee/arguments, method calls) and the corpus sweep (re-parse).",
        not_decided=["whole-grammar printer correctness (the property as stated): no contract reaches it; every statement formatter would need the line-safety postcondition",
                     "Luau types: the parentheses contracts of unit luau count for C01 as well (a union inside an intersection without its parentheses does not parse); only the arms and entry points listed under C02 are covered",
                     "line safety outside expressions: known NOT to hold on the current tree for comments behind header keywords (D30, known findings)"],
        assumptions=["line safety: the leaves of an expression (names, calls, tables, anonymous functions, literals, the type of an assertion) are assumed safe (leaf_safe / ta_safe postconditions on stubs); "
                     "format_binop/format_unop produce an operator that is open only if the source operator is; hang_binop produces an operator that starts a line and is closed; "
                     "removed_parentheses_comments terminates every leading comment it returns with a newline; has_trailing_comments(Single|All) is true for a node whose last token is open (definitional)"]),
}

def w(src, oracle="tree", **kw):
    d = dict(src=src, oracle=oracle)
    opts = {k: v for k, v in kw.items() if k not in ("range", "contains", "sweep")}
    if opts: d["opts"] = opts
    for k in ("range", "contains", "sweep"):
        if k in kw: d[k] = kw[k]
    return d

a40, b53 = "a" * 40, "b" * 53
EXPR_WITNESSES = [
    w(f"local x = (-{a40}) ^ {b53}\n", sweep=(1, 200)),
    w(f"local y = - -{a40} + {b53}\n", sweep=(1, 200)),
    w(f"local y = -(-{a40}) + {b53}\n", sweep=(1, 200)),
    w("local x = ((-a)) ^ b\nlocal y = ((not a)) == b\nlocal z = -((-a))\n", sweep=(1, 200)),
    w(f"local x = -{a40} ^ ({b53} :: number) < {'c'*32}\n", syntax="luau", sweep=(1, 200)),
    w(f"local x = (-{a40} :: number) + {b53}\nlocal y = {a40} + (if c then {b53} else d) + e\n", syntax="luau", sweep=(1, 200)),
    w(f"local x = {a40} or {a40} + ({b53} --[[c]] :: T) < {'c'*32}\n", syntax="luau", sweep=(1, 200)),
    w(f"return ({a40}.f()) + (...), ({a40}()), (...)\n", sweep=(1, 200)),
    w("local a = (#t) ^ 2\nlocal b = (not x) ^ y\nlocal c = (-x) ^ 2\n", sweep=(1, 200)),
    w(f"local d = {a40} * (-n) ^ f + (not {b53}) ^ g\nreturn (-offset) ^ power + bias, x .. (#y) ^ z .. w\n", sweep=(1, 200)),
    # every pair of operators with the parentheses on either side (both associativities): grouping is never changed
    w("".join(f"local v{i}_{j} = (a {o1} b) {o2} c, a {o1} (b {o2} c)\n" for i, o1 in enumerate(["^", "..", "*", "+", "==", "and", "or"]) for j, o2 in enumerate(["^", "..", "*", "+", "==", "and", "or"]))
      + "local u = -(a ^ b), (-a) ^ b, not (a == b), (not a) == b, #(a .. b), (#a) .. b\n", sweep=(1, 200)),
    w(f"local v = (-some.long.name.here.{a40}):method()\nlocal w = (not a.b.{a40}).field\n", sweep=(1, 200)),
    w(f"local v = (x.{a40} :: T).field\n", syntax="luau", sweep=(1, 200)),
    w(f"local t = ({a40} + {b53}) * ({a40} - ({b53} - {a40})) / (({a40}) ^ ({b53} ^ c)) .. (d .. e)\n", sweep=(1, 200)),
    w(f"local t = not ({a40} == {b53}) and (not {a40}) == {b53} or #({a40} .. {b53}) > 1\n", sweep=(1, 200)),
    w(f"local t = ({a40} << 2) | ({b53} & 3) ~ (~{a40} >> 1) // 2\n", syntax="lua54", sweep=(1, 200)),
]
IGN = "-- stylua: ignore\nlocal z   =   3; -- hi\n(f)()\n-- stylua: ignore\nlocal x   = 1;\nlocal y   = 2;\n-- stylua: ignore\nreturn   x;\n"
BLOCK_WITNESSES = [
    w(IGN, oracle="contains", contains="local z   =   3; -- hi\n(f)()\n"),
    w(IGN, oracle="contains", contains="local x   = 1;\n"),
    w(IGN, oracle="contains", contains="return   x;\n"),
    w("-- stylua: ignore start\nlocal a   =  1;\nlocal  b = 2; -- c\n-- stylua: ignore end\nlocal   c = 3;\n", oracle="contains", contains="local a   =  1;\nlocal  b = 2; -- c\n"),
    w("local a   = 1\nlocal x = 2; -- hi\n(f)()\n", oracle="contains", contains="local x = 2; -- hi\n(f)()\n", range=(0, 12)),
    w("local function f(x)\n\tif x then\n\t\t-- stylua: ignore start\n\t\treturn   lo ,  { 1,2,3 }\n\tend\n\tlocal   y   = 1\nend\n", oracle="contains", contains="return   lo ,  { 1,2,3 }"),
    w("\n\nreturn function( )\n\tlocal   x = 1\nend\n", oracle="contains", contains="\n\nreturn function( )\n", range=(22, 35)),
    w("\n\nlocal function setup( )\n\tlocal   x = 1\nend\n", oracle="contains", contains="\n\nlocal function setup( )\n", range=(27, 40)),
    w("local a = 1;\n(f)()\nf();\n(g).x = 1\nrepeat until x;\n(h)()\n", oracle="selfverify"),
    w("x += y;\n(f)()\nx -= 1;\n(g).y += 2\n", oracle="selfverify", syntax="luau"),
    # the value in front of the `(` is the LAST one of the statement
    w("local count, last = 0, queue.tail;\n(last or queue).next = nil\na, b = 1, f();\n(g)()\nlocal s, t = 'x', u[1];\n(t)()\n", oracle="parse"),
    w("local count, last = 0, queue.tail;\n(last or queue).next = nil\na, b = 1, f();\n(g)()\nlocal s, t = 'x', u[1];\n(t)()\n", oracle="tree"),
]
_R1 = 'local first   =  1; -- keep me\n\nlocal second   =   { 1,2 }\nlocal third    =  3\n'
_R2 = 'local function f()\n  local  a = 1\n\n  local b   =   2\n  return   a+b\nend\n'
_R3 = "local function f()\n    local   x   =   1\n    return   x  ; -- c\nend\n"
_R4 = "while true do\n    local   y   =   1\n    break  ; -- c\nend\nlocal   z = 2\n"
RANGE_BLANK_WITNESSES = [
    # the last statement of a block out of range, with its semicolon and the comment behind it (round 12: the guard that keeps the original semicolon narrowed to ignored statements)
    w(_R3, oracle="contains", contains="    return   x  ; -- c\n", range=(_R3.index("local   x"), _R3.index("\n    return"))),
    w(_R4, oracle="contains", contains="    break  ; -- c\n", range=(_R4.index("local   y"), _R4.index("\n    break"))),
    w(_R1, oracle="contains", contains='local first   =  1; -- keep me\n\nlocal second =', range=(_R1.index("local second"), _R1.index("\nlocal third"))),
    w(_R2, oracle="contains", contains='local function f()\n  local  a = 1\n\n', range=(_R2.index("local b"), _R2.index("\n  return"))),
]
LIB_WITNESSES = [
    w("-- stylua: ignore\nlocal t = {\n   1,\n      2 }\nlocal   x = 1\n", oracle="contains", contains="local t = {\n   1,\n      2 }\n", line_endings="Windows"),
    w("local s = [[a\nb]]\nlocal   x = 1 -- c\n", oracle="selfverify"),
]
SR = dict(sort_requires="true")
SORT_WITNESSES = [
    w('local z = require("z")\n-- stylua: ignore start\nlocal c = require("c")\nlocal b   =  require("b")\n-- stylua: ignore end\nlocal a = require("a")\nlocal y = require("y")\n', oracle="contains", contains='local c = require("c")\nlocal b   =  require("b")\n', **SR),
    w('local zebra = require("zebra")\n--[[ stylua: ignore ]] local mango   =   require("mango")\nlocal apple = require("apple")\n', oracle="contains", contains='local zebra = require("zebra")\n--[[ stylua: ignore ]] local mango   =   require("mango")\nlocal apple = require("apple")\n', **SR),
    w('local zebra = require("zebra")\nlocal   mango = require("mango")\nlocal apple = require("apple")\n', oracle="contains", contains='local zebra = require("zebra")\nlocal mango = require("mango")\nlocal apple = require("apple")\n', range=(31, 63), **SR),
    w('local Rodux = require("Rodux")\nlocal Binder = require("Binder")\n  \t\nlocal Roact = require("Roact")\nlocal Atlas = require("Atlas")\n', oracle="contains", contains='local Binder = require("Binder")\nlocal Rodux = require("Rodux")\n\nlocal Atlas = require("Atlas")\nlocal Roact = require("Roact")\n', **SR),
    w('local b = require("b") -- cb\nlocal a = require("a") -- ca\n-- above c\nlocal d = require("d")\nlocal c = require("c")\nprint(a)\nlocal f = require("f")\nlocal e = game:GetService("E")\nlocal d2 = game:GetService("D")\nlocal x = 1\nreturn x\n', oracle="permutation", **SR),
    w('local b = require("b")\nlocal a = require("a")\nlocal x = b.c\nlocal y = require(x)\n', oracle="permutation"),
    w('-- stylua: ignore start\nlocal x   =  1\nlocal b = require("b")\nlocal a = require("a")\n-- stylua: ignore end\nlocal q   = 1\nlocal d = require("d")\nlocal c = require("c")\n', oracle="contains", contains='local x   =  1\nlocal b = require("b")\nlocal a = require("a")\n-- stylua: ignore end\nlocal q = 1\nlocal c = require("c")\nlocal d = require("d")\n', **SR),
    # an ignore region that starts in front of one require group and ends behind the next one: neither group is touched, later groups are sorted
    w('local x   =  1\n\n-- stylua: ignore start\nlocal b   = require("b")\nlocal a = require( "a" )\n\nlocal d   =   require("d")\nlocal c =   require( "c" )\n-- stylua: ignore end\n\nlocal z   =  2\nlocal f = require("f")\nlocal e = require("e")\n',
      oracle="contains", contains='-- stylua: ignore start\nlocal b   = require("b")\nlocal a = require( "a" )\n\nlocal d   =   require("d")\nlocal c =   require( "c" )\n-- stylua: ignore end\n\nlocal z = 2\nlocal e = require("e")\nlocal f = require("f")\n', **SR),
    # an ignore region that opens above a group of ONE require: the groups behind it, inside the region, are not touched either; and the mirror case
    w('local Players = require("Players")\n\n-- stylua: ignore start\nlocal polyfill   =  require("polyfill")\n\nlocal globals = require("globals")\nlocal app   = require("app")\n-- stylua: ignore end\n\nlocal zeta = require("zeta")\nlocal alpha = require("alpha")\n',
      oracle="contains", contains='-- stylua: ignore start\nlocal polyfill   =  require("polyfill")\n\nlocal globals = require("globals")\nlocal app   = require("app")\n-- stylua: ignore end\n\nlocal alpha = require("alpha")\nlocal zeta = require("zeta")\n', **SR),
    w('-- stylua: ignore start\nlocal b   = require("b")\nlocal a = require("a")\n\n-- stylua: ignore end\nlocal lone = require("lone")\n\nlocal d = require("d")\nlocal c = require("c")\n',
      oracle="contains", contains='local c = require("c")\nlocal d = require("d")\n', **SR),
    # seed C12-6: a directive in a block comment on the line of a member that is not the first of its group is seen although an earlier member is already ignored
    w('-- stylua: ignore\nlocal zeta   = require("zeta")\n--[[ stylua: ignore start ]] local yak   = require("yak")\n\nlocal delta   = require("delta")\nlocal charlie   = require("charlie")\n\n-- stylua: ignore end\nlocal bravo = require("bravo")\nlocal alpha = require("alpha")\n',
      oracle="contains", contains='local delta   = require("delta")\nlocal charlie   = require("charlie")\n', **SR),
    w('-- stylua: ignore start\nlocal zeta   = require("zeta")\n--[[ stylua: ignore end ]] local yak = require("yak")\n\nlocal delta = require("delta")\nlocal charlie = require("charlie")\n',
      oracle="contains", contains='local charlie = require("charlie")\nlocal delta = require("delta")\n', **SR),
    # a member that spans several lines does not split its group
    w('local Zebra = require(\n\tlong.path\n)\nlocal Apple = require("apple")\nlocal Mango = require("mango")\n', oracle="contains", contains='local Apple = require("apple")\nlocal Mango = require("mango")\nlocal Zebra = require(long.path)\n', **SR),
    # the sort is stable: requires bound to the same name keep their order (a later one shadows an earlier one)
    w('local Util = require("shared.util")\nlocal Signal = require("signal")\nlocal Util = require("client.util")\nlocal Alpha = require("z")\nlocal Alpha = require("a")\n', oracle="contains",
      contains='local Alpha = require("z")\nlocal Alpha = require("a")\nlocal Signal = require("signal")\nlocal Util = require("shared.util")\nlocal Util = require("client.util")\n', **SR),
]
RANGE_SORT_WITNESSES = [SORT_WITNESSES[2]]
def cli(s): return dict(kind="cli", scenario=s)
BRACKET_WITNESSES = [
    w('local a = t[ [=[hello]=] ]\nlocal b = { [ [==[x]]y]==] ] = 1 }\nlocal c = t[([[x]])]\nlocal d = t[ [[x]] .. "a"]\nlocal e = { [([[x]])] = 1, [ [[y]] .. "z" ] = 2 }\n', oracle="selfverify"),
    w('local a = t[ [=[hello]=] :: any ]\nlocal c = t[(([[x]]))]\n', oracle="parse", syntax="luau"),
]
CALL_SRC = 'local a = require "configuration".has_parens\nlocal b = setup { verbose = true }:run()\nlocal c = f("x")\nlocal d = g({ 1 })\nlocal e = h "y"\nlocal k = m { 2 }\nlocal n = p("s").q\nlocal o = obj:method "z"\n'
C11_WITNESSES = [
    w(CALL_SRC, oracle="contains", contains='local a = require "configuration".has_parens\nlocal b = setup { verbose = true }:run()\nlocal c = f("x")\nlocal d = g({ 1 })\nlocal e = h "y"\nlocal k = m { 2 }\nlocal n = p("s").q\n', call_parentheses="Input"),
    w(CALL_SRC, oracle="contains", contains='local a = require("configuration").has_parens\nlocal b = setup({ verbose = true }):run()\nlocal c = f("x")\nlocal d = g({ 1 })\nlocal e = h("y")\nlocal k = m({ 2 })\nlocal n = p("s").q\nlocal o = obj:method("z")\n', call_parentheses="Always"),
    w(CALL_SRC, oracle="contains", contains='local a = require("configuration").has_parens\nlocal b = setup({ verbose = true }):run()\nlocal c = f "x"\nlocal d = g { 1 }\nlocal e = h "y"\nlocal k = m { 2 }\nlocal n = p("s").q\nlocal o = obj:method "z"\n', call_parentheses="None"),
    w(CALL_SRC, oracle="contains", contains='local c = f "x"\nlocal d = g({ 1 })\nlocal e = h "y"\nlocal k = m({ 2 })\n', call_parentheses="NoSingleString"),
    w(CALL_SRC, oracle="contains", contains='local c = f("x")\nlocal d = g { 1 }\nlocal e = h("y")\nlocal k = m { 2 }\n', call_parentheses="NoSingleTable"),
    w(CALL_SRC + 'function decl(x) end\nlocal function ldecl(y) end\nlocal anon = function(z) end\n', oracle="contains", contains='local c = f ("x")\nlocal d = g ({ 1 })\nlocal e = h ("y")\nlocal k = m ({ 2 })\nlocal n = p ("s").q\nlocal o = obj:method ("z")\nfunction decl(x) end\nlocal function ldecl(y) end\nlocal anon = function(z) end\n', space_after_function_names="Calls"),
    w(CALL_SRC + 'function decl(x) end\nlocal function ldecl(y) end\nlocal anon = function(z) end\n', oracle="contains", contains='local c = f("x")\nlocal d = g({ 1 })\nlocal e = h("y")\nlocal k = m({ 2 })\nlocal n = p("s").q\nlocal o = obj:method("z")\nfunction decl (x) end\nlocal function ldecl (y) end\nlocal anon = function (z) end\n', space_after_function_names="Definitions"),
    w('local s = "it\'s"\nlocal t = \'say "hi"\'\nlocal u = \'plain\'\nlocal v = "a\'b\\"c"\n', oracle="contains", contains='local s = "it\'s"\nlocal t = \'say "hi"\'\nlocal u = "plain"\nlocal v = "a\'b\\"c"\n'),
    w('local s = "it\'s"\nlocal t = \'say "hi"\'\nlocal u = "plain"\n', oracle="contains", contains='local s = "it\'s"\nlocal t = \'say "hi"\'\nlocal u = \'plain\'\n', quote_style="AutoPreferSingle"),
    w('local s = "it\'s"\nlocal t = \'say "hi"\'\n', oracle="contains", contains='local s = \'it\\\'s\'\nlocal t = \'say "hi"\'\n', quote_style="ForceSingle"),
]
CHAIN_SRC = 'a.b("x"):c(1)\nobj:get("name"):upper()\nlib.new({ 1, 2 }):run()\na.b("x").c.d(2)\nlocal v = m.n({ k = 1 }).o:p "q"\n'
C11_WITNESSES += [
    w(CHAIN_SRC, oracle="contains", contains='a.b("x"):c(1)\nobj:get("name"):upper()\nlib.new({ 1, 2 }):run()\na.b("x").c.d(2)\nlocal v = m.n({ k = 1 }).o:p "q"\n', call_parentheses="None", sweep=(40, 120)),
    w(CHAIN_SRC, oracle="contains", contains='a.b("x"):c(1)\nobj:get("name"):upper()\nlib.new({ 1, 2 }):run()\na.b("x").c.d(2)\n', call_parentheses="NoSingleString", sweep=(40, 120)),
    w(CHAIN_SRC, oracle="contains", contains='a.b("x"):c(1)\nobj:get("name"):upper()\nlib.new({ 1, 2 }):run()\na.b("x").c.d(2)\n', call_parentheses="NoSingleTable", sweep=(40, 120)),
]
LIT_SRC = ('local a = "it\'s \\"q\\" \\\\ \\a\\b\\f\\n\\r\\t\\v \\65\\066\\x41 \\z   next \\q \\- \\/"\n'
           "local b = 'say \\\"hi\\\" it\\\'s \\u{48}\\u{20AC} \\\n continued'\n"
           'local c = [[long\n"raw" \\n]]\nlocal d = [==[\nlevel ]] two]==]\n'
           'local n = { .5, -.5, 1., 0x.8p1, 0xA.8p0, 0x1F, 1e3, 3.0e-2, 0xff, 5 // 2 }\n')
def _escape_grid():
    """every sequence of up to three atoms (plain characters, quotes, every escape form incl. an escaped backslash followed by a letter,
    and escapes Lua does not define) in both quote kinds: the escape rewriting of format_token is a regular-expression substitution that no
    contract reaches (a pinned hole), so its value preservation is checked exhaustively over this grid instead (bounded, labelled)"""
    atoms = ["a", "d", " ", "%", "\\\\", "\\n", "\\t", "\\d", "\\.", "\\-", "\\65", "\\x41", "\\u{48}", "\\z  ", "\\a"]
    import itertools
    lines = []
    for n in (1, 2, 3):
        for combo in itertools.product(atoms, repeat=n):
            body = "".join(combo)
            lines.append(f'f("{body}", \'{body}\', "{body}\\"q", \'{body}\\\'q\', "{body}\'", \'{body}"\')')
    return "\n".join(lines) + "\n"
ESCAPE_GRID = _escape_grid()
C04_WITNESSES = [w(LIT_SRC, oracle="literals", syntax="lua54", quote_style=q) for q in ("AutoPreferDouble", "AutoPreferSingle", "ForceDouble", "ForceSingle")] + [
    w(ESCAPE_GRID, oracle="literals", syntax="lua54", quote_style="AutoPreferDouble"), w(ESCAPE_GRID, oracle="literals", syntax="lua54", quote_style="ForceSingle"),
    w('local x = 1_000 + 0b1010 + 1_.5 + 0xA_B\nlocal s = `interp {x} "q"`\n', oracle="literals", syntax="luau"),
    w('local s = "line one\\\r\nline two"\nlocal t = \'a\\\r\nb\'\n', oracle="literals", syntax="lua52"),
    w('local s = "line one\\\r\nline two"\n', oracle="literals", syntax="luau", line_endings="Windows"),
    # seed C04-7: a long-bracket string as the first operand inside index brackets / a bracketed key: glued to the `[` it reads as a different literal
    w('local v = t[([[k]]) .. "x"]\nlocal u = { [([[k]]) .. "x"] = 1 }\nlocal w = t[([=[k]=]) .. "x"] .. "]]"\nlocal z = t[ [[k]] .. "x" ] .. t[([[k]])]\n', oracle="literals"),
]
WS_SRC = ('--[[ block\r\ncomment\nmixed\r\nendings ]]\nlocal   x = 1   -- trailing   \n\n\n\nif x then -- c\n\tprint(x)   \nend\n'
          'if x\n--[[ lead ]]\nthen\n  local t = {\n1,\n    2, -- two\n}\nend\nwhile x\n-- cm\ndo end\n-- eof comment\n\n\n')
C10_WITNESSES = [w(WS_SRC, oracle="whitespace", **o) for o in (dict(), dict(line_endings="Windows"), dict(indent_type="Spaces", indent_width="3"), dict(indent_type="Spaces", indent_width="2", line_endings="Windows"))] + [
    w('for i = 1, 2\n-- cm\ndo end\n', oracle="whitespace"),          # D14 (repaired)
    w('for k, v in pairs(t)\n-- d\ndo end\n', oracle="whitespace"),   # D14 (repaired)
    w('local x = 1; -- c  \r\nlocal y = 2; --[[ a\r\nb ]]\r\nreturn x; -- d   \r\n', oracle="whitespace"),   # D35 (repaired): comments moved off a removed semicolon
    w('local x = 1; -- c  \nlocal y = 2; --[[ a\nb ]]\nreturn x; -- d   \n', oracle="whitespace", line_endings="Windows"),
    # D38 (repaired): arguments behind comments that end the line of the function name
    w('do\nf\n-- x\n(a)\nobj:m(1).g\n--[[y]]\n(2)\nend\n', oracle="whitespace", space_after_function_names="Always"),
    w('do\nf\n-- x\n"s"\ng\n-- y\n{ 1 }\nh(\n-- z\n"t")\nend\n', oracle="whitespace", call_parentheses="None"),
    w('do\nf\n-- x\n"s"\ng\n-- y\n{ 1 }\nend\n', oracle="whitespace", call_parentheses="Input", space_after_function_names="Calls"),
]
TYPE_WITNESSES = [
    w('type Callback = ((a: number) -> Result) | ((a: number, b: string) -> ()) | nil\nlocal x: (() -> ())? = nil\ntype U = (A & B) | C\nlocal f = function(cb: ((n: number) -> ()) | ((s: string) -> boolean) | nil) end\n', oracle="tree", syntax="luau", sweep=(20, 140)),
]
TABLE_COMMENT_WITNESSES = [
    w('local t = { a, b, -- note\n}\nlocal u = { a, b, --[[x]] }\nlocal v = { a; b; -- semi\n}\nlocal w = {\n a, -- first\n b,\n}\nf({ 1, 2, -- arg\n})\n', oracle="comments", sweep=(20, 140)),
]
COLLAPSE_SRC = ('if ready then start() notify(queue) end\nif not item.enabled then -- skip disabled entries\n return nil end\nif a then return end\nif b then x = 1 end\n'
                'local function f() return 1 end\nlocal function g() print(1) print(2) end\nfunction h()\n\t-- stylua: ignore\n\tfoo(  )\nend\nlocal k = function() -- c\n return 2 end\nif c then goto done end\n::done::\n')
COLLAPSE_WITNESSES = [w(COLLAPSE_SRC, oracle=o, syntax="lua52", collapse_simple_statement=c, sweep=(20, 120)) for c in ("Always", "ConditionalOnly", "FunctionOnly", "Never") for o in ("tree", "comments")]
LOOP_SRC = ('while (a and b) or (c) do x = x + 1 f(x) end\nrepeat local y = g() y:h() until (y == nil) or ((done))\nfor i = (1), (n) * 2, -(step) do t[i] = i end\n'
            'for k, v in pairs(t), (nil) do print(k, v) end\ndo local z = 1 z = z + 1 return z end\n'
            'if (a) then p() q() elseif ((b)) and c then r() elseif (f()) then s() s() else u() return end\n')
LOOP_WITNESSES = [w(LOOP_SRC, oracle="tree", sweep=(10, 120)), w(LOOP_SRC, oracle="tree", collapse_simple_statement="Always", indent_type="Spaces", sweep=(10, 120))]
COLLAPSE_LUAU_SRC = ('local function f() count += 1 end\nlocal g = function() total -= step end\nif ready then n *= 2 end\ncall(function() x ..= "s" end)\nlocal t = { h = function() y //= 2 end }\n'
                     'local function k(): number return 1 end\nif a then local z: number = 1 end\n')
COLLAPSE_LUAU_WITNESSES = [w(COLLAPSE_LUAU_SRC, oracle="tree", syntax="luau", collapse_simple_statement=c, sweep=(20, 120)) for c in ("Always", "FunctionOnly", "ConditionalOnly")]
HEADER_COMMENT_WITNESSES = [w('while -- c\n x do f() end\nif -- d\n y then z() end\nif a then b() elseif -- e\n c then d() end\nwhile --[[k]] v do end\nif p then q() end -- t\n', oracle=o, collapse_simple_statement=c, sweep=(10, 120))
                            for o in ("tree", "comments") for c in ("Never", "Always")]
COND_COMMENT_WITNESSES = [w('while ( --[[a]] x --[[b]] ) --[[c]] do end\nif --[[d]] (y) then end\nrepeat until ( --[[e]] z )\nwhile ( -- f\n w) do end\nif (a) then end\n', oracle="comments", sweep=(20, 120))]
SEMI_COMMENT_WITNESSES = [w('local a = b; -- c\n(f or g)()\nlocal d = e; --[[ blk ]]\n(h)()\nx = 1; -- gone\nreturn x; -- last\n', oracle="comments")]
a26, b30, c26 = "a" * 26, "b" * 30, "c" * 26
# comments bound to removed parentheses (D17), list items hung a second time (D18, D19), a comment in front of a sorted require (D20)
PAREN_COMMENT_WITNESSES = [w('local x = ( --[[a]] y --[[b]] ) --[[c]]\nlocal z = ( -- d\n q)\nf(( --[[e]] g))\n', oracle="comments", sweep=(10, 120))]
REHANG_WITNESSES = [w(f'return {a26} --[[c]], {b30}, {c26}\n', oracle="comments", sweep=(5, 120)),
                    w(f'local x, y = {a26} -- c\n, {b30}\nx, y = {a26} -- d\n, {b30}\n', oracle="comments", sweep=(5, 120))]
SORT_COMMENT_WITNESSES = [w('local c = require("c")\n--[[ x ]] local a = require("a")\nlocal b = require("b") -- tb\n', oracle="comments", **SR),
                          # seed C12-7: the `;` of a member owns its trailing comment and line break
                          w('local Signal = require(Packages.Signal); -- events\nlocal Promise = require(Packages.Promise); -- async helpers\nlocal Maid = require(Packages.Maid) -- cleanup\n\nprint(Signal, Promise, Maid); -- done\n', oracle="comments", **SR),
                          w('local Workspace = game:GetService("Workspace"); -- the world\n-- stylua: ignore\nlocal Players   = game:GetService("Players"); -- keep this one as written\nlocal Lighting = game:GetService("Lighting")\n', oracle="comments", **SR),
                          w('local Workspace = game:GetService("Workspace"); -- the world\n-- stylua: ignore\nlocal Players   = game:GetService("Players"); -- keep this one as written\nlocal Lighting = game:GetService("Lighting")\n', oracle="parse", **SR)]
# a line comment at a binary operator inside single-line contexts (D21): call arguments, index brackets, numeric for bounds
BINOP_COMMENT_WITNESSES = [w('foo(a + b * -- comment\n c + d, e)\nfoo(a -- c\n + b)\nlocal t = a[b + -- c\n d]\nfor i = a + -- c\n b, 2 do end\nfoo(a)[b .. -- c\n d] = 1\nfoo((a + -- c\n b) * 2)\nfoo(a and -- why\n b or c)\nfoo((a -- p\n) + b)\nfoo(-(a -- q\n) .. b)\n', oracle="comments", sweep=(10, 120))]
# a comment trailing a parenthesised table field value (D24); a line comment between a callee and its arguments (D25)
FIELD_COMMENT_WITNESSES = [w('local t = { (a --[[c]]), b }\nlocal u = { x = (a -- c\n) }\nlocal v = { [1] = (a --[[d]]) }\nlocal q = { (a -- e\n), b }\n', oracle="comments", sweep=(10, 120))]
CALL_COMMENT_WITNESSES = [w('a -- c\n (b)\na.b -- d\n (b)\nfoo(a -- e\n (b))\na -- f\n "s"\n', oracle="comments", sweep=(10, 120)),
                          w('local x = a -- c\n (b)\na -- c\n (b):c()\nlocal y = a.b.c -- d\n (e).f()\n', oracle="tree", sweep=(10, 120))]
PARAM_COMMENT_WITNESSES = [w('local x = function( -- c\n a) end\nfunction f( -- d\n ) end\nfunction g( -- e\n a, -- f\n ...) return 1 end\n', oracle="comments", sweep=(10, 120))]
# open finding D28 (known_findings.txt): one witness per finding
UNOP_COMMENT_WITNESSES = [w('foo(- -- c\n a)\nfoo(not -- d\n a, b)\nlocal x = # -- e\n a\nlocal y = - -- f\n -a\nif not -- g\n a then end\n', oracle="comments", sweep=(10, 120))]
# D39 (repaired): call parentheses removed around an argument that ends with a line comment; D40 / D41 (repaired): Luau array access modifier, default of a generic type pack
D39_WITNESSES = [w('g(f("x" -- c\n))\nlocal y = f("x" -- c\n) + 1\nf({ 1 } -- d\n):g()\nlocal t = { a = f("x" -- e\n), b = 1 }\n', oracle=o, call_parentheses=c, sweep=(10, 120)) for o in ("tree", "comments") for c in ("None", "NoSingleString", "NoSingleTable")]
LUAU_TYPE_FIX_WITNESSES = [w('type A = { read number }\ntype C = { write -- c\n number }\ntype F<T... = (string)> = (T...) -> ()\ntype G<T... = (string, number), U... = ...number> = (T..., U...) -> ()\n', oracle=o, syntax="luau", sweep=(10, 120)) for o in ("tree", "comments")]
ARG_PAREN_COMMENT_WITNESSES = [w('foo((a -- c\n))\nfoo(a, (b -- d\n))\nfoo(a + (b -- e\n), d)\nfoo(-(a -- f\n))\na:b -- g\n (d)\nlocal x = a:b -- h\n (d):e()\n', oracle="comments", sweep=(10, 120))]
OPEN_COMMENT_FINDINGS = []
# line comments inside kept parentheses (D31), in front of a type assertion (D32), uncovered inside a nested operand chain (D33)
LINE_SAFE_WITNESSES = [w('local s = ( -- x\n"x"):rep(3)\nlocal t = ("x" -- y\n):rep(3)\nfoo((a -- z\n).b)\nfoo(( -- w\n a).b, -(c -- v\n) ^ 2)\n', oracle="comments", sweep=(10, 120)),
                       w(f'local x = {"a" * 49} + ({"b" * 46} -- c\n) * {"d" * 42}\nlocal y = {"a" * 30} .. ({"b" * 30} -- c\n) .. {"d" * 30} .. e\n', oracle="tree", sweep=(10, 140)),
                       w(f'local x = {"a" * 49} + ({"b" * 46} -- c\n) * {"d" * 42}\n', oracle="comments", sweep=(10, 140)),
                       w('x = a -- c\n :: T\nfoo((a -- d\n) :: number)\nlocal y = ((b -- e\n) :: any) :: T\n', oracle="tree", syntax="luau", sweep=(10, 120)),
                       w('x = a -- c\n :: T\nfoo((a -- d\n) :: number)\n', oracle="comments", syntax="luau", sweep=(10, 120))]
# D30 (open, a class): a line comment directly behind a keyword / name / symbol inside a statement header or a bracket, where the
# formatter expects no comment: the token printed next lands inside the comment. One witness per call site that was examined.
LOCAL_COMMENT_WITNESSES = [w('local -- x\n x = 1\nlocal -- y\n a, b\ndo local -- z\n c = 2 end\n', oracle="comments", sweep=(10, 120))]
D30_FINDINGS = [w('for -- x\n i = 1, 2 do end\n', oracle="comments"), w('for i = 1, -- x\n 2 do end\n', oracle="comments"),
                w('local function f -- x\n() end\n', oracle="comments"), w('function m.n -- x\n:o() end\n', oracle="comments"), w('repeat a() until -- x\n b\n', oracle="comments"),
                w('local t = { [ -- x\n 2] = 3 }\n', oracle="comments"), w('goto -- x\n done\n::done::\n', oracle="comments", syntax="lua52")]
ATTR_COMMENT_WITNESSES = [w('local x <const> -- x\n = 1\nlocal y <const>, z <close> -- y\n = 1, 2\n', oracle="tree", syntax="lua54"), w('local x: number -- x\n = 1\nlocal f: (number) -> () -- y\n = g\n', oracle="tree", syntax="luau"),
                          w('local x = #t + -\n-- x\nn\nfoo(-\n--[[c]] a)\n', oracle="tree", sweep=(10, 120))]
D30_TREE_FINDINGS = []
OPEN_C03_FINDINGS = [w('local a = { c -- k\n = bar() }\n', oracle="comments"),   # D29
    w('local t = { a -- c\n, -- d\n b }\n', oracle="comments"), w('foo(a -- c\n, -- d\n b)\n', oracle="comments"), w('return a -- c\n, -- d\n b\n', oracle="comments")]   # D28, one per formatter
LIST_WITNESSES = [w('local aaaa, bbbb, cccc = ffff(1111, 2222), gggg(3333), hhhh -- c\naaaa.b, cccc[1] = xxxx + yyyy * zzzz, function() return 1 end\nfoo(aaaa, bbbb, { cccc = 1 }, function() return dddd, eeee end)\nfunction m.a.b:c(pppp, qqqq, ...) return pppp, qqqq, ... end\n', oracle="tree", sweep=(10, 120)),
                  w('for kkkk, vvvv in pairs(tttt), nil, nil do end\nlocal t = { aaaa = 1, [2] = bbbb, cccc, dddd = { eeee, ffff }; gggg }\nlocal u = {\n  1, 2;\n  3 }\n', oracle="tree", sweep=(10, 120))]
# seed C01-8: a parenthesised prefix (table, function, string, call) at every width: its parentheses stay
PREFIX_WITNESSES = [w('local message = ({ pcall(ffffffff, aaaaaaaa, bbbbbbbb) })[2]\nlocal s = ("xxxxxxxx"):rep(3333):upper()\nlocal v = (function() return tttt end)()\nlocal c = (gggg())[1111]\n(hhhh or iiii)(jjjj)\n', oracle="tree", sweep=(4, 120))]
# seed C02-8: Luau type annotations of a multi-name local, some names annotated and some not, at every width
LOCAL_TYPES_WITNESSES = [w('local okay, response: Response = pcall(requestrequestrequest, argumentargument, argumentargument)\nlocal first: boolean, second, third: string = computecomputecompute(aaaaaaaa), bbbbbbbbbbbbbbbb, cccccccccccccccc\nlocal a, b: number\n', oracle="tree", syntax="luau", sweep=(10, 120))]
RETURN_WITNESSES = [w('local function f()\n  return -- c\n    aaaa(1111), bbbb + cccc * dddd, eeee\nend\nlocal function g() return function() end, { 1, 2 } end\nlocal function h()\n  return aaaa and bbbb or cccc, -- d\n    dddd\nend\nreturn\n', oracle="tree", sweep=(10, 120)),
                    w('return aaaa(1111), bbbb + cccc * dddd, { eeee = ffff }, function() return 1 end\n', oracle="tree", sweep=(10, 120))]
# D42: `//` exists in full_moon under luau or lua53; the trivia impls of BinOp listed it under lua53 only
FEATURE_SET_WITNESSES = [dict(kind="featbin", features="luau", src="local x = aaaaaaaaaaaaaaaaaaaaaaaaaaaaaaaaaaaaaaaaaaaaaaaaaa // bbbbbbbbbbbbbbbbbbbbbbbbbbbbbbbbbbbbbbbbbbbbbbbbbbbbbbbbbbbbbbbbbbbbbbbbbbbbbb // cccccccccccccccccccccccccccc -- c\nlocal y = a //\n -- d\n b\nlocal z = #t // 2 + -n // m\n")]
# round 9 side observations, all repaired (D28 / D43 – D46): the inputs stay as witnesses
JOIN_COMMENT_WITNESSES = [w(src, oracle="comments", sweep=(10, 120)) for src in (
    'foo(a -- c\n-- e\n, b)\nfoo(a -- c\n, -- d\n b)\n', 'local t = { a -- c\n-- e\n, b }\nlocal u = { a -- c\n, -- d\n b; c -- f\n; -- g\n d }\n',
    'return a -- c\n-- e\n, b\n', 'local x, y = a -- c\n, -- d\n b\nx, y = a -- c\n, --[[d]] -- e\n b\n',
    'local x = 1 -- c\n; -- d\nlocal y = 2; -- e\ndo\n  return x -- f\n  ; -- g\nend\nlocal z = 3 --[[h]] ; --[[i]]\n')]
HUNG_PAREN_COMMENT_WITNESSES = [w('local xxxxxxxxxxxx = aaaaaaaaaaaaaaaa + ( --[[c]] bbbbbbbbbbbbbbbb) + cccccccccccccccccc\nlocal yyyy = aaaaaaaaaaaaaaaa .. ( --[[c]] bbbbbbbbbbbbbbbb) .. ( -- d\n cccccccccccccccccc)\nlocal zzzz = aaaaaaaaaaaaaaaa + -- e\n --[[f]] bbbbbbbbbbbbbbbb -- g\n + cccccccccccccccccc\n', oracle="comments", sweep=(10, 120))]
RETURN_TYPE_COMMENT_WITNESSES = [w('local function foo(): number -- c\nend\nlocal f = function(): number --[[d]] end\nlocal function g(): number end\nfunction m.h(): (number, string) -- e\nend\n', oracle=o, syntax="luau", sweep=(10, 120)) for o in ("parse", "comments")]
INTERPOLATED_TABLE_WITNESSES = [w('print(`a { {1} :: any } b { {2} } c { {3} == t } d { #{4} }`)\n', oracle="parse", syntax="luau")]
# one call site of the D30 class, repaired (06a88b8, 144e8ae): a line comment behind `function` / behind the name of a local function
FUNCTION_KEYWORD_COMMENT_WITNESSES = [w('local f, g = function -- x\n() end, h\nlocal function k -- y\n(a, b) return a end\nreturn function -- q\n(x) return x end\n', oracle=o, space_after_function_names=sp, sweep=(10, 120)) for o, sp in (("parse", "Never"), ("comments", "Never"), ("whitespace", "Always"))] + [
    w('local v = function -- z\n<T>(a: T) return a end\n', oracle="parse", syntax="luau")]
# D47 (open, known finding): full_moon accepts a parenthesised type pack where Luau wants a type; without the parentheses it does not parse
TYPE_PACK_FINDINGS = [w('type A<T...> = (T...)\n', oracle="parse", syntax="luau"), w('local x: (T...) = 1\n', oracle="parse", syntax="luau"), w('type H<T...> = (T...) | nil\n', oracle="parse", syntax="luau")]
WITNESSES = {
    "C01.function_body_below_comment": FUNCTION_KEYWORD_COMMENT_WITNESSES, "C10.no_space_behind_line_comment": FUNCTION_KEYWORD_COMMENT_WITNESSES[2:3], "C03.join_": JOIN_COMMENT_WITNESSES, "C01.collapsed_function_return_type": RETURN_TYPE_COMMENT_WITNESSES, "C03.hang_binop": HUNG_PAREN_COMMENT_WITNESSES,
    "C03.update_trivia_contract": FEATURE_SET_WITNESSES + C10_WITNESSES[:2], "C03.update_leading": C10_WITNESSES[:2], "C03.update_trailing": C10_WITNESSES[:2], "C03.token_": C10_WITNESSES[:2],
    "C03.span_proxy": C10_WITNESSES[:2], "C03.binop_proxy": FEATURE_SET_WITNESSES, "C03.list_update_loop": LIST_WITNESSES[:1],
    "C02.list_": LIST_WITNESSES, "C02.assignment": LIST_WITNESSES, "C02.local_assignment": LIST_WITNESSES + LOCAL_TYPES_WITNESSES, "C02.return_": RETURN_WITNESSES,
    "C02.table_": LIST_WITNESSES[1:] + TABLE_COMMENT_WITNESSES, "C08.table_": LIST_WITNESSES[1:] + BLOCK_WITNESSES, "C02.function_name": LIST_WITNESSES[:1], "C02.argument_multiline": LIST_WITNESSES[:1],
    "C03.condition": COND_COMMENT_WITNESSES, "C02.condition": COND_COMMENT_WITNESSES,
    "C02.stmt": COLLAPSE_WITNESSES, "C02.if_guard": COLLAPSE_WITNESSES, "C02.simple_block": COLLAPSE_WITNESSES, "C02.collapsed_function": COLLAPSE_WITNESSES, "C02.format_if": COLLAPSE_WITNESSES + COND_COMMENT_WITNESSES,
    "C02.do_keeps": LOOP_WITNESSES, "C02.while_keeps": LOOP_WITNESSES, "C02.repeat_keeps": LOOP_WITNESSES, "C02.elseif_keeps": LOOP_WITNESSES, "C02.numeric_for": LOOP_WITNESSES, "C02.generic_for": LOOP_WITNESSES,
    "C02.format_if_keeps_condition": LOOP_WITNESSES + COND_COMMENT_WITNESSES,
    "C01.header_keyword": HEADER_COMMENT_WITNESSES, "C01.if_keyword": HEADER_COMMENT_WITNESSES,
    "C02.empty_block": COLLAPSE_WITNESSES, "C03.if_guard": COLLAPSE_WITNESSES, "C03.collapsed_function": COLLAPSE_WITNESSES, "C01.semicolon": COLLAPSE_WITNESSES[:2] + SEMI_COMMENT_WITNESSES, "C08.block": SEMI_COMMENT_WITNESSES,
    "C02.": TYPE_WITNESSES, "C03.": TABLE_COMMENT_WITNESSES, "C03.field_value": FIELD_COMMENT_WITNESSES, "C02.field_value": FIELD_COMMENT_WITNESSES,
    "C01.line_comment": C04_WITNESSES + C10_WITNESSES[:4], "C04.": C04_WITNESSES, "C03.token_text": C04_WITNESSES + C10_WITNESSES, "C11.quote_choice": C04_WITNESSES[:4], "C10.": C10_WITNESSES,
    "C11.": C11_WITNESSES + D39_WITNESSES[:3], "C02.call_sugar": C11_WITNESSES[:5], "C03.args_conversion": [w('f( --[[c]] "x")\ng("y" --[[d]])\nh("z") -- e\nk( -- l\n{})\n', oracle="comments", call_parentheses="None")],
    "C01.is_brackets_string": BRACKET_WITNESSES, "C01.index_bracket_string": BRACKET_WITNESSES, "C01.bracket_string": BRACKET_WITNESSES,
    "C12.": SORT_WITNESSES + SORT_COMMENT_WITNESSES,
    "C09.range_options": [cli("range_options")], "C15.": [cli("config_search")], "C20.": [cli("option_carriers")],
    "C14.": [cli("write_only_formatted_text"), cli("check_never_writes")], "C13.": [cli("check_never_writes")], "C17.": [cli("stdin_stdout_only")],
    "C18.": [cli("json_diff_reconstructs"), cli("unified_diff_reconstructs"), cli("check_never_writes")],
    "C01.output_is_printed_ast": LIB_WITNESSES, "C01.verified": LIB_WITNESSES + [cli("write_only_formatted_text")], "C12.sort_iff_enabled": LIB_WITNESSES, "C02.whole_ast": LIB_WITNESSES,
    "C08.": BLOCK_WITNESSES + RANGE_BLANK_WITNESSES[:2], "C09.": BLOCK_WITNESSES + RANGE_BLANK_WITNESSES, "C01.semicolon": BLOCK_WITNESSES[-2:], "C01.next_starts": BLOCK_WITNESSES[-2:],
    "C05.prefix_keeps_parens": PREFIX_WITNESSES, "C05.": EXPR_WITNESSES + BINOP_COMMENT_WITNESSES, "C01.single_line.line_safe": LINE_SAFE_WITNESSES + BINOP_COMMENT_WITNESSES + UNOP_COMMENT_WITNESSES,
    "C05.hanging.line_safe": LINE_SAFE_WITNESSES + BINOP_COMMENT_WITNESSES + UNOP_COMMENT_WITNESSES, "C05.hang_binop.line_safe": LINE_SAFE_WITNESSES, "C01.parenthesise": LINE_SAFE_WITNESSES[:1],
    "C01.unary_operand": UNOP_COMMENT_WITNESSES, "C01.format_expression.line_safe": LINE_SAFE_WITNESSES + BINOP_COMMENT_WITNESSES,
    "C01.bracket_string_visible_hanging": BRACKET_WITNESSES + BINOP_COMMENT_WITNESSES,
    "C01.double_minus_guard": EXPR_WITNESSES[1:3],
}

C01_BOUNDED = FUNCTION_KEYWORD_COMMENT_WITNESSES[:1] + FUNCTION_KEYWORD_COMMENT_WITNESSES[3:] + RETURN_TYPE_COMMENT_WITNESSES[:1] + INTERPOLATED_TABLE_WITNESSES + TYPE_PACK_FINDINGS + HEADER_COMMENT_WITNESSES + D39_WITNESSES[:3] + LUAU_TYPE_FIX_WITNESSES[:1] + [x for x in COLLAPSE_WITNESSES if x["oracle"] == "comments"] + BRACKET_WITNESSES + REHANG_WITNESSES[1:] + BINOP_COMMENT_WITNESSES + CALL_COMMENT_WITNESSES[:1] + PARAM_COMMENT_WITNESSES + UNOP_COMMENT_WITNESSES + ARG_PAREN_COMMENT_WITNESSES + [LINE_SAFE_WITNESSES[i] for i in (0, 2, 4)] + LOCAL_COMMENT_WITNESSES + OPEN_COMMENT_FINDINGS + D30_FINDINGS
C02_BOUNDED = LOCAL_TYPES_WITNESSES + COLLAPSE_LUAU_WITNESSES[:1] + TYPE_WITNESSES + LUAU_TYPE_FIX_WITNESSES[:1] + [x for x in COLLAPSE_WITNESSES if x["oracle"] == "tree"] + CALL_COMMENT_WITNESSES[1:] + [LINE_SAFE_WITNESSES[i] for i in (1, 3)] + ATTR_COMMENT_WITNESSES + D30_TREE_FINDINGS
C03_BOUNDED = (FUNCTION_KEYWORD_COMMENT_WITNESSES[1:2] + JOIN_COMMENT_WITNESSES + HUNG_PAREN_COMMENT_WITNESSES + RETURN_TYPE_COMMENT_WITNESSES[1:] + D39_WITNESSES[3:] + LUAU_TYPE_FIX_WITNESSES[1:] + TABLE_COMMENT_WITNESSES + COND_COMMENT_WITNESSES + SEMI_COMMENT_WITNESSES + [x for x in COLLAPSE_WITNESSES if x["oracle"] == "comments"][:2]
               + PAREN_COMMENT_WITNESSES + REHANG_WITNESSES[:1] + SORT_COMMENT_WITNESSES + FIELD_COMMENT_WITNESSES + OPEN_C03_FINDINGS)
def nest(n, open_, close): return "local v = " + "".join(open_ for _ in range(n)) + "1" + "".join(close for _ in range(n)) + "\n"
TIME_WITNESSES = [dict(w(nest(24, "f({ ", " })"), oracle="parse"), time_limit=20), dict(w(nest(22, "f(", ")"), oracle="parse"), time_limit=20),
                  dict(w(nest(40, "{ ", " }"), oracle="parse"), time_limit=20), dict(w("local v = " + " + ".join(f"a{i}" for i in range(400)) + "\n", oracle="parse"), time_limit=20)]
def chain(n): return "local x = " + "".join("a:b(" for _ in range(n)) + "a" + "".join("):c()" for _ in range(n)) + "\n"
# D37 (open, known finding): every level of a method chain nested in the arguments of a method chain is formatted several times over
# (trial formats of format_function_call and of the argument heuristics): 150 bytes take minutes
D37_FINDING = [dict(w(chain(16), oracle="parse"), time_limit=10)]
C07_BOUNDED = [w('local f = function() goto x end\n::x::\nlocal function g()\n  goto x\nend\n', oracle="tree", syntax="lua52", collapse_simple_statement=c) for c in ("Always", "FunctionOnly")] + [x for x in COLLAPSE_WITNESSES if x["oracle"] == "tree"] + COLLAPSE_LUAU_WITNESSES + TIME_WITNESSES + [dict(w(chain(7), oracle="parse"), time_limit=20)] + D37_FINDING    # the replay tool reports a formatter panic as a violation

# corpus sweep (bounded stand-in): /repo/tests/inputs*/ under configurations and widths the snapshot tests do not use
CORPUS_CONFIGS_QUICK = [dict(), dict(collapse_simple_statement="Always", call_parentheses="None"),
                        dict(indent_type="Spaces", indent_width="3", line_endings="Windows", quote_style="ForceSingle", space_after_function_names="Always"), dict(sort_requires="true")]
CORPUS_WIDTHS_QUICK = [100, 50, 25, 10]
CORPUS_CONFIGS_C11 = [dict(call_parentheses="None"), dict(call_parentheses="NoSingleString"), dict(call_parentheses="NoSingleTable", collapse_simple_statement="Always"), dict(call_parentheses="Always")]
CORPUS_CONFIGS_C10 = [dict(), dict(line_endings="Windows", indent_type="Spaces", indent_width="3"), dict(indent_type="Spaces", indent_width="2", collapse_simple_statement="Always", call_parentheses="None"),
                      dict(line_endings="Windows", sort_requires="true", quote_style="ForceSingle"), dict(indent_type="Spaces", indent_width="1", space_after_function_names="Always")]
CORPUS_CONFIGS_C12 = [dict(sort_requires="true"), dict(sort_requires="true", call_parentheses="None", indent_type="Spaces")]
CORPUS_CONFIGS_THOROUGH = CORPUS_CONFIGS_QUICK + [dict(call_parentheses="Input", quote_style="AutoPreferSingle"), dict(call_parentheses="NoSingleTable", collapse_simple_statement="ConditionalOnly"),
                                                  dict(call_parentheses="NoSingleString", collapse_simple_statement="FunctionOnly", space_after_function_names="Definitions"), dict(indent_width="1", quote_style="ForceDouble", space_after_function_names="Calls")]
CORPUS_WIDTHS_THOROUGH = [1, 5, 10, 15, 20, 25, 30, 40, 50, 60, 70, 80, 90, 100, 110, 119, 120, 121, 140, 200]

IGNORE_CONFIGS = [dict(), dict(sort_requires="true", indent_type="Spaces", indent_width="2", collapse_simple_statement="Always")]
RANGE_CONFIGS_QUICK = [dict(), dict(indent_type="Spaces", indent_width="2", collapse_simple_statement="Always", call_parentheses="None")]
RANGE_CONFIGS_THOROUGH = RANGE_CONFIGS_QUICK + [dict(sort_requires="true", quote_style="ForceSingle")]

NOT_APPLICABLE = {
    "C06": "two-run relational property over the whole layout engine with a re-lex in between; no per-function contract expresses it (DESIGN.md §9)",
    "C16": "file selection is done by the ignore/globset crates and inline code of the 300-line format(); no function boundary carries the property (DESIGN.md §9)",
    "C19": "a schedule property of std atomics and a thread pool; Kani has no threads and Verus needs its own permission-carrying atomics which the real code does not use (DESIGN.md §9)",
}

# witnesses for unlabelled failures inside a function (failed proof step / precondition): by function name
GOTO_COLLAPSE_WITNESSES = [w('local f = function() goto x end\n::x::\nlocal function g()\n  goto x\nend\n', oracle="tree", syntax="lua52", collapse_simple_statement=c) for c in ("Always", "FunctionOnly")]
# an indented comment in front of `else` / `elseif` of a nested if, shallower and deeper than the statement, with an indent width of 0 (D49), 1 and 4
INDENT_FURTHER_SRC = 'do\n    if a then\n        b()\n  -- two columns in\n    elseif c then\n        d()\n            -- far in\n    else\n        e()\n    end\nend\n'
INDENT_FURTHER_WITNESSES = [w(INDENT_FURTHER_SRC, oracle="tree", indent_type=t, indent_width=n) for t in ("Spaces", "Tabs") for n in ("0", "1", "4")]
FN_WITNESSES = {"should_indent_further": INDENT_FURTHER_WITNESSES, "update_trivia": FEATURE_SET_WITNESSES, "block_contains_nested_function": GOTO_COLLAPSE_WITNESSES + COLLAPSE_LUAU_WITNESSES, "load": [cli("option_carriers")], "load_overrides": [cli("config_search"), cli("option_carriers")], "format_file": [cli("write_only_formatted_text"), cli("check_never_writes")],
                "format_string": [cli("stdin_stdout_only")], "create_diff": [cli("check_never_writes")], "output_diff_json": [cli("json_diff_reconstructs")],
                "load_configuration": [cli("config_search")], "find_config_file": [cli("config_search")], "search_config_locations": [cli("config_search")]}
