"""Which contract units decide which property; what is not decided; witness programs for replay."""

A = "x" * 0
def long(c, n): return c * n

PROPS = {
    "C05": dict(units=["expr"],
        explanation="The parenthesis rule has three implementations (single-line, hanging operand chains, hanging expression). "
                    "Each real function carries the same contract: operator tree preserved modulo redundant parentheses (calls/`...` keep theirs), "
                    "output re-parse-stable (every operand fits its position by the Lua/Luau precedence table written from the manuals), no `--`, "
                    "no type assertion / if-expression freed under an operator. Proved by induction on the real full_moon Expression enum for all "
                    "operators, nestings, widths (Shape is uninterpreted: both layout branches always explored) and both feature sets.",
        not_decided=["multi-line argument lists / assignment / return layouts call hang_expression and format_expression, whose contracts are proved here; "
                     "that those callers pass the expression they were given is part of C02's statement-level units"],
        assumptions=["wf(skel(input)) is assumed of every parsed input (parser guarantee): operator tokens match their variant, operands fit",
                     "leaf formatters (calls, tables, functions, vars, if-expressions, interpolated strings, type assertions) keep their identity (class C stubs)"]),
    "C08": dict(units=["ctx", "block", "lib"],
        explanation="should_format_node (real text): inside an ignore region or under a `stylua: ignore` directive the decision is Skip. "
                    "format_stmt / format_last_stmt: Skip => the node is returned unchanged. format_block (real loop, inductive invariant over the "
                    "peekable iterator): for every statement whose decision (under the context folded from the ignore start/end toggles) is Skip, the "
                    "output pair (statement, semicolon token) is identical to the input pair; same for the last statement.",
        not_decided=["the string matching that recognises the directive text inside a comment (comment.lines().map(trim) — str iterators): assumed as has_ignore()/toggled()",
                     "table fields (format_field / format_multiline_table) and require-sorting inside ignore regions: see units table / sort when present"],
        assumptions=["Block::stmts_with_semicolon / with_stmts / Peekable::next/peek behave as sequences (class A/B)"]),
    "C09": dict(units=["ctx", "block", "lib"],
        explanation="should_format_node (real text) returns NotInRange iff start < range.start or end > range.end for all positions and bounds. "
                    "format_stmt / format_last_stmt: NotInRange => only nested blocks may change (stmt_block::*, assumed). format_block: an out-of-range "
                    "statement keeps its semicolon token and trailing trivia (pair pushed as returned), in the same position.",
        not_decided=["in-range statements come out as in whole-file formatting (relates two runs)", "stmt_block::format_stmt_block touches only nested blocks (assumed, class C)"],
        assumptions=[]),
    "C02": dict(units=["expr", "block", "lib"],
        explanation="expression spine: same obligations as C05 (operator tree, leaves, operators)",
        not_decided=["statement/block/args/token layers are decided in their own units (see runs)"],
        assumptions=[]),
    "C01": dict(units=["expr", "block", "lib"],
        explanation="necessary conditions only: `- -x` guard on both paths, right-open expressions never freed under an operator",
        not_decided=["whole-grammar printer correctness"], assumptions=[]),
}

def w(src, oracle="tree", **kw):
    d = dict(src=src, oracle=oracle)
    opts = {k: v for k, v in kw.items() if k not in ("range", "contains", "sweep")}
    if opts: d["opts"] = opts
    for k in ("range", "contains", "sweep"):
        if k in kw: d[k] = kw[k]
    return d

a40, b53 = "a" * 40, "b" * 53
EXPR_WITNESSES = [
    w(f"local x = (-{a40}) ^ {b53}\n", sweep=(1, 200)),
    w(f"local y = - -{a40} + {b53}\n", sweep=(1, 200)),
    w(f"local y = -(-{a40}) + {b53}\n", sweep=(1, 200)),
    w("local x = ((-a)) ^ b\nlocal y = ((not a)) == b\nlocal z = -((-a))\n", sweep=(1, 200)),
    w(f"local x = -{a40} ^ ({b53} :: number) < {'c'*32}\n", syntax="luau", sweep=(1, 200)),
    w(f"local x = (-{a40} :: number) + {b53}\nlocal y = {a40} + (if c then {b53} else d) + e\n", syntax="luau", sweep=(1, 200)),
    w(f"local x = {a40} or {a40} + ({b53} --[[c]] :: T) < {'c'*32}\n", syntax="luau", sweep=(1, 200)),
    w(f"return ({a40}.f()) + (...), ({a40}()), (...)\n", sweep=(1, 200)),
    w("local a = (#t) ^ 2\nlocal b = (not x) ^ y\nlocal c = (-x) ^ 2\n", sweep=(1, 200)),
    w(f"local v = (-some.long.name.here.{a40}):method()\nlocal w = (not a.b.{a40}).field\n", sweep=(1, 200)),
    w(f"local v = (x.{a40} :: T).field\n", syntax="luau", sweep=(1, 200)),
    w(f"local t = ({a40} + {b53}) * ({a40} - ({b53} - {a40})) / (({a40}) ^ ({b53} ^ c)) .. (d .. e)\n", sweep=(1, 200)),
    w(f"local t = not ({a40} == {b53}) and (not {a40}) == {b53} or #({a40} .. {b53}) > 1\n", sweep=(1, 200)),
    w(f"local t = ({a40} << 2) | ({b53} & 3) ~ (~{a40} >> 1) // 2\n", syntax="lua54", sweep=(1, 200)),
]
IGN = "-- stylua: ignore\nlocal z   =   3; -- hi\n(f)()\n-- stylua: ignore\nlocal x   = 1;\nlocal y   = 2;\n-- stylua: ignore\nreturn   x;\n"
BLOCK_WITNESSES = [
    w(IGN, oracle="contains", contains="local z   =   3; -- hi\n(f)()\n"),
    w(IGN, oracle="contains", contains="local x   = 1;\n"),
    w(IGN, oracle="contains", contains="return   x;\n"),
    w("-- stylua: ignore start\nlocal a   =  1;\nlocal  b = 2; -- c\n-- stylua: ignore end\nlocal   c = 3;\n", oracle="contains", contains="local a   =  1;\nlocal  b = 2; -- c\n"),
    w("local a   = 1\nlocal x = 2; -- hi\n(f)()\n", oracle="contains", contains="local x = 2; -- hi\n(f)()\n", range=(0, 12)),
    w("local function f(x)\n\tif x then\n\t\t-- stylua: ignore start\n\t\treturn   lo ,  { 1,2,3 }\n\tend\n\tlocal   y   = 1\nend\n", oracle="contains", contains="return   lo ,  { 1,2,3 }"),
    w("\n\nreturn function( )\n\tlocal   x = 1\nend\n", oracle="contains", contains="\n\nreturn function( )\n", range=(22, 35)),
    w("\n\nlocal function setup( )\n\tlocal   x = 1\nend\n", oracle="contains", contains="\n\nlocal function setup( )\n", range=(27, 40)),
    w("local a = 1;\n(f)()\nf();\n(g).x = 1\nrepeat until x;\n(h)()\n", oracle="selfverify"),
    w("x += y;\n(f)()\nx -= 1;\n(g).y += 2\n", oracle="selfverify", syntax="luau"),
]
LIB_WITNESSES = [
    w("-- stylua: ignore\nlocal t = {\n   1,\n      2 }\nlocal   x = 1\n", oracle="contains", contains="local t = {\n   1,\n      2 }\n", line_endings="Windows"),
    w("local s = [[a\nb]]\nlocal   x = 1 -- c\n", oracle="selfverify"),
]
WITNESSES = {
    "C01.output_is_printed_ast": LIB_WITNESSES, "C01.verified": LIB_WITNESSES, "C12.sort_iff_enabled": LIB_WITNESSES, "C02.whole_ast": LIB_WITNESSES,
    "C08.": BLOCK_WITNESSES, "C09.": BLOCK_WITNESSES, "C01.semicolon": BLOCK_WITNESSES[-2:], "C01.next_starts": BLOCK_WITNESSES[-2:],
    "C05.": EXPR_WITNESSES,
    "C01.double_minus_guard": EXPR_WITNESSES[1:3],
}
