"""Which contract units decide which property; what is not decided; witness programs for replay."""

A = "x" * 0
def long(c, n): return c * n

PROPS = {
    "C05": dict(units=["expr"],
        explanation="The parenthesis rule has three implementations (single-line, hanging operand chains, hanging expression). "
                    "Each real function carries the same contract: operator tree preserved modulo redundant parentheses (calls/`...` keep theirs), "
                    "output re-parse-stable (every operand fits its position by the Lua/Luau precedence table written from the manuals), no `--`, "
                    "no type assertion / if-expression freed under an operator. Proved by induction on the real full_moon Expression enum for all "
                    "operators, nestings, widths (Shape is uninterpreted: both layout branches always explored) and both feature sets.",
        not_decided=["multi-line argument lists / assignment / return layouts call hang_expression and format_expression, whose contracts are proved here; "
                     "that those callers pass the expression they were given is part of C02's statement-level units"],
        assumptions=["wf(skel(input)) is assumed of every parsed input (parser guarantee): operator tokens match their variant, operands fit",
                     "leaf formatters (calls, tables, functions, vars, if-expressions, interpolated strings, type assertions) keep their identity (class C stubs)"]),
    "C02": dict(units=["expr"],
        explanation="expression spine: same obligations as C05 (operator tree, leaves, operators)",
        not_decided=["statement/block/args/token layers are decided in their own units (see runs)"],
        assumptions=[]),
    "C01": dict(units=["expr"],
        explanation="necessary conditions only: `- -x` guard on both paths, right-open expressions never freed under an operator",
        not_decided=["whole-grammar printer correctness"], assumptions=[]),
}

def w(src, oracle="tree", **kw):
    d = dict(src=src, oracle=oracle)
    opts = {k: v for k, v in kw.items() if k not in ("range", "contains", "sweep")}
    if opts: d["opts"] = opts
    for k in ("range", "contains", "sweep"):
        if k in kw: d[k] = kw[k]
    return d

a40, b53 = "a" * 40, "b" * 53
EXPR_WITNESSES = [
    w(f"local x = (-{a40}) ^ {b53}\n", sweep=(1, 200)),
    w(f"local y = - -{a40} + {b53}\n", sweep=(1, 200)),
    w(f"local y = -(-{a40}) + {b53}\n", sweep=(1, 200)),
    w("local x = ((-a)) ^ b\nlocal y = ((not a)) == b\nlocal z = -((-a))\n", sweep=(1, 200)),
    w(f"local x = -{a40} ^ ({b53} :: number) < {'c'*32}\n", syntax="luau", sweep=(1, 200)),
    w(f"local x = (-{a40} :: number) + {b53}\nlocal y = {a40} + (if c then {b53} else d) + e\n", syntax="luau", sweep=(1, 200)),
    w(f"local x = {a40} or {a40} + ({b53} --[[c]] :: T) < {'c'*32}\n", syntax="luau", sweep=(1, 200)),
    w(f"return ({a40}.f()) + (...), ({a40}()), (...)\n", sweep=(1, 200)),
    w(f"local t = ({a40} + {b53}) * ({a40} - ({b53} - {a40})) / (({a40}) ^ ({b53} ^ c)) .. (d .. e)\n", sweep=(1, 200)),
    w(f"local t = not ({a40} == {b53}) and (not {a40}) == {b53} or #({a40} .. {b53}) > 1\n", sweep=(1, 200)),
    w(f"local t = ({a40} << 2) | ({b53} & 3) ~ (~{a40} >> 1) // 2\n", syntax="lua54", sweep=(1, 200)),
]
WITNESSES = {
    "C05.": EXPR_WITNESSES,
    "C01.double_minus_guard": EXPR_WITNESSES[1:3],
}
