"""Small Rust source scanner used by the extractor: tokenises (strings, raw strings, chars,
lifetimes, nested block comments) and finds items / function parts by bracket matching.
Mechanical; knows nothing about StyLua."""
import re

class ExtractError(Exception):
    pass

IDENT_START = set("abcdefghijklmnopqrstuvwxyzABCDEFGHIJKLMNOPQRSTUVWXYZ_")
IDENT_CONT = IDENT_START | set("0123456789")

def scan(src):
    """yield (kind, start, end); kinds: ws, comment, str, char, lifetime, ident, num, punct"""
    i, n = 0, len(src)
    out = []
    while i < n:
        c = src[i]
        if c.isspace():
            j = i + 1
            while j < n and src[j].isspace():
                j += 1
            out.append(("ws", i, j)); i = j; continue
        if src.startswith("//", i):
            j = src.find("\n", i)
            j = n if j < 0 else j
            out.append(("comment", i, j)); i = j; continue
        if src.startswith("/*", i):
            depth, j = 1, i + 2
            while j < n and depth:
                if src.startswith("/*", j): depth += 1; j += 2
                elif src.startswith("*/", j): depth -= 1; j += 2
                else: j += 1
            out.append(("comment", i, j)); i = j; continue
        # raw strings / byte strings
        m = re.match(r'(b|c)?r(#*)"', src[i:i+40]) if c in "brc" else None
        if m:
            hashes = m.group(2)
            close = '"' + hashes
            j = src.find(close, i + m.end())
            if j < 0: raise ExtractError("unterminated raw string")
            j += len(close)
            out.append(("str", i, j)); i = j; continue
        if c == '"' or (c in "bc" and i + 1 < n and src[i+1] == '"'):
            j = i + (2 if c != '"' else 1)
            while j < n and src[j] != '"':
                j += 2 if src[j] == "\\" else 1
            j += 1
            out.append(("str", i, j)); i = j; continue
        if c == "'" or (c == "b" and i + 1 < n and src[i+1] == "'"):
            k = i + (1 if c == "b" else 0)
            # char literal or lifetime
            if k + 1 < n and src[k+1] == "\\":
                j = k + 2
                while j < n and src[j] != "'":
                    j += 1
                j += 1
                out.append(("char", i, j)); i = j; continue
            if k + 2 < n and src[k+2] == "'":
                out.append(("char", i, k + 3)); i = k + 3; continue
            # multi-byte char literal like '→'
            m2 = re.match(r"'[^'\\\n]'", src[k:k+8])
            if m2 and not (src[k+1] in IDENT_START and k + 2 < n and src[k+2] in IDENT_CONT):
                out.append(("char", i, k + m2.end())); i = k + m2.end(); continue
            j = k + 1
            while j < n and src[j] in IDENT_CONT:
                j += 1
            out.append(("lifetime", i, j)); i = j; continue
        if c in IDENT_START:
            j = i + 1
            while j < n and src[j] in IDENT_CONT:
                j += 1
            out.append(("ident", i, j)); i = j; continue
        if c.isdigit():
            j = i + 1
            while j < n and (src[j] in IDENT_CONT or (src[j] == "." and j + 1 < n and src[j+1].isdigit())):
                j += 1
            out.append(("num", i, j)); i = j; continue
        out.append(("punct", i, i + 1)); i += 1
    return out

OPEN = {"(": ")", "[": "]", "{": "}"}
CLOSE = {")", "]", "}"}

class Source:
    def __init__(self, text, path="<mem>"):
        self.text = text
        self.path = path
        self.toks = [t for t in scan(text)]
        self.code = [k for k, t in enumerate(self.toks) if t[0] not in ("ws", "comment")]
        # matching brackets over code tokens
        self.match = {}
        st = []
        for k in self.code:
            kind, a, b = self.toks[k]
            if kind != "punct": continue
            ch = text[a]
            if ch in OPEN: st.append(k)
            elif ch in CLOSE:
                if not st: raise ExtractError(f"{path}: unbalanced bracket at {a}")
                o = st.pop()
                self.match[o] = k; self.match[k] = o
        if st: raise ExtractError(f"{path}: unbalanced brackets")

    def s(self, k):
        return self.text[self.toks[k][1]:self.toks[k][2]]

    def line_of(self, pos):
        return self.text.count("\n", 0, pos) + 1

    # ---- item location -------------------------------------------------
    def _attr_start(self, ci):
        """given index into self.code of the first keyword token of an item, walk back over
        attributes (#[...]) and visibility/qualifiers; return char offset of the start"""
        code = self.code
        j = ci
        # walk back over qualifiers
        while j > 0 and self.s(code[j-1]) in ("pub", "const", "unsafe", "async", "default", "extern"):
            j -= 1
        # pub(crate)
        while True:
            if j > 0 and self.s(code[j-1]) == ")" and self.toks[code[j-1]][0] == "punct":
                o = self.match[code[j-1]]
                oi = code.index(o)
                if oi > 0 and self.s(code[oi-1]) == "pub":
                    j = oi - 1
                    continue
            break
        # attributes
        while j > 0 and self.s(code[j-1]) == "]":
            o = self.match[code[j-1]]
            oi = code.index(o)
            if oi > 0 and self.s(code[oi-1]) == "#":
                j = oi - 1
            else:
                break
        start = self.toks[code[j]][1]
        # include preceding doc comments (/// lines) directly above
        k = code[j] - 1
        while k >= 0 and self.toks[k][0] in ("ws", "comment"):
            if self.toks[k][0] == "comment" and self.text.startswith("///", self.toks[k][1]):
                start = self.toks[k][1]
            elif self.toks[k][0] == "comment":
                break
            k -= 1
        return start, j

    def _depth_container(self, ci):
        """return list of enclosing `{` token indices (code indices) for code index ci"""
        res = []
        code = self.code
        pos = self.toks[code[ci]][1]
        for o, c in self.match.items():
            if self.s(o) == "{" and self.toks[o][1] < pos < self.toks[c][1] and o < c:
                res.append(o)
        return sorted(res)

    def _header_of_brace(self, o):
        """text of the item header that owns brace token o (from previous ; or } or { to o)"""
        code = self.code
        oi = code.index(o)
        j = oi - 1
        depth = 0
        while j >= 0:
            s = self.s(code[j])
            if self.toks[code[j]][0] == "punct":
                if s in (")", "]", "}") and depth == 0 and s == "}":
                    break
                if s in CLOSE: depth += 1
                elif s in OPEN:
                    if depth == 0: break
                    depth -= 1
                elif s == ";" and depth == 0:
                    break
            j -= 1
        a = self.toks[code[j+1]][1]
        return self.text[a:self.toks[o][1]]

    def find_fn(self, name, impl_of=None, trait_of=None, nth=0):
        """locate `fn name`. impl_of: type name whose impl block must enclose it (e.g. 'Shape');
        trait_of: trait name in `impl Trait for Type` (or the `trait X` block itself if impl_of None).
        Returns dict(start, sig_start, body_open, body_close, end) char offsets."""
        code = self.code
        hits = []
        for ci, k in enumerate(code):
            if self.toks[k][0] == "ident" and self.s(k) == "fn" and ci + 1 < len(code) and self.s(code[ci+1]) == name:
                encl = self._depth_container(ci)
                hdrs = [self._header_of_brace(o) for o in encl]
                hdrs = [re.sub(r"\s+", " ", h).strip() for h in hdrs]
                hdrs = [re.sub(r"^(#\[[^\]]*\]\s*)+", "", h) for h in hdrs]
                if impl_of is None and trait_of is None:
                    if any(re.match(r"(pub(\([a-z]+\))? )?(unsafe )?(impl|trait)\b", h) for h in hdrs):
                        continue
                else:
                    ok = False
                    for h in hdrs:
                        m = re.match(r"(?:pub(?:\([a-z]+\))? )?(?:unsafe )?impl(?:<[^>]*>)? (?:(?P<tr>[\w:]+(?:<[^{]*?>)?) for )?(?P<ty>[^{]+?)(?: where .*)?$", h)
                        if m:
                            ty = m.group("ty").strip(); tr = (m.group("tr") or "").strip()
                            if (impl_of is None or re.sub(r"<.*", "", ty) == impl_of or ty == impl_of) and (trait_of is None or re.sub(r"<.*", "", tr) == trait_of):
                                if impl_of is not None and trait_of is None and tr:
                                    continue
                                ok = True
                        m = re.match(r"(?:pub(?:\([a-z]+\))? )?trait (\w+)", h)
                        if m and impl_of is None and trait_of == m.group(1):
                            ok = True
                    if not ok: continue
                hits.append(ci)
        if len(hits) <= nth:
            raise ExtractError(f"{self.path}: fn {name} (impl_of={impl_of}, trait_of={trait_of}) not found")
        if len(hits) > 1 and nth == 0 and impl_of is None and trait_of is None:
            # cfg-alternatives of the same fn are allowed; caller chooses nth
            pass
        ci = hits[nth]
        start, _ = self._attr_start(ci)
        # find body: first `{` at bracket depth 0 after fn, or `;`
        j = ci + 1
        while True:
            k = code[j]
            s = self.s(k)
            if self.toks[k][0] == "punct" and s in ("(", "["):
                j = code.index(self.match[k]) + 1; continue
            if self.toks[k][0] == "punct" and s == "{":
                bo = k; bc = self.match[k]
                return dict(start=start, kw=self.toks[code[ci]][1], body_open=self.toks[bo][1], body_close=self.toks[bc][1],
                            end=self.toks[bc][2])
            if self.toks[k][0] == "punct" and s == ";":
                return dict(start=start, kw=self.toks[code[ci]][1], body_open=None, body_close=None, end=self.toks[k][2])
            j += 1

    def count_fn(self, name, impl_of=None, trait_of=None):
        n = 0
        while True:
            try:
                self.find_fn(name, impl_of, trait_of, nth=n)
            except ExtractError:
                return n
            n += 1

    def find_item(self, kind, name, nth=0):
        """kind in struct/enum/trait/type/const/static/macro_rules/impl ; for impl name is the header regex"""
        code = self.code
        hits = []
        for ci, k in enumerate(code):
            if self.toks[k][0] != "ident": continue
            s = self.s(k)
            if kind == "macro_rules":
                if s == "macro_rules" and self.s(code[ci+1]) == "!" and self.s(code[ci+2]) == name:
                    hits.append(ci)
            elif kind == "impl":
                if s == "impl" and not self._depth_container(ci):
                    # header text up to {
                    j = ci
                    while not (self.toks[code[j]][0] == "punct" and self.s(code[j]) == "{"):
                        j += 1
                    hdr = re.sub(r"\s+", " ", self.text[self.toks[k][1]:self.toks[code[j]][1]]).strip()
                    if re.fullmatch(name, hdr):
                        hits.append(ci)
            elif s == kind and ci + 1 < len(code) and self.s(code[ci+1]) == name:
                hits.append(ci)
        if len(hits) <= nth:
            raise ExtractError(f"{self.path}: {kind} {name} not found")
        ci = hits[nth]
        start, _ = self._attr_start(ci)
        j = ci + 1
        while True:
            k = code[j]; s = self.s(k)
            if self.toks[k][0] == "punct" and s in ("(", "["):
                c = self.match[k]
                j = code.index(c) + 1
                continue
            if self.toks[k][0] == "punct" and s == "{":
                end = self.toks[self.match[k]][2]
                # tuple-struct / macro_rules may be followed by ;
                return start, end
            if self.toks[k][0] == "punct" and s == ";":
                return start, self.toks[k][2]
            j += 1

def find_matching(text, open_pos):
    """given text and the offset of an opening bracket, return offset of its match (token aware)"""
    src = Source(text)
    for k, t in enumerate(src.toks):
        if t[1] == open_pos:
            return src.toks[src.match[k]][1]
    raise ExtractError("no bracket at offset")
