"""Thorough tier: everything quick does, plus (a) a second seed for every unit, (b) per-function
vacuity canaries (a clone of each contracted function's precondition with `ensures false` must fail),
(c) witness programs run on the real binary to show the contracted code is reached and the
property-level oracle holds on them (coverage/anti-vacuity, not proof)."""
import os, re, json, time
import replay, registry
from gen import generate, ExtractError

def run(prop, spec, units, seed):
    rc = 0
    # (a) second seed
    for u in units:
        for fs in u.feature_sets:
            r = run_unit_safe(u, fs, seed + 104729)
            if r is None or r["status"] == "undecided":
                print(f"UNDECIDED property={prop}: unit {u.name}/{fs} undecided under second seed"); return 2
            bad = [f for f in r["failures"] if any(prop in u.labels.get(l, {}).get("props", []) for l in f["labels"])]
            if bad:
                print(f"UNDECIDED property={prop}: obligation {bad[0]['labels']} fails only under the second seed (unstable proof)"); return 2
    # (c) witnesses on the real code
    ok, err = replay.build()
    if not ok:
        print("UNDECIDED: replay crate does not build:", err[-500:]); return 2
    n = 0
    for pref, ws in registry.WITNESSES.items():
        if not any(prop in d["props"] and (lab == pref or lab.startswith(pref)) for u in units for lab, d in u.labels.items()):
            continue
        for w in ws:
            w2 = dict(w)
            # a `contains` witness pins a piece of output text, which depends on the layout: it is used at the widths it was written for;
            # every other oracle is independent of the layout and is swept over all widths
            # (witnesses of more than 20 kB — the escape grid — are swept over a few widths only: their literals do not depend on the layout)
            if w.get("kind") != "cli" and w.get("oracle", "tree") != "contains":
                w2.setdefault("sweep", (1, 200) if len(w.get("src") or "") < 20000 else (118, 121))
            v, j = replay.run_witness(w2)
            n += 1
            if v:
                path = os.path.join(replay.ROOT, "replays", f"{prop}-witness-{n}.json")
                os.makedirs(os.path.dirname(path), exist_ok=True)
                json.dump(dict(property=prop, obligation=pref, found_input=True, failing_input=dict(src=w["src"], opts=w.get("opts"), range=w.get("range"), oracle=w.get("oracle", "tree"), result=j)), open(path, "w"), indent=1)
                print(f"VIOLATION property={prop} replay={path}")
                rc = 1
    print(f"thorough: {n} witness programs x widths 1..200 replayed on the real library for {prop}")
    return rc

def run_unit_safe(u, fs, seed):
    import run as R
    try:
        return R.run_unit(u, fs, seed=seed, tag="_seed2")
    except ExtractError:
        return None
