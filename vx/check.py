#!/usr/bin/env python3
"""./check <PROPERTY> [--tier quick|thorough]   — decide one property with the contract units.

exit 0: every obligation of the property generated from /repo's current source was discharged
        (known findings are printed as KNOWN-FINDING lines)
exit 1: a labelled obligation failed logically under two seeds/rlimits -> `VIOLATION property=<id> replay=<path>`
exit 2: undecided (anchor lost, unsupported construct, type error, rlimit) — never an alarm
"""
import sys, os, json, time, importlib, hashlib, re, subprocess, argparse, concurrent.futures
HERE = os.path.dirname(os.path.abspath(__file__))
ROOT = os.path.dirname(HERE)
sys.path.insert(0, HERE)
sys.path.insert(0, os.path.join(ROOT, "units"))
import run
from gen import ExtractError, generate
import registry

def load_known():
    open_f, fixed = [], []
    p = os.path.join(ROOT, "known_findings.txt")
    if os.path.exists(p):
        for line in open(p):
            line = line.strip()
            if line.startswith("finding:"):
                m = re.match(r"finding:\s+property=(\S+)\s+label=(\S+)\s+fn=(\S+)\s*::\s*(.*)", line)
                if m:
                    open_f.append(dict(prop=m.group(1), label=m.group(2), fn=m.group(3), text=m.group(4)))
            elif line.startswith("fixed:"):
                fixed.append(line)
    return open_f, fixed

def main():
    ap = argparse.ArgumentParser()
    ap.add_argument("prop")
    ap.add_argument("--tier", default=os.environ.get("VERIF_TIER", "quick"))
    ap.add_argument("--replay", default=None)
    a = ap.parse_args()
    prop = a.prop
    tier = "thorough" if a.tier == "thorough" else "quick"
    seed = int(os.environ.get("VERIF_SEED", "0") or 0)
    t0 = time.time()
    if a.replay:
        return replay_file(a.replay)
    spec = registry.PROPS.get(prop)
    if spec is None:
        print(f"property {prop} is not claimed (see MANIFEST.not_applicable)")
        return 2
    units = [importlib.import_module(u).UNIT for u in spec["units"]]
    jobs = []
    for u in units:
        for fs in u.feature_sets:
            jobs.append((u, fs))
    results = []
    undecided_msgs = []

    def do(job):
        u, fs = job
        try:
            return run.run_unit(u, fs, seed=seed)
        except ExtractError as e:
            return dict(unit=u.name, fs=fs, status="undecided", extract_error=str(e), failures=[], undecided=[],
                        compile_errors=[dict(message="extraction: " + str(e), labels=[], fn=None, rendered="")],
                        functions={}, meta=None, wall_s=0, cmd="")
    with concurrent.futures.ThreadPoolExecutor(max_workers=min(8, len(jobs) or 1)) as ex:
        results = list(ex.map(do, jobs))

    # ---- Kani kernels attached to this property
    kani_results = []
    for k in spec.get("kani", []):
        import kani_run
        kani_results.append(kani_run.run(k, tier))

    label_props = {}
    for u in units:
        for lab, d in u.labels.items():
            label_props[(u.name, lab)] = d

    obligations, discharged = 0, 0
    samples, failed = [], []
    fn_count, fn_ok = 0, 0
    trusted = []
    solver_ms = 0
    for r in results:
        if r["status"] == "undecided":
            for e in r["compile_errors"] + r["undecided"]:
                undecided_msgs.append(f"[{r['unit']}/{r['fs']}] {e['message']} (fn={e.get('fn')}) {e.get('text','')[:120]}")
            continue
        meta = r["meta"]
        u = next(x for x in units if x.name == r["unit"])
        failing_labels = {}
        implied_props = {}
        for f in r["failures"]:
            labs = [l for l in f["labels"] if l != "VX.canary"]
            if not labs:
                labs = [f"{f['fn']}.total"]
                implied_props.setdefault(f"{f['fn']}.total", set()).update(p for l in f.get("implied_labels", []) for p in u.labels.get(l, {}).get("props", []))
            for l in labs:
                failing_labels.setdefault(l, []).append(f)
        # labelled obligations of this property
        for lab, lines in meta["label_lines"].items():
            if lab == "VX.canary":
                continue
            d = u.labels[lab]
            if prop not in d["props"]:
                continue
            obligations += 1
            if lab in failing_labels:
                failed.append(dict(unit=r["unit"], fs=r["fs"], label=lab, text=d["text"], diag=failing_labels[lab][0], res=r))
            else:
                discharged += 1
                if len(samples) < 6 and r["fs"] == u.feature_sets[-1]:
                    samples.append(dict(obligation=lab, unit=r["unit"], feature_set=r["fs"], statement=d["text"]))
        # implicit per-function obligations (panic-freedom, arithmetic, termination, callee preconditions): C07
        for fr in meta["verified"]:
            total_label = f"{fr['qual']}.total"
            if prop == "C07" or prop in fr.get("props", []) or prop in implied_props.get(total_label, ()):
                fn_count += 1
                obligations += 1
                if total_label in failing_labels:
                    failed.append(dict(unit=r["unit"], fs=r["fs"], label=total_label, text=f"{fr['qual']} ({fr['file']}): body obligations (no panic / overflow / non-termination / callee precondition / proof step); a failure here leaves the function's contract unestablished",
                                       diag=failing_labels[total_label][0], res=r))
                else:
                    discharged += 1; fn_ok += 1
        solver_ms += r.get("smt_ms") or 0
    # unlabelled failures in functions for properties other than C07 still make the unit's result unusable for
    # that function's labelled clauses? No: Verus reports each failed clause separately; an unrelated failure
    # elsewhere in the function does not invalidate discharged clauses.

    def run_bounded(violations, known):
        """bounded stand-ins of the property (independent of the verifier): appends to `violations`; returns (early exit code or None, runs, known findings hit)"""
        bounded_runs, known_bounded = [], []
        # ---- bounded stand-ins (clauses no contract within reach decides): CLI scenarios on the real binary.
        # Labelled bounded in the evidence and never counted as discharged obligations.
        if not violations:
            import replay
            bl = []
            corpus_specs, inject_specs, range_specs, ignore_specs = [], [], [], []
            for wsc in spec.get("bounded", []):
                if wsc.get("kind") == "lib":
                    bl.extend(getattr(registry, wsc["witnesses"]))
                elif wsc.get("kind") == "corpus":
                    corpus_specs.append(wsc)
                elif wsc.get("kind") == "inject":
                    inject_specs.append(wsc)
                elif wsc.get("kind") == "range":
                    range_specs.append(wsc)
                elif wsc.get("kind") == "ignore":
                    ignore_specs.append(wsc)
                else:
                    bl.append(wsc)
            if corpus_specs or inject_specs or range_specs or ignore_specs or any(x.get("kind") != "cli" for x in bl):
                okb, errb = replay.build()      # the replay crate is rebuilt from /repo's working tree
                if not okb:
                    print(f"UNDECIDED property={prop}: the replay crate does not build against the current tree: {errb[-300:]}")
                    return 2, bounded_runs, known_bounded
            # the repository's own test inputs under other configurations and column widths than the snapshots pin (bounded, labelled)
            for cs in corpus_specs:
                cfgs = getattr(registry, "CORPUS_CONFIGS_" + cs["configs"]) if cs.get("configs") else (registry.CORPUS_CONFIGS_THOROUGH if tier == "thorough" else registry.CORPUS_CONFIGS_QUICK)
                widths = registry.CORPUS_WIDTHS_THOROUGH if tier == "thorough" else registry.CORPUS_WIDTHS_QUICK
                try:
                    fails, stats = replay.run_corpus(cfgs, widths)
                except Exception as e:
                    print(f"UNDECIDED property={prop}: corpus sweep did not run: {e}")
                    return 2, bounded_runs, known_bounded
                mine = [f for f in fails if f["kind"] in cs["kinds"]]
                bounded_runs.append(dict(scenario=f"corpus sweep: {stats['files']} test inputs of the repository x {stats['configs']} configurations x column widths {widths} = {stats['runs']} runs; oracles {cs['kinds']}",
                                         violated=bool(mine), detail=f"{len(mine)} failing runs"))
                seen_c = set()
                for f in mine:
                    wid = "corpus:" + f["file"] + ":" + f["kind"] + ":" + hashlib.sha256(f["detail"].encode()).hexdigest()[:8]
                    if wid in seen_c: continue
                    seen_c.add(wid)
                    kf = next((k for k in known if k["prop"] == prop and k["label"] == "bounded:" + wid), None)
                    if kf:
                        print(f"KNOWN-FINDING: property={prop} bounded {wid} — {kf['text']}")
                        known_bounded.append(kf)
                        continue
                    wsc = dict(kind="corpusfile", file=(None if f["kind"] == "timeout" else f["file"]), opts=f["opts"], column_width=f["column_width"], fkind=f["kind"])
                    violations.append(dict(unit="cli", fs="-", label="bounded:" + wid, text="bounded corpus sweep (stand-in for formatters outside every contract)",
                                           diag=dict(message=f["detail"], fn="stylua_lib::format_code", rendered=json.dumps(f)[:3000]), res=None, scenario=wsc, scenario_result=f))
            # C09 range sweep: every statement of the repository's test inputs as the formatting range
            for cs in range_specs:
                try:
                    fails, stats = replay.run_corpus_range(registry.RANGE_CONFIGS_THOROUGH if tier == "thorough" else registry.RANGE_CONFIGS_QUICK, thorough=(tier == "thorough"))
                except Exception as e:
                    print(f"UNDECIDED property={prop}: range sweep did not run: {e}")
                    return 2, bounded_runs, known_bounded
                mine = [f for f in fails if f["kind"] in cs["kinds"]]
                bounded_runs.append(dict(scenario=f"range sweep: every statement ({'nested ones included' if tier == 'thorough' else 'top-level, nested ones in files up to 6000 bytes'}) of {stats['files']} test inputs as the formatting range x {stats['configs']} configurations = {stats['runs']} runs; "
                                                  "the output parses, has the same tree and the same comments as the input; the text in front of the statement's leading trivia and behind its last line is reproduced, blank lines in front of it are kept (capped at one)"
                                                  + f" — oracles of this property: {cs['kinds']}",
                                         violated=bool(mine), detail=f"{len(mine)} failing runs"))
                seen_c = set()
                for f in mine:
                    wid = "range:" + f["file"] + ":" + str(f["range"][0]) + "-" + str(f["range"][1]) + ":" + f["kind"]
                    if wid in seen_c: continue
                    seen_c.add(wid)
                    kf = next((k for k in known if k["prop"] == prop and k["label"] == "bounded:" + wid), None)
                    if kf:
                        print(f"KNOWN-FINDING: property={prop} bounded {wid} — {kf['text']}")
                        known_bounded.append(kf); continue
                    if len(seen_c) > 8: continue      # one replay file per distinct statement, at most eight
                    wsc = dict(kind="rangefile", file=f["file"], opts=f["opts"], range=f["range"])
                    violations.append(dict(unit="cli", fs="-", label="bounded:" + wid, text="bounded range sweep (stand-in: in-range / out-of-range behaviour of the statement formatters outside every contract)",
                                           diag=dict(message=f["detail"], fn="stylua_lib::format_code", rendered=json.dumps(f)[:3000]), res=None, scenario=wsc, scenario_result=f))
            # C08 ignore sweep: a directive above every statement, a region around every pair of neighbouring top-level statements
            for cs in ignore_specs:
                try:
                    fails, stats = replay.run_corpus_ignore(registry.IGNORE_CONFIGS, thorough=(tier == "thorough"))
                except Exception as e:
                    print(f"UNDECIDED property={prop}: ignore sweep did not run: {e}")
                    return 2, bounded_runs, known_bounded
                mine = [f for f in fails if f["kind"] in cs["kinds"] and cs.get("case_contains", "") in f["case"]]
                bounded_runs.append(dict(scenario=(f"ignore sweep, the cases with a range ({cs['case_contains']}): `-- stylua: ignore` above a statement and the formatting range set to a statement nested in it, over {stats['files']} test inputs x {stats['configs']} configurations; the directive wins: the ignored statement, which is not wholly inside the range, keeps its text" if cs.get("case_contains") else
                                         f"ignore sweep: `-- stylua: ignore` above every statement (alone, and with the formatting range set to a statement nested in the ignored one) and an ignore start/end region around every pair of neighbouring top-level statements of {stats['files']} test inputs x {stats['configs']} configurations = {stats['runs']} runs; the ignored source text appears verbatim in the output"),
                                         violated=bool(mine), detail=f"{len(mine)} failing runs"))
                seen_c = set()
                for f in mine:
                    wid = "ignore:" + f["file"] + ":" + f["case"] + ":" + f["kind"]
                    if wid in seen_c: continue
                    seen_c.add(wid)
                    kf = next((k for k in known if k["prop"] == prop and k["label"] == "bounded:" + wid), None)
                    if kf:
                        print(f"KNOWN-FINDING: property={prop} bounded {wid} — {kf['text']}")
                        known_bounded.append(kf); continue
                    if len(seen_c) > 8: continue
                    wsc = dict(kind="ignorefile", file=f["file"], opts=f["opts"], case=f["case"])
                    violations.append(dict(unit="cli", fs="-", label="bounded:" + wid, text="bounded ignore sweep (stand-in: statement formatters outside every contract must leave an ignored statement alone)",
                                           diag=dict(message=f["detail"], fn="stylua_lib::format_code", rendered=json.dumps(f)[:3000]), res=None, scenario=wsc, scenario_result=f))
            # comment-injection sweep (vx/inject.py): one comment at every token boundary of a fixed list of small programs
            for cs in inject_specs:
                import inject
                try:
                    fails, stats = inject.run(*((inject.CONFIGS_THOROUGH, inject.WIDTHS_THOROUGH) if tier == "thorough" else (None, None)))
                except Exception as e:
                    print(f"UNDECIDED property={prop}: comment-injection sweep did not run: {e}")
                    return 2, bounded_runs, known_bounded
                kinj = inject.load_known()
                mine = [f for f in fails if f["kind"] in cs["kinds"]]
                nk = 0
                for f in mine:
                    wid = "inject:" + f["key"]
                    if f["key"] in kinj:
                        nk += 1
                        print(f"KNOWN-FINDING: property={prop} injected comment {f['key']} ({f['kind']}): {json.dumps(f['src'])} — {kinj[f['key']][1][:160]}")
                        known_bounded.append(dict(prop=prop, label="bounded:" + wid, fn="*", text=kinj[f["key"]][1][:200]))
                        continue
                    oracle = {"parse": "parse", "tree": "tree", "comments": "comments", "literals": "literals"}.get(f["kind"], "parse")
                    wsc = dict(src=f["src"], oracle=oracle, opts=dict(f["opts"], syntax=f["syntax"], column_width=str(f["column_width"])))
                    violations.append(dict(unit="cli", fs="-", label="bounded:" + wid, text="bounded comment-injection sweep (stand-in for formatters outside every contract)",
                                           diag=dict(message=f["detail"], fn="stylua_lib::format_code", rendered=json.dumps(f)[:3000]), res=None, scenario=wsc, scenario_result=f))
                bounded_runs.append(dict(scenario=f"comment-injection sweep: {stats['inputs']} inputs (one comment at every token boundary of {len(inject.SNIPPETS)} small programs, 3 comment forms) x {stats['configs']} configurations x column widths {stats['widths']} = {stats['runs']} runs; oracles {cs['kinds']}",
                                         violated=len(mine) > nk, detail=f"{len(mine)} failing (input, oracle) pairs, {nk} of them listed in known_injections.txt"))
            for wsc in bl:
                try:
                    v, j = replay.run_witness(wsc)
                except Exception as e:
                    v, j = False, dict(error=str(e))
                wid = wsc.get("scenario") or ("lib:" + hashlib.sha256(json.dumps(wsc, sort_keys=True).encode()).hexdigest()[:10])
                det = j.get("detail") or j.get("error") or ""
                if not det and j.get("runs"): det = j["runs"][-1].get("detail", "")
                bounded_runs.append(dict(scenario=wsc.get("scenario") or ("library witness " + wid + ": " + (wsc.get("src") or "")[:60]), violated=v, detail=det))
                if v:
                    kf = next((k for k in known if k["prop"] == prop and k["label"] == "bounded:" + wid), None)
                    if kf:
                        print(f"KNOWN-FINDING: property={prop} bounded witness {wid} — {kf['text']}")
                        known_bounded.append(kf)
                        continue
                    violations.append(dict(unit="cli", fs="-", label="bounded:" + wid, text="bounded CLI scenario (stand-in for clauses outside every contract)",
                                           diag=dict(message=j.get("detail"), fn="stylua (binary)", rendered=json.dumps(j)[:3000]), res=None, scenario=wsc, scenario_result=j))
        spec["_bounded_runs"] = bounded_runs
        return None, bounded_runs, known_bounded

    if undecided_msgs:
        print(f"UNDECIDED property={prop}: the verifier could not be run to a verdict on the current tree:")
        for m in undecided_msgs[:20]:
            print("  " + m)
        # The verifier has no verdict. Before giving up, run the property's witness programs on the real library:
        # a witness whose property-level oracle fails is a demonstrated violation (bounded stand-in, labelled as such).
        import replay
        hit = replay.witness_sweep(prop, units, registry)
        write_evidence(prop, tier, seed, spec, results, kani_results, obligations, discharged, samples, [hit] if hit else [], t0,
                       note="undecided: " + "; ".join(undecided_msgs[:3]) + ("; a witness program failed on the real library (bounded stand-in)" if hit else ""), units=units)
        if hit:
            print(f"VIOLATION property={prop} replay={hit}")
            return 1
        # no registered witness fails: the bounded stand-ins do not need the verifier either
        known_u, _f = load_known()
        vio_u = []
        try:
            rcb, _br, _kb = run_bounded(vio_u, known_u)
        except Exception as e:
            print("  (bounded stand-ins did not run:", e, ")"); rcb = 2
        if vio_u:
            done = set()
            for f in vio_u:
                key = (f["unit"], f["label"])
                if key in done: continue
                done.add(key)
                path = replay.make_replay(prop, f, registry)
                print(f"VIOLATION property={prop} replay={path}" + ("" if replay.last_found_input else " no-failing-input-found"))
            write_evidence(prop, tier, seed, spec, results, kani_results, obligations, discharged, samples, vio_u, t0,
                           note="undecided: " + "; ".join(undecided_msgs[:3]) + "; a bounded stand-in failed on the real code", units=units)
            return 1
        return 2

    # ---- confirm failures under another seed and 4x rlimit (flaky proof => undecided, not a defect)
    confirmed = []
    for f in failed:
        u = next(x for x in units if x.name == f["unit"])
        try:
            r2 = run.run_unit(u, f["fs"], seed=seed + 7919, rlimit=u.rlimit * 4, tag="_confirm")
        except ExtractError as e:
            print("UNDECIDED", e); return 2
        # Verus stops after a few errors per function, and which clauses it names varies with the seed:
        # the confirmation criterion is "the same function still has a logical failure"
        fns2 = set(ff.get("fn") for ff in r2["failures"])
        if r2["status"] == "undecided" or f["diag"].get("fn") not in fns2:
            print(f"UNDECIDED property={prop}: obligation {f['label']} failed under seed {seed} but not under the confirmation run (flaky proof)")
            return 2
        confirmed.append(f)

    known, _fixed = load_known()
    violations, known_hits = [], []
    for f in confirmed:
        fn = f["diag"].get("fn") or "?"
        k = next((k for k in known if k["prop"] == prop and k["label"] == f["label"] and (k["fn"] == fn or k["fn"] == "*" or k["fn"] == f"{fn}@{f['fs']}")), None)
        if k:
            known_hits.append((f, k))
        else:
            violations.append(f)
    seen = set()
    for f, k in known_hits:
        key = (k["label"], k["fn"])
        if key in seen: continue
        seen.add(key)
        print(f"KNOWN-FINDING: property={prop} obligation {k['label']} in {k['fn']} — {k['text']}")
        discharged_adj = 0

    for kr in kani_results:
        obligations += kr["obligations"]; discharged += kr["discharged"]
        solver_ms += int(kr.get("ms", 0))
        samples.extend(kr.get("samples", [])[:3])
        if kr["status"] == "undecided":
            print(f"UNDECIDED property={prop}: kani harness set {kr['name']}: {kr.get('note')}")
            return 2
        for v in kr.get("violations", []):
            violations.append(dict(unit="kani:" + kr["name"], fs="-", label=v["harness"], text=v["text"], diag=dict(message=v["message"], fn=v["harness"], rendered=v.get("trace", "")), res=None, kani=v))

    rcb, bounded_runs, known_bounded = run_bounded(violations, known)
    if rcb is not None:
        return rcb

    rc = 0
    vcount = 0
    if violations:
        import replay
        done = set()
        for f in violations:
            key = (f["unit"], f["label"])
            if key in done: continue
            done.add(key)
            path = replay.make_replay(prop, f, registry)
            vcount += 1
            tail = "" if replay.last_found_input else " no-failing-input-found"
            print(f"VIOLATION property={prop} replay={path}{tail}")
        rc = 1
    write_evidence(prop, tier, seed, spec, results, kani_results, obligations, discharged, samples, violations, t0, units=units,
                   known=[k for _, k in known_hits] + known_bounded, solver_ms=solver_ms, fn_count=fn_count)
    if rc == 0:
        print(f"OK property={prop} tier={tier}: {discharged}/{obligations} obligations discharged "
              f"({len(results)} verus runs, {len(kani_results)} kani sets, {time.time()-t0:.1f}s)")
    if tier == "thorough" and rc == 0:
        import thorough
        rc = thorough.run(prop, spec, units, seed)
    return rc

def _load_bridges():
    """tools/bridge_links.py verifies, for every stub that names the unit proving it, that the stub's contract follows from the contract verified
    there; its result file is committed (bridges.json). It depends on the contracts only, not on /repo, so it is not re-run by every check."""
    try:
        return {(b["stub_unit"], b["function"], b["proved_in"]): b for b in json.load(open(os.path.join(ROOT, "bridges.json")))}
    except Exception:
        return {}
BRIDGES = _load_bridges()

def write_evidence(prop, tier, seed, spec, results, kani_results, obligations, discharged, samples, violations, t0, note="", units=(), known=(), solver_ms=0, fn_count=0):
    trusted, functions, holes = [], [], []
    per_run = []
    for r in results:
        meta = r.get("meta")
        if not meta: continue
        for fr in meta["verified"]:
            functions.append(f"{fr['file']}::{fr['qual']}")
        for st in meta["stubs"]:
            if st.get("proved_in"):
                b = BRIDGES.get((r["unit"], st["qual"], st["proved_in"]))
                if b and b["status"].startswith("bridged"):
                    trusted.append(f"contract used here follows from the one unit {st['proved_in']} verifies for this function ({b['status']}; bridge verified by tools/bridge_links.py, key {b.get('key')}): {st['file']}::{st['qual']}")
                elif b and b["status"].startswith("no contract"):
                    trusted.append(f"called without any assumption about its result (the function is under contract in unit {st['proved_in']}): {st['file']}::{st['qual']}")
                else:
                    trusted.append(f"assumed contract (class C stub; unit {st['proved_in']} verifies the function under a contract of its own, from which this one is not derived" + (f": {b['status'][:160]}" if b else "") + f"): {st['file']}::{st['qual']}")
            else:
                trusted.append(f"assumed contract (class C stub): {st['file']}::{st['qual']}")
        for e in meta["edits"]:
            holes.append(e)
        per_run.append(dict(unit=r["unit"], feature_set=r["fs"], status=r["status"], verus_verified=r.get("verified_count"),
                            verus_errors_incl_canary=r.get("error_count"), smt_ms=r.get("smt_ms"), wall_s=round(r.get("wall_s", 0), 2),
                            canary_rejected=r.get("canary_failed")))
    panic_sites = None
    if prop == "C07":
        panic_sites = count_panic_sites(results)
    # mechanical scan of generated files for assumptions
    scan = {}
    for r in results:
        p = r.get("path")
        if p and os.path.exists(p):
            t = open(p).read()
            for kw in ("external_body", "assume_specification", "assume(", "admit("):
                scan[kw] = max(scan.get(kw, 0), t.count(kw))
    trusted = sorted(set(trusted))
    trusted.append("Verus 0.2026.09.13 + Z3; rustc front end; the mechanical extractor vx (anchors must match exactly)")
    trusted.append("prelude/*.rs: assumed specifications of full_moon accessors/constructors (class A), std (class B), trivia traits (class C): counts by mechanical scan = " + json.dumps(scan))
    ev = dict(property_id=prop, tier=tier, seed=seed, level="proof",
              coverage=dict(obligations=obligations, discharged=discharged,
                            checker_cmd=(results[0]["cmd"] if results and results[0].get("cmd") else "verus <generated unit> --extern full_moon=<rlib> --output-json"),
                            trusted_base=trusted,
                            samples=samples or [dict(note="no obligation discharged on this run")],
                            functions_under_contract=sorted(set(functions)),
                            holes_wrappers_proxies=sorted(set(holes)),
                            runs=per_run, solver_ms=solver_ms,
                            kani=[dict(name=k["name"], status=k["status"], harnesses=k.get("harnesses"), bounded=k.get("bounded", False), note=k.get("note", "")) for k in kani_results],
                            not_decided=spec.get("not_decided", []),
                            panic_sites=panic_sites,
                            bounded_stand_ins=[dict(b, note="bounded: fixed scenario on the real binary; not counted as a discharged obligation") for b in spec.get("_bounded_runs", [])],
                            explanation=spec.get("explanation", ""),
                            known_findings=[f"{k['label']} in {k['fn']}: {k['text']}" for k in known]),
              assumptions=spec.get("assumptions", []) + ([note] if note else []),
              wall_s=round(time.time() - t0, 2), violations=len(violations))
    os.makedirs(os.path.join(ROOT, "evidence"), exist_ok=True)
    with open(os.path.join(ROOT, "evidence", f"{prop}.json"), "w") as f:
        json.dump(ev, f, indent=1)

def count_panic_sites(results):
    """panic-capable sites in /repo/src (outside #[cfg(test)] modules) and how many lie inside functions whose real text is verified"""
    import glob
    pat = re.compile(r"\b(panic!|unreachable!|assert!|assert_eq!|unimplemented!|todo!)|\.unwrap\(\)|\.expect\(")
    covered_fns = {}
    for r in results:
        meta = r.get("meta")
        if not meta: continue
        for fr in meta["verified"]:
            covered_fns.setdefault(fr["file"], set()).add((fr["name"], fr["repo_line"]))
    total = inside = 0
    from gen import source
    for path in sorted(glob.glob("/repo/src/**/*.rs", recursive=True)):
        rel = os.path.relpath(path, "/repo")
        text = open(path).read()
        cut = text.find("#[cfg(test)]")
        body = text if cut < 0 else text[:cut]
        ranges = []
        if rel in covered_fns:
            src = source(rel)
            for name, line in covered_fns[rel]:
                for nth in range(6):
                    try:
                        d = src.find_fn(name, None, None, nth) if True else None
                    except Exception:
                        break
                    if src.line_of(d["kw"]) == line:
                        ranges.append((d["start"], d["end"])); break
                else:
                    continue
        for m in pat.finditer(body):
            if "#[cfg(kani)]" in body[:m.start()] and "mod verif_kani" in body[:m.start()]: continue
            total += 1
            if any(a <= m.start() < b for a, b in ranges): inside += 1
    return dict(total_sites_in_src=total, inside_verified_functions=inside, rule="regex over /repo/src outside #[cfg(test)]: panic!/unreachable!/assert!/unwrap()/expect(")

def replay_file(path):
    import replay
    return replay.rerun(path)

if __name__ == "__main__":
    try:
        rc = main()
    except SystemExit:
        raise
    except BaseException as e:   # an internal error of the machinery is never an alarm
        import traceback
        traceback.print_exc()
        print(f"UNDECIDED: internal error of the checker: {e!r}")
        rc = 2
    sys.exit(rc)
