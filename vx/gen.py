"""Unit generator: extracts the real text of functions/items from /repo, splices contracts and
anchor-keyed edits, and assembles one Verus input file per unit and feature set.

Every transformation is insertion/replacement at a text anchor that must match exactly the
stated number of times; an anchor that does not match raises ExtractError (=> exit 2, undecided)."""
import hashlib, os, re
from rsx import Source, ExtractError, scan, find_matching

REPO = os.environ.get("VX_REPO", "/repo")

_src_cache = {}
def source(relpath):
    p = os.path.join(REPO, relpath)
    st = os.stat(p)
    key = (p, st.st_mtime_ns, st.st_size)
    if key not in _src_cache:
        _src_cache[key] = Source(open(p).read(), relpath)
    return _src_cache[key]

# ---------------------------------------------------------------- edits
class Edit:
    count = 1
    def describe(self): return self.__class__.__name__

class Hole(Edit):
    """replace exact text `old` by `new` (a hole / wrapper call); listed in the evidence with sha256(old)"""
    def __init__(self, old, new, count=1, why="", kind="hole", optional=False):
        self.old, self.new, self.count, self.why, self.kind, self.optional = old, new, count, why, kind, optional
    def apply(self, text, ctx):
        n = text.count(self.old)
        if (n == 0 and self.optional) or self.count is None:      # optional / "wherever it occurs": where the text the hole stands for is not there, the function is verified as it is written
            self.found = n
            return text.replace(self.old, self.new)
        if n != self.count:
            raise ExtractError(f"{ctx}: hole anchor matched {n}x (want {self.count}): {self.old[:70]!r}")
        return text.replace(self.old, self.new)
    def describe(self):
        return f"{self.kind}: {' '.join(self.old.split())[:90]} => {' '.join(self.new.split())[:60]} [sha256 {hashlib.sha256(self.old.encode()).hexdigest()[:12]}]" + (f" ({self.why})" if self.why else "")

class SplitOrGuards(Edit):
    """Verus rejects `A | B if g => body`: rewritten mechanically to `A if g => body, B if g => body` (the same guard and body text
    duplicated; Rust evaluates the guard after either alternative matched, so the meaning is unchanged). Applies to every match arm
    of the function whose pattern has a top-level `|` and a guard."""
    kind = "rewrite"
    def __init__(self):
        self.n = 0
    def apply(self, text, ctx):
        out, i = [], 0
        # an arm starts at a line start; pattern runs to ` if ` at depth 0, guard to `=>` at depth 0, body is a block or an expression up to `,`
        pat = re.compile(r"(?m)^(?P<ind>[ \t]+)(?P<pat>[A-Za-z_][^\n=]*\|[^\n=]*?)\n?\s+if\b")
        while True:
            m = pat.search(text, i)
            if not m: break
            g0 = m.end()
            depth, k = 0, g0
            while k < len(text) and not (depth == 0 and text.startswith("=>", k)):
                if text[k] in "([{": depth += 1
                elif text[k] in ")]}": depth -= 1
                k += 1
            guard = text[g0:k]
            b0 = k + 2
            while text[b0] in " \n\t": b0 += 1
            if text[b0] == "{":
                depth, e = 0, b0
                while True:
                    if text[e] == "{": depth += 1
                    elif text[e] == "}":
                        depth -= 1
                        if depth == 0: break
                    e += 1
                e += 1
                if text[e:e+1] == ",": e += 1
            else:
                depth, e = 0, b0
                while not (depth == 0 and text[e] == ","):
                    if text[e] in "([{": depth += 1
                    elif text[e] in ")]}": depth -= 1
                    e += 1
                e += 1
            body = text[b0:e].rstrip(",")
            alts = [a.strip() for a in m.group("pat").split("|")]
            arms = "".join(f"{m.group('ind')}{a} if{guard}=> {body},\n" for a in alts)
            out.append(text[i:m.start()]); out.append(arms.rstrip("\n"))
            i = e; self.n += 1
        out.append(text[i:])
        return "".join(out)
    def describe(self):
        return f"rewrite: {self.n} match arm(s) `A | B if g => e` split into one arm per alternative with the same guard and body (Verus does not accept an or-pattern with a guard)"

class HoistClosure(Edit):
    """`mac!(.., |x: T| BODY)` where the closure is the last argument of a macro_rules! invocation: the closure is bound to a local
    first (`let name = |x: T| -> (r: R) CONTRACT { BODY };  mac!(.., name)`), because Verus' closure contract syntax does not parse as
    a macro_rules `expr` fragment. The body text is unchanged; evaluation order is unchanged (a closure literal has no effect)."""
    kind = "rewrite"
    def __init__(self, macro_start, closure_head, ret, contract, name="hoisted_closure", why=""):
        self.macro_start, self.head, self.ret, self.contract, self.name, self.why = macro_start, closure_head, ret, contract, name, why
    def apply(self, text, ctx):
        if text.count(self.macro_start) != 1 or text.count(self.head) != 1:
            raise ExtractError(f"{ctx}: HoistClosure anchors matched {text.count(self.macro_start)}x / {text.count(self.head)}x")
        a = text.index(self.head)
        # the closure body runs to the `)` that closes the macro invocation: find it by bracket matching from the macro's `(`
        m0 = text.index(self.macro_start)
        k = text.index("(", m0); depth = 0; e = k
        while True:
            if text[e] in "([{": depth += 1
            elif text[e] in ")]}":
                depth -= 1
                if depth == 0: break
            e += 1
        body = text[a + len(self.head):e].rstrip()
        line_start = text.rfind("\n", 0, m0) + 1
        indent = text[line_start:m0]
        let = f"{indent}let {self.name} = {self.head.rstrip()} -> (r: {self.ret}) {self.contract} {{ {body} }};\n"
        return text[:line_start] + let + text[line_start:a] + self.name + text[e:]
    def describe(self):
        return f"rewrite: closure argument `{self.head.strip()} …` of `{self.macro_start.strip()} …` bound to a local `{self.name}` and given a contract ({self.why})"

class InlineHelper(Edit):
    """A call of a helper function that the unit does not know (typically: a change moved part of a function under contract into a
    new helper next to it) is replaced by the helper's body, mechanically:
        helper(a1, a2)   ==>   { let (p1, p2): (T1, T2) = (a1, a2); let vx_inlined: Ret = { <body of helper> }; vx_inlined }
    (arguments evaluated once, left to right, in the caller's scope, before the parameters are bound: the meaning of the call).
    Only helpers without generics, `return`, `?`, recursion or macros that could hide one of them are inlined; `self.helper(..)` is
    inlined when the helper takes `self` and the caller is a method of the same impl. Anything else raises ExtractError (undecided).
    The body then is verified as part of the caller, against the caller's contract."""
    kind = "rewrite"
    def __init__(self, file, name, impl_of=None):
        self.file, self.name, self.impl_of = file, name, impl_of
        src = source(file)
        d = src.find_fn(name, impl_of, None, 0)
        if d["body_open"] is None: raise ExtractError(f"{file}:{name}: no body to inline")
        sig = src.text[d["kw"]:d["body_open"]]
        self.body = src.text[d["body_open"]:d["end"]]
        self.sha = hashlib.sha256(self.body.encode()).hexdigest()[:12]
        ss = Source(sig)
        code = ss.code
        if ss.s(code[2]) != "(": raise ExtractError(f"{file}:{name}: generic helper, not inlined")
        close = ss.match[code[2]]
        params_text = sig[ss.toks[code[2]][2]:ss.toks[close][1]]
        rest = sig[ss.toks[close][2]:].strip()
        self.ret = rest[2:].strip() if rest.startswith("->") else None
        if self.ret and re.search(r"\bwhere\b|\bimpl\b", self.ret): raise ExtractError(f"{file}:{name}: return type not nameable, not inlined")
        self.params, self.takes_self = [], False
        for ptxt in _split_top(params_text, ","):
            ptxt = ptxt.strip()
            if not ptxt: continue
            if re.fullmatch(r"&?\s*(mut\s+)?self", ptxt):
                self.takes_self = True; continue
            parts = _split_top(ptxt, ":", first_only=True)
            if len(parts) != 2: raise ExtractError(f"{file}:{name}: parameter `{ptxt}` not understood")
            self.params.append((parts[0].strip(), parts[1].strip()))
        if re.search(r"\breturn\b", self.body):
            self.body = _eliminate_early_returns(self.body)
            self.returns_rewritten = True
        bs = Source(self.body)
        for k in bs.code:
            t = bs.s(k)
            if bs.toks[k][0] == "ident" and t in ("return", "await", "yield", name): raise ExtractError(f"{file}:{name}: `{t}` in the helper's body, not inlined")
            if bs.toks[k][0] == "punct" and t == "?": raise ExtractError(f"{file}:{name}: `?` in the helper's body, not inlined")
            if bs.toks[k][0] == "lifetime": raise ExtractError(f"{file}:{name}: lifetime / label in the helper's body, not inlined")
        self.n = 0
    def _site(self, text):
        s = Source(text); code = s.code
        for ci in range(len(code) - 2, -1, -1):
            k = code[ci]
            if s.toks[k][0] != "ident" or s.s(k) != self.name or s.s(code[ci + 1]) != "(": continue
            prev = s.s(code[ci - 1]) if ci > 0 else ""
            if prev == "fn": continue
            start = s.toks[k][1]
            if self.takes_self:
                if not (ci >= 2 and prev == "." and s.s(code[ci - 2]) == "self"): continue
                if ci >= 3 and s.s(code[ci - 3]) == ".": continue      # x.self? not a receiver we understand
                start = s.toks[code[ci - 2]][1]
            elif prev in (".", ":"):
                continue
            o = code[ci + 1]; c = s.match[o]
            return start, s.toks[c][2], text[s.toks[o][2]:s.toks[c][1]]
        return None
    def apply(self, text, ctx):
        for _ in range(64):
            site = self._site(text)
            if site is None: break
            a, b, argtext = site
            args = [x.strip() for x in _split_top(_no_comments(argtext), ",", exprs=True) if x.strip()]
            if len(args) != len(self.params): raise ExtractError(f"{ctx}: call of {self.name} with {len(args)} arguments, the helper has {len(self.params)} parameters")
            typed = not any(re.search(r"\bimpl\b", t) for _, t in self.params)
            if not args: bind = ""
            elif len(args) == 1: bind = f"let {self.params[0][0]}" + (f": {self.params[0][1]}" if typed else "") + f" = {args[0]}; "
            else: bind = "let (" + ", ".join(p for p, _ in self.params) + ")" + (": (" + ", ".join(t for _, t in self.params) + ")" if typed else "") + " = (" + ", ".join(args) + "); "
            res = f"let vx_inlined: {self.ret} = {self.body}; vx_inlined" if self.ret else self.body
            text = text[:a] + "{ " + bind + res + " }" + text[b:]
            self.n += 1
        return text
    returns_rewritten = False
    def describe(self):
        return (f"rewrite: {self.n} call(s) of the helper {self.file}::{self.name}, which the unit does not list, replaced by its body [sha256 {self.sha}] (arguments bound to the parameter names first"
                + ("; its early returns `if c { return v; } rest` / `let p = e else { return v; }; rest` rewritten to `if c { v } else { rest }` / `match e { p => { rest }, _ => v }`" if self.returns_rewritten else "") + ")")

def _eliminate_early_returns(block):
    """`{ stmts }` with early returns at statement level, rewritten without `return` (same value on every path):
         if C { return V; } REST                  ==>  if C { V } else { REST }
         let P = E else { return V; }; REST       ==>  match E { P => { REST }, _ => V }
       applied from the first such statement on, recursively to REST. Statements in front of them are kept. Any `return` in another
       position is left in place (the caller of this function then refuses to inline)."""
    s = Source(block); code = s.code
    assert s.s(code[0]) == "{" and s.match[code[0]] == code[-1]
    def tok(ci): return s.s(code[ci])
    def pos(ci): return s.toks[code[ci]]
    def ret_block(o_ci):
        """code index of `{` whose content is exactly `return [V] [;]` -> text of V, else None"""
        c_ci = code.index(s.match[code[o_ci]])
        if tok(o_ci + 1) != "return": return None
        end = c_ci - 1 if tok(c_ci - 1) == ";" else c_ci
        v = block[pos(o_ci + 1)[2]:pos(end)[1] if end != c_ci else pos(c_ci)[1]].strip()
        if end == c_ci: v = block[pos(o_ci + 1)[2]:pos(c_ci)[1]].strip()
        if re.search(r"\breturn\b", v) or ";" in _strip_nested(v): return None
        return v or "()"
    def rec(ci, end_ci):
        """text of the statements code[ci:end_ci] (inside the block), early returns rewritten"""
        start = ci
        while ci < end_ci:
            t = tok(ci)
            if t == "if":
                j = ci + 1
                while j < end_ci and tok(j) != "{":
                    j = code.index(s.match[code[j]]) + 1 if tok(j) in ("(", "[") else j + 1
                if j < end_ci:
                    close = code.index(s.match[code[j]])
                    v = ret_block(j)
                    if v is not None and not (close + 1 < end_ci and tok(close + 1) == "else"):
                        cond = block[pos(ci)[2]:pos(j)[1]].strip()
                        rest = rec(close + 1, end_ci)
                        return block[pos(start)[1]:pos(ci)[1]] + f"if {cond} {{ {v} }} else {{ {rest} }}"
            if t == "let":
                # let PAT = EXPR else { return V; };
                j, eq, els = ci + 1, None, None
                while j < end_ci and tok(j) != ";":
                    if tok(j) == "=" and eq is None and tok(j + 1) != "=": eq = j
                    if tok(j) == "else" and tok(j + 1) == "{": els = j
                    j = code.index(s.match[code[j]]) + 1 if tok(j) in ("(", "[", "{") else j + 1
                if eq is not None and els is not None and j < end_ci and code.index(s.match[code[els + 1]]) == j - 1:
                    v = ret_block(els + 1)
                    if v is not None:
                        pat = block[pos(ci)[2]:pos(eq)[1]].strip(); expr = block[pos(eq)[2]:pos(els)[1]].strip()
                        if ":" not in _strip_nested(pat):
                            rest = rec(j + 1, end_ci)
                            return block[pos(start)[1]:pos(ci)[1]] + f"match {expr} {{ {pat} => {{ {rest} }}, _ => {v} }}"
                ci = j + 1; continue
            # skip to the end of this statement: the next `;` at this level (block-like statements without one run on into the next)
            while ci < end_ci and tok(ci) != ";":
                ci = code.index(s.match[code[ci]]) + 1 if tok(ci) in ("(", "[", "{") else ci + 1
            ci += 1
        return block[pos(start)[1]:pos(end_ci)[1]] if start < end_ci else ""
    return "{ " + rec(1, len(code) - 1) + " }"

def _strip_nested(text):
    """text with the contents of brackets removed (to look for separators at the top level only)"""
    out, depth = [], 0
    for kind, a, b in scan(text):
        ch = text[a:b]
        if kind == "punct" and ch in "([{": depth += 1
        elif kind == "punct" and ch in ")]}": depth -= 1
        elif depth == 0: out.append(ch)
    return " ".join(out)

def _no_comments(text):
    return "".join(" " if kind == "comment" else text[a:b] for kind, a, b in scan(text))

def _split_top(text, sep, first_only=False, exprs=False):
    """split at `sep` outside brackets, angle brackets, strings and comments (`::` and `->` are not separators / brackets).
    exprs: the text is a list of expressions, where `<` opens angle brackets only as a turbofish `::<`"""
    toks = scan(text)
    out, depth, angle, last = [], 0, 0, 0
    for i, (kind, a, b) in enumerate(toks):
        if kind != "punct": continue
        ch = text[a]
        if ch in "([{": depth += 1
        elif ch in ")]}": depth -= 1
        elif ch == "<" and (not exprs or text[max(0, a - 2):a] == "::"): angle += 1
        elif ch == ">" and angle > 0 and not (a > 0 and text[a - 1] in "-="): angle -= 1
        elif ch == sep and depth == 0 and angle == 0:
            if sep == ":" and ((a + 1 < len(text) and text[a + 1] == ":") or (a > 0 and text[a - 1] == ":")): continue
            out.append(text[last:a]); last = b
            if first_only: break
    out.append(text[last:])
    return out

class Between(Edit):
    """replace the text from the first occurrence of `start` through the first occurrence of `end` after it
    (both inclusive) by `new`: a hole whose dropped text is identified by its two ends and its sha256"""
    def __init__(self, start, end, new, why="", kind="hole", pin=None):
        self.start, self.end, self.new, self.why, self.kind = start, end, new, why, kind
        self.sha = None
        self.pin = pin     # expected sha256 prefix of the dropped text: a change inside the hole is an anchor loss (exit 2), not a silent pass
    def apply(self, text, ctx):
        if text.count(self.start) != 1:
            raise ExtractError(f"{ctx}: Between start matched {text.count(self.start)}x: {self.start[:60]!r}")
        a = text.index(self.start)
        b = text.find(self.end, a + len(self.start))
        if b < 0:
            raise ExtractError(f"{ctx}: Between end not found: {self.end[:60]!r}")
        b += len(self.end)
        self.sha = hashlib.sha256(text[a:b].encode()).hexdigest()[:12]
        self.dropped = text[a:b]
        # a hole stands for a value; text that can leave the function (`return`, `?`) is more than that and is not dropped silently
        for kind, ta, tb in scan(self.dropped):
            if (kind == "ident" and self.dropped[ta:tb] == "return") or (kind == "punct" and self.dropped[ta:tb] == "?"):
                raise ExtractError(f"{ctx}: the text of the hole `{self.start[:40]} …` contains `{self.dropped[ta:tb]}`: control flow leaves the hole, its assumed contract does not describe it")
        if self.pin and self.pin != self.sha:
            raise ExtractError(f"{ctx}: text inside the hole `{self.start[:40]} …` changed (sha256 {self.sha}, pinned {self.pin}): its assumed contract no longer describes it")
        return text[:a] + self.new + text[b:]
    def describe(self):
        return f"{self.kind}: {' '.join(self.start.split())[:60]} … {' '.join(self.end.split())[:40]} => {' '.join(self.new.split())[:60]} [sha256 {self.sha}]" + (f" ({self.why})" if self.why else "")

class DropMacros(Edit):
    """delete every `name!( … );` statement for the given logging macros (DESIGN §3 rule 7)"""
    def __init__(self, names=("debug", "info", "warn", "trace")):
        self.names = names
        self.n = 0
    def apply(self, text, ctx):
        src = Source(text, ctx)
        code = src.code
        cuts = []
        for ci, k in enumerate(code):
            if src.toks[k][0] == "ident" and src.s(k) in self.names and ci + 2 < len(code) and src.s(code[ci+1]) == "!" and src.s(code[ci+2]) == "(":
                close = src.match[code[ci+2]]
                cj = code.index(close)
                end = src.toks[close][2]
                if cj + 1 < len(code) and src.s(code[cj+1]) == ";":
                    end = src.toks[code[cj+1]][2]
                cuts.append((src.toks[k][1], end))
        self.n = len(cuts)
        for a, b in sorted(cuts, reverse=True):
            text = text[:a] + text[b:]
        return text
    def describe(self):
        return f"logging macros dropped: {self.n} x {'/'.join(self.names)}!(..)"

class DebugAsserts(Edit):
    """`debug_assert!(c);` is written out as what it is in a debug build, `if !(c) { panic!() }`: the verifier then has to show that
    the assertion cannot fire (C07), instead of rejecting the macro"""
    kind = "rewrite"
    def __init__(self): self.n = 0
    def apply(self, text, ctx):
        src = Source(text, ctx); code = src.code; cuts = []
        for ci, k in enumerate(code):
            if src.toks[k][0] == "ident" and src.s(k) == "debug_assert" and ci + 2 < len(code) and src.s(code[ci+1]) == "!" and src.s(code[ci+2]) == "(":
                close = src.match[code[ci+2]]; cj = code.index(close)
                inner = text[src.toks[code[ci+2]][2]:src.toks[close][1]]
                cond = _split_top(inner, ",", exprs=True)[0].strip()
                end = src.toks[code[cj+1]][2] if cj + 1 < len(code) and src.s(code[cj+1]) == ";" else src.toks[close][2]
                cuts.append((src.toks[k][1], end, f"if !({cond}) {{ panic!(\"debug_assert\"); }}"))
        self.n = len(cuts)
        for a, b, new in sorted(cuts, reverse=True):
            text = text[:a] + new + text[b:]
        return text
    def describe(self): return f"rewrite: {self.n} x debug_assert!(c) written out as `if !(c) {{ panic!() }}`"

class InlineClosure(Edit):
    """`let NAME = || BLOCK;` (a closure without parameters, bound once) is removed and every call `NAME()` replaced by BLOCK: the
    block is evaluated where the closure was called, in the scope the closure captured by reference — the meaning of the calls.
    (Verus needs a contract on a closure to know anything about its result.)"""
    kind = "rewrite"
    def __init__(self, name): self.name, self.n = name, 0
    def apply(self, text, ctx):
        m = re.search(r"let\s+" + re.escape(self.name) + r"\s*=\s*\|\|\s*\{", text)
        if not m: raise ExtractError(f"{ctx}: closure `{self.name}` not found")
        src = Source(text, ctx)
        o = next(k for k in src.code if src.toks[k][1] == m.end() - 1)
        c = src.match[o]
        block = text[src.toks[o][1]:src.toks[c][2]]
        end = src.toks[c][2]
        m2 = re.match(r"\s*;", text[end:])
        if not m2: raise ExtractError(f"{ctx}: closure `{self.name}` is not bound by a plain let")
        rest = text[:m.start()] + text[end + m2.end():]
        self.n = len(re.findall(r"\b" + re.escape(self.name) + r"\(\)", rest))
        return re.sub(r"\b" + re.escape(self.name) + r"\(\)", lambda _: block, rest)
    def describe(self): return f"rewrite: closure `{self.name}` (no parameters) inlined at its {self.n} call(s)"

class After(Edit):
    """insert ghost/proof text after the anchor text. optional=True (proof hints only): a missing anchor skips the hint"""
    def __init__(self, anchor, ins, count=1, optional=False):
        self.anchor, self.ins, self.count, self.optional = anchor, ins, count, optional
    def apply(self, text, ctx):
        n = text.count(self.anchor)
        if n == 0 and self.optional:
            return text
        if n != self.count:
            raise ExtractError(f"{ctx}: After anchor matched {n}x (want {self.count}): {self.anchor[:70]!r}")
        return text.replace(self.anchor, self.anchor + "\n" + self.ins + "\n")
    def describe(self): return f"ghost-insert after: {' '.join(self.anchor.split())[:70]}"

class Before(Edit):
    def __init__(self, anchor, ins, count=1, optional=False):
        self.anchor, self.ins, self.count, self.optional = anchor, ins, count, optional
    def apply(self, text, ctx):
        n = text.count(self.anchor)
        if n == 0 and self.optional:
            return text
        if n != self.count:
            raise ExtractError(f"{ctx}: Before anchor matched {n}x (want {self.count}): {self.anchor[:70]!r}")
        return text.replace(self.anchor, "\n" + self.ins + "\n" + self.anchor)
    def describe(self): return f"ghost-insert before: {' '.join(self.anchor.split())[:70]}"

class Loop(Edit):
    """loop contract: `header` is the loop header text (up to, not including, its `{`).
    inv is spliced between header and `{`; step (ghost) is spliced at the end of the body and
    before every `continue` that belongs to this loop."""
    def __init__(self, header, inv, step=None, enter=None, nth=None):
        self.header, self.inv, self.step, self.enter, self.nth = header, inv, step, enter, nth   # enter: ghost text placed at the start of the body; nth: which occurrence of a header that occurs several times
    def apply(self, text, ctx):
        n = text.count(self.header)
        if (self.nth is None and n != 1) or (self.nth is not None and n <= self.nth):
            raise ExtractError(f"{ctx}: loop header matched {n}x: {self.header[:70]!r}")
        hstart = -1
        for _ in range((self.nth or 0) + 1):
            hstart = text.index(self.header, hstart + 1)
        hpos = hstart + len(self.header)
        src = Source(text, ctx)
        # first `{` token after header end
        ob = None
        for k in src.code:
            kind, a, b = src.toks[k]
            if a >= hpos and kind == "punct" and text[a] == "{":
                ob = k; break
        if ob is None or text[hpos:src.toks[ob][1]].strip():
            raise ExtractError(f"{ctx}: loop header not followed by a block")
        cb = src.match[ob]
        o_pos, c_pos = src.toks[ob][1], src.toks[cb][1]
        inserts = [(o_pos, "\n" + self.inv + "\n")]
        if self.enter:
            inserts.append((o_pos + 1, "\n" + self.enter + "\n"))
        if self.step:
            # a loop body's tail expression has type (): terminate it so the ghost step can follow
            prev = max((k for k in src.code if src.toks[k][1] < c_pos), default=None)
            sep = ""
            if prev is not None and text[src.toks[prev][1]:src.toks[prev][2]] not in (";", "}", "{"):
                sep = ";"
            inserts.append((c_pos, sep + "\n" + self.step + "\n"))
            # continues belonging to this loop: inside body, not inside a nested loop or closure
            nested = []
            code = src.code
            for ci, k in enumerate(code):
                kind, a, b = src.toks[k]
                if not (o_pos < a < c_pos): continue
                if kind == "ident" and text[a:b] in ("while", "for", "loop"):
                    # find its block
                    j = ci + 1
                    while j < len(code):
                        kk = code[j]
                        if src.toks[kk][0] == "punct" and text[src.toks[kk][1]] in "([":
                            j = code.index(src.match[kk]) + 1; continue
                        if src.toks[kk][0] == "punct" and text[src.toks[kk][1]] == "{":
                            nested.append((src.toks[kk][1], src.toks[src.match[kk]][1])); break
                        j += 1
            for k in code:
                kind, a, b = src.toks[k]
                if o_pos < a < c_pos and kind == "ident" and text[a:b] == "continue":
                    if any(x < a < y for x, y in nested): continue
                    inserts.append((a, "{ " + self.step + " } "))
        for pos, ins in sorted(inserts, reverse=True):
            text = text[:pos] + ins + text[pos:]
        return text
    def describe(self): return f"loop contract at: {' '.join(self.header.split())[:70]}"

# ---------------------------------------------------------------- items
DROP_ATTR = re.compile(r"#\[(cfg_attr|serde|wasm_bindgen|clap|structopt|error|must_use|allow|inline|doc|strum|non_exhaustive|deprecated)\b")
KEEP_DERIVES = ("Clone", "Copy", "PartialEq", "Eq", "Debug", "Default")

def clean_attrs(text, keep_derives=KEEP_DERIVES):
    """drop attributes Verus cannot take (serde/clap/wasm…), reduce derive lists. Mechanical."""
    src = Source(text)
    out, last = [], 0
    code = src.code
    ci = 0
    while ci < len(code):
        k = code[ci]
        if src.s(k) == "#" and ci + 1 < len(code) and src.s(code[ci+1]) == "[":
            ob = code[ci+1]; cb = src.match[ob]
            a, b = src.toks[k][1], src.toks[cb][2]
            attr = text[a:b]
            repl = attr
            if DROP_ATTR.match(attr):
                repl = ""
            else:
                m = re.match(r"#\[derive\((.*)\)\]$", attr, re.S)
                if m:
                    ds = [d.strip() for d in m.group(1).split(",") if d.strip()]
                    ds = [d for d in ds if d in keep_derives]
                    repl = f"#[derive({', '.join(ds)})]" if ds else ""
            out.append(text[last:a]); out.append(repl); last = b
            ci = code.index(cb) + 1
            continue
        ci += 1
    out.append(text[last:])
    return "".join(out)

def pubify_fields(text):
    """make struct fields pub (contracts on pub fns may not mention private fields)"""
    src = Source(text)
    # first top-level `{`
    ob = None
    for k in src.code:
        if src.toks[k][0] == "punct" and src.s(k) == "{":
            ob = k; break
    if ob is None: return text
    cb = src.match[ob]
    ins = []
    code = src.code
    oi, cj = code.index(ob), code.index(cb)
    j = oi + 1
    at_field_start = True
    while j < cj:
        k = code[j]; s = src.s(k)
        if src.toks[k][0] == "punct" and s in "([{":
            j = code.index(src.match[k]) + 1; at_field_start = False; continue
        if s == "#" and src.s(code[j+1]) == "[":
            j = code.index(src.match[code[j+1]]) + 1; continue
        if at_field_start and src.toks[k][0] == "ident":
            if s != "pub" and j + 1 < cj and src.s(code[j+1]) == ":":
                ins.append(src.toks[k][1])
            at_field_start = False
        if s == ",":
            at_field_start = True
        j += 1
    for pos in sorted(ins, reverse=True):
        text = text[:pos] + "pub " + text[pos:]
    return text

def pubify_item(text):
    m = re.search(r"(?m)^(\s*)(struct|enum|trait|fn|type|const|static|unsafe fn)\b", text)
    if m and not re.search(r"(?m)^\s*pub(\([a-z]+\))?\s+(struct|enum|trait|fn|type|const|static|unsafe)", text[:m.end()]):
        text = text[:m.start(2)] + "pub " + text[m.start(2):]
    return text

class Raw:
    """handwritten prelude text (spec vocabulary, assumed specs). Trusted; scanned for assumptions."""
    def __init__(self, text, module=""):
        self.text, self.module = text, module

class RawFile(Raw):
    def __init__(self, path, module=""):
        self.path = path
        self.text = open(os.path.join(os.path.dirname(os.path.dirname(os.path.abspath(__file__))), path)).read()
        self.module = module

class Item:
    """struct/enum/trait/type/const extracted verbatim from /repo (attributes cleaned, fields made pub)"""
    def __init__(self, file, kind, name, module=None, edits=(), nth=0, prefix_attrs="", keep_derives=KEEP_DERIVES):
        self.file, self.kind, self.name, self.edits, self.nth = file, kind, name, list(edits), nth
        self.module = module if module is not None else file_module(file)
        self.prefix_attrs = prefix_attrs
        self.keep_derives = keep_derives
    def render(self):
        src = source(self.file)
        a, b = src.find_item(self.kind, self.name, self.nth)
        text = src.text[a:b]
        line = src.line_of(a)
        text = clean_attrs(text, self.keep_derives)
        if self.kind == "struct":
            text = pubify_fields(text)
        if self.kind != "impl":
            text = pubify_item(text)
        for e in self.edits:
            text = e.apply(text, f"{self.file}:{self.kind} {self.name}")
        return self.prefix_attrs + text, line

class Fn:
    """a function of /repo. mode='verify': real body kept, contract spliced.
    mode='stub': real signature + assumed contract, body replaced (external_body)."""
    def __init__(self, file, name, contract="", ret="r", edits=(), mode="verify", impl_of=None, trait_of=None,
                 nth=0, module=None, sig_edits=(), in_trait_impl=False, props=(), note="", attrs="", proved_in=None,
                 impl_header=None, rlimit=None):
        self.file, self.name, self.contract, self.ret = file, name, contract, ret
        self.edits, self.mode, self.impl_of, self.trait_of, self.nth = list(edits), mode, impl_of, trait_of, nth
        self.module = module if module is not None else file_module(file)
        self.sig_edits = list(sig_edits)
        self.props = list(props)
        self.note = note
        self.attrs = attrs
        self.proved_in = proved_in     # unit that proves this stub's contract (modular, not trust)
        self.impl_header = impl_header # override for the enclosing impl header text
        self.rlimit = rlimit
    @property
    def qual(self):
        q = self.name
        if self.impl_of: q = f"{self.impl_of}::{q}"
        if self.trait_of: q = f"<{self.trait_of}>::{q}"
        return q
    def render(self):
        src = source(self.file)
        d = src.find_fn(self.name, self.impl_of, self.trait_of, self.nth)
        text = src.text
        ctx = f"{self.file}:{self.qual}"
        line = src.line_of(d["kw"])
        head = clean_attrs(text[d["start"]:d["kw"]])
        head = re.sub(r"(?m)^\s*///.*\n", "", head)
        if d["body_open"] is None:
            sig = text[d["kw"]:d["end"] - 1]
            body = None
        else:
            sig = text[d["kw"]:d["body_open"]]
            body = text[d["body_open"]:d["end"]]
        for e in self.sig_edits:
            sig = e.apply(sig, ctx + " (signature)")
        sig = name_return(sig, self.ret)
        head = re.sub(r"\bpub\([a-z]+\)", "pub", head)
        vis = ""
        if not self.trait_of and "pub" not in head.split():
            vis = "pub "
        contract = self.contract.strip("\n")
        if self.mode == "stub":
            out = f"{self.attrs}#[verifier::external_body]\n{head}{vis}{sig.rstrip()}\n{contract}\n{{ unimplemented!() }}\n"
            return out, line, None
        if body is None:
            raise ExtractError(f"{ctx}: no body")
        for e in self.edits:
            body = e.apply(body, ctx)
        out_head = f"{self.attrs}{head}{vis}{sig.rstrip()}\n{contract}\n"
        return out_head + body + "\n", line, out_head.count("\n")

class MacroImpl(Fn):
    """a trait impl that /repo writes as an invocation of a local macro_rules! macro whose whole expansion is
        impl <Trait> for $node { fn <method>(&self, $p1: FormatTriviaType, ...) -> Self { let $self = self; $body } }
    (define_update_trivia! and its two siblings in trivia.rs). Verus does not look into a macro invocation at item level, so the
    expansion is written out here, mechanically: parameters and body are the invocation's, the frame is the macro's. The macro's
    own definition is pinned by SHA-256 — a changed macro is a lost anchor (undecided), not a silently different expansion."""
    def __init__(self, file, macro, macro_sha, node, trait, method, nparams, contract="", edits=(), module=None, props=(), ret="r", rlimit=None, impl_attrs=""):
        Fn.__init__(self, file, method, contract=contract, ret=ret, edits=edits, impl_of=node, trait_of=trait, module=module, props=props, rlimit=rlimit)
        self.macro, self.macro_sha, self.node, self.nparams, self.impl_attrs = macro, macro_sha, node, nparams, impl_attrs
    def render(self):
        import hashlib
        src = source(self.file)
        text = src.text
        ctx = f"{self.file}:{self.macro}!({self.node})"
        a, b = src.find_item("macro_rules", self.macro)
        sha = hashlib.sha256(re.sub(r"\s+", " ", text[a:b]).encode()).hexdigest()[:16]
        if sha != self.macro_sha:
            raise ExtractError(f"{ctx}: the definition of {self.macro}! changed (sha {sha}, pinned {self.macro_sha}): the written-out expansion may no longer be what the macro produces")
        params = r"\s*,\s*".join([r"(\w+)"] * (self.nparams + 1))
        ms = list(re.finditer(r"(?m)^((?:#\[cfg[^\n]*\]\n)?)" + re.escape(self.macro) + r"!\(\s*" + re.escape(self.node) + r"\s*,\s*\|" + params + r"\|", text))
        if len(ms) != 1:
            raise ExtractError(f"{ctx}: invocation matched {len(ms)}x (want 1)")
        m = ms[0]
        op = text.index("(", m.start() + len(m.group(1)))
        cl = find_matching(text, op)
        body = text[m.end():cl].strip()
        names = m.groups()[1:]
        for e in self.edits:
            body = e.apply(body, ctx)
        line = src.line_of(m.start())
        sig = f"fn {self.name}(&self, " + ", ".join(f"{n}: FormatTriviaType" for n in names[1:]) + f") -> ({self.ret}: Self)"
        contract = self.contract.strip("\n")
        out_head = f"{sig}\n{contract}\n"
        if m.group(1).strip() != self.impl_attrs.strip():
            raise ExtractError(f"{ctx}: the cfg attribute of the invocation is {m.group(1).strip()!r}, the unit expects {self.impl_attrs.strip()!r}")
        return out_head + "{\n    let " + names[0] + " = self;\n    " + body + "\n}\n", line, out_head.count("\n")

def name_return(sig, ret):
    """`-> T` => `-> (ret: T)` at bracket depth 0 of the signature (after the parameter list)"""
    src = Source(sig)
    code = src.code
    j = 0
    arrow = None
    while j < len(code):
        k = code[j]; s = src.s(k)
        if src.toks[k][0] == "punct" and s in "([{":
            j = code.index(src.match[k]) + 1; continue
        if s == "-" and j + 1 < len(code) and src.s(code[j+1]) == ">":
            arrow = code[j+1]; break
        if s == "<":
            # skip generics: naive angle matching
            depth = 1; j += 1
            while j < len(code) and depth:
                t = src.s(code[j])
                if t == "<": depth += 1
                elif t == ">" and src.s(code[j-1]) != "-": depth -= 1
                j += 1
            continue
        j += 1
    if arrow is None:
        return sig
    a = src.toks[arrow][2]
    rest = sig[a:]
    # return type ends at `where` (depth 0) or end
    m = re.search(r"\bwhere\b", rest)
    if m:
        ty, tail = rest[:m.start()], rest[m.start():]
    else:
        ty, tail = rest, ""
    ty_s = ty.strip()
    if ty_s.startswith("(") and re.match(r"\(\s*\w+\s*:", ty_s):
        return sig
    return sig[:a] + f" ({ret}: {ty_s}) " + tail

def file_module(relpath):
    p = relpath
    if p.startswith("src/"): p = p[4:]
    p = p[:-3] if p.endswith(".rs") else p
    parts = p.split("/")
    if parts[-1] in ("mod", "lib", "main"): parts = parts[:-1]
    if parts and parts[0] == "cli": parts = parts[1:]
    return "::".join(parts)

# ---------------------------------------------------------------- unit
class Unit:
    def __init__(self, name, items, labels, macros=(), feature_sets=("default", "all"), header="", externs=("full_moon",),
                 module_header=None, witnesses=None, rlimit=30, notes=()):
        self.name, self.items, self.labels = name, items, labels
        self.macros = list(macros)          # (file, macro name) copied verbatim outside verus!
        self.feature_sets = feature_sets
        self.header = header                # crate-level `use` lines (outside verus!)
        self.externs = externs
        self.module_header = module_header
        self.witnesses = witnesses or {}
        self.rlimit = rlimit
        self.notes = list(notes)

LABEL_RE = re.compile(r"//#\s*([A-Za-z0-9_.\-]+)")

def generate(unit, canaries=True):
    """returns (text, meta). meta: labels{label: [lines]}, fnranges[(lo, hi, qual, file, repo_line, gen_sig_line)],
    edits[list of descriptions], stubs[list], raws"""
    mods = {}
    order = []
    for it in unit.items:
        m = it.module
        if m not in mods:
            mods[m] = []; order.append(m)
        mods[m].append(it)
    out = []
    out.append("#![allow(unused, non_snake_case, non_camel_case_types, unreachable_patterns, unexpected_cfgs, redundant_semicolons)]")
    out.append("// GENERATED by /verif/vx from /repo's working tree — do not edit")
    out.append("use vstd::prelude::*;")
    out.append(unit.header)
    for (f, mname) in unit.macros:
        src = source(f)
        a, b = src.find_item("macro_rules", mname)
        out.append(src.text[a:b])
    out.append("verus! {")
    meta = dict(edits=[], stubs=[], verified=[], fnranges=[], items=[])

    def emit(s):
        out.append(s)

    # nested module tree
    tree = {}
    for m in order:
        node = tree
        if m:
            for part in m.split("::"):
                node = node.setdefault(part, {})
        node.setdefault("__items__", []).extend(mods[m])

    def emit_items(items, depth):
        i = 0
        while i < len(items):
            it = items[i]
            if isinstance(it, Raw):
                emit(it.text); i += 1; continue
            if isinstance(it, Item):
                t, line = it.render()
                meta["items"].append(f"{it.file}:{line} {it.kind} {it.name}")
                for e in it.edits: meta["edits"].append(f"{it.file}:{it.kind} {it.name}: {e.describe()}")
                emit(t); i += 1; continue
            # Fn: group consecutive with same impl
            key = (it.impl_of, it.trait_of, it.impl_header)
            grp = [it]
            j = i + 1
            while key != (None, None, None) and j < len(items) and isinstance(items[j], Fn) and (items[j].impl_of, items[j].trait_of, items[j].impl_header) == key:
                grp.append(items[j]); j += 1
            if key != (None, None, None):
                hdr = it.impl_header or (f"impl {it.trait_of} for {it.impl_of}" if it.trait_of and it.impl_of else f"impl {it.impl_of}")
                emit(getattr(it, "impl_attrs", "") + hdr + " {")
                if getattr(it, "impl_items", ""): emit(it.impl_items)      # spec functions of the trait, defined for this impl (hand-written specification text)
            for f in grp:
                t, line, head_lines = f.render()
                idx = len(meta["fnranges"])
                emit(f"//@fn-begin {idx}")
                emit(t)
                emit(f"//@fn-end {idx}")
                rec = dict(lo=0, hi=0, qual=f.qual, file=f.file, repo_line=line, mode=f.mode, head_lines=head_lines,
                           module=f.module, props=f.props, proved_in=f.proved_in, name=f.name)
                meta["fnranges"].append(rec)
                if f.mode == "stub":
                    meta["stubs"].append(rec)
                else:
                    meta["verified"].append(rec)
                    for e in f.edits + f.sig_edits:
                        meta["edits"].append(f"{f.file}:{f.qual}: {e.describe()}")
            if key != (None, None, None):
                emit("}")
            i = j if key != (None, None, None) else i + 1

    allmods = [m for m in order if m]
    parents = set()
    for m in allmods:
        ps = m.split("::")
        for i in range(1, len(ps)):
            parents.add("::".join(ps[:i]))

    emit(" ".join(f"pub use crate::{m}::*;" for m in sorted(set(allmods) | parents)))

    def emit_tree(node, depth, path):
        if "__items__" in node and path:
            me = "::".join(path)
            hdr = ["use crate::*;"]
            for m in sorted(set(allmods) | parents):
                if m != me:
                    hdr.append(f"use crate::{m}::*;")
            emit(" ".join(hdr))
            if unit.module_header: emit(unit.module_header)
        if "__items__" in node:
            emit_items(node["__items__"], depth)
        for name, child in node.items():
            if name == "__items__": continue
            emit(f"pub mod {name} {{")
            emit_tree(child, depth + 1, path + [name])
            emit("}")

    emit_tree(tree, 0, [])
    if canaries:
        emit("pub proof fn vx_canary_must_fail() ensures false {} //# VX.canary")
    emit("} // verus!")
    emit("fn main() {}")
    text = "\n".join(out) + "\n"
    # label lines / function ranges
    labels = {}
    for ln, l in enumerate(text.split("\n"), 1):
        m = re.match(r"//@fn-(begin|end) (\d+)$", l)
        if m:
            meta["fnranges"][int(m.group(2))]["lo" if m.group(1) == "begin" else "hi"] = ln
        for m in LABEL_RE.finditer(l):
            labels.setdefault(m.group(1), []).append(ln)
    meta["label_lines"] = labels
    for lab in labels:
        if lab != "VX.canary" and lab not in unit.labels:
            raise ExtractError(f"unit {unit.name}: label {lab} used in a contract but not declared")
    for lab in unit.labels:
        if lab not in labels:
            raise ExtractError(f"unit {unit.name}: declared label {lab} does not occur in the generated file")
    return text, meta
