"""CLI-level witness scenarios: run the real stylua binary (built from /repo's working tree into
/verif/.build/cli-target) in a scratch directory and evaluate a property-level oracle."""
import shutil, os, subprocess, tempfile, shutil, json, hashlib
ROOT = os.path.dirname(os.path.dirname(os.path.abspath(__file__)))
TARGET = os.path.join(ROOT, ".build", "cli-target")
BIN = os.path.join(TARGET, "debug", "stylua")

def build():
    env = dict(os.environ, CARGO_NET_OFFLINE="true", CARGO_TARGET_DIR=TARGET)
    env.pop("RUSTUP_TOOLCHAIN", None)
    p = subprocess.run(["cargo", "build", "--offline", "--features", "luau,lua52,lua53,lua54,luajit"], cwd="/repo", env=env, capture_output=True, text=True)
    return p.returncode == 0, p.stderr[-2000:]

def run(args, cwd, stdin=None, env=None):
    p = subprocess.run([BIN] + args, cwd=cwd, input=stdin, capture_output=True, timeout=120, env=(dict(os.environ, **env) if env else None))
    return p.returncode, p.stdout, p.stderr

def fmt_ref(text, cwd, extra=()):
    """library output for `text` under the configuration found from cwd (stdin mode)"""
    rc, out, err = run(list(extra) + ["-"], cwd, stdin=text)
    return rc, out

UNFORMATTED = b"local   x   =  1\nlocal function f( a,b ) return a+b end\n"
FORMATTED = b"local x = 1\n"
BROKEN = b"local x = = 1\n"

def scenario(name):
    d = tempfile.mkdtemp(prefix="vxcli", dir=os.path.join(ROOT, ".build"))
    try:
        def w(rel, data):
            p = os.path.join(d, rel); os.makedirs(os.path.dirname(p), exist_ok=True); open(p, "wb").write(data); return p
        def r(rel): return open(os.path.join(d, rel), "rb").read()
        if name == "check_never_writes":
            w("a.lua", UNFORMATTED); w("b.lua", FORMATTED); w("c.lua", BROKEN)
            st = {f: os.stat(os.path.join(d, f)).st_mtime_ns for f in ("a.lua", "b.lua", "c.lua")}
            for fmt in ("Standard", "Unified", "Json", "Summary"):
                rc, out, err = run(["--check", "--output-format", fmt, "a.lua", "b.lua"], d)
                if r("a.lua") != UNFORMATTED or r("b.lua") != FORMATTED: return False, f"--check ({fmt}) modified a file"
                if any(os.stat(os.path.join(d, f)).st_mtime_ns != st[f] for f in st): return False, f"--check ({fmt}) touched a file"
                if rc != 1: return False, f"--check ({fmt}) with one unformatted file exited {rc}, expected 1"
                if fmt == "Summary":
                    listed = [l for l in out.decode(errors="replace").split("\n") if l.strip().endswith(".lua")]
                    if listed != ["a.lua"]: return False, f"summary lists {listed}, expected exactly a.lua"
                rc, out, err = run(["--check", "--output-format", fmt, "b.lua"], d)
                if rc != 0 or b".lua" in out or b"@@" in out or b"mismatches" in out: return False, f"--check ({fmt}) on a formatted file: exit {rc}, stdout {out!r}"
            for fmt in ("Standard", "Unified", "Json", "Summary"):
                for files in (["a.lua", "c.lua"], ["c.lua", "a.lua"], ["c.lua"]):
                    rc, out, err = run(["--check", "--output-format", fmt] + files, d)
                    if rc != 2: return False, f"--check --output-format {fmt} {' '.join(files)} (c.lua does not parse) exited {rc}, expected 2"
            if r("c.lua") != BROKEN: return False, "unparsable file modified"
            # "2 when any file could not be read, parsed or verified": a file that is not valid UTF-8, a path that does not exist, a file whose
            # formatted form fails --verify (its require order changes under --sort-requires) — in every output format, next to a formatted
            # and an unformatted file, in both orders (these failures travel through the logger, not through the parse-error branch)
            latin1 = b"local   s = 'caf\xe9'\n"; req = b'local b = require("b")\nlocal a = require("a")\n'
            w("l.lua", latin1); w("q.lua", req)
            for fmt in ("Standard", "Unified", "Json", "Summary"):
                for extra, files, what in (([], ["b.lua", "l.lua"], "l.lua is not valid UTF-8"), ([], ["l.lua", "a.lua"], "l.lua is not valid UTF-8"),
                                           ([], ["a.lua", "l.lua"], "l.lua is not valid UTF-8"), ([], ["b.lua", "missing.lua"], "missing.lua does not exist"),
                                           (["--verify", "--sort-requires"], ["q.lua", "b.lua"], "q.lua fails --verify"),
                                           (["--num-threads", "1"], ["b.lua", "l.lua", "a.lua"], "l.lua is not valid UTF-8")):
                    rc, out, err = run(["--check", "--output-format", fmt] + extra + files, d)
                    if rc != 2: return False, f"--check --output-format {fmt} {' '.join(extra + files)} ({what}) exited {rc}, expected 2"
                    if r("l.lua") != latin1 or r("q.lua") != req or r("a.lua") != UNFORMATTED: return False, f"--check ({fmt}) modified a file"
                    if os.path.exists(os.path.join(d, "missing.lua")): return False, f"--check ({fmt}) created a file"
            # a file that differs from its formatted form only in its line endings still differs
            w("crlf.lua", b"local x = 1\r\nlocal y = 2\r\n")
            for fmt in ("Standard", "Unified", "Json", "Summary"):
                rc, out, err = run(["--check", "--output-format", fmt, "crlf.lua"], d)
                if rc != 1: return False, f"--check --output-format {fmt} on a CRLF file (configured Unix) exited {rc}, expected 1"
            return True, ""
        if name == "write_only_formatted_text":
            w("a.lua", UNFORMATTED); w("b.lua", FORMATTED); w("c.lua", BROKEN); w("sub/d.lua", UNFORMATTED)
            rc0, ref = fmt_ref(UNFORMATTED, d)
            mt = os.stat(os.path.join(d, "b.lua")).st_mtime_ns
            rc, out, err = run(["a.lua", "b.lua", "c.lua", "sub"], d)
            if rc != 2: return False, f"exit {rc} with an unparsable file among the arguments, expected 2"
            if r("c.lua") != BROKEN: return False, "unparsable file was modified"
            if r("a.lua") != ref or r("sub/d.lua") != ref: return False, "a file was not replaced by exactly the library's output (or the other files were not processed)"
            if r("b.lua") != FORMATTED or os.stat(os.path.join(d, "b.lua")).st_mtime_ns != mt: return False, "an already formatted file was rewritten"
            w("v.lua", UNFORMATTED)
            rc, out, err = run(["--verify", "v.lua"], d)
            if rc != 0 or r("v.lua") != ref: return False, "--verify run did not write the formatted text"
            # a file that is not valid UTF-8 cannot be read: untouched, exit 2, the other file still formatted
            latin1 = b"local   s = 'caf\xe9'\n"
            w("l.lua", latin1); w("m.lua", UNFORMATTED)
            rc, out, err = run(["l.lua", "m.lua"], d)
            if r("l.lua") != latin1: return False, "a file that is not valid UTF-8 was rewritten"
            if rc != 2: return False, f"exit {rc} with an undecodable file, expected 2"
            if r("m.lua") != ref: return False, "the other file was not formatted"
            # a file that fails --verify keeps its bytes and the run exits 2 (here: require order changes under --sort-requires)
            req = b'local b = require("b")\nlocal a = require("a")\n'
            w("q.lua", req); w("m.lua", UNFORMATTED)
            rc, out, err = run(["--verify", "--sort-requires", "q.lua", "m.lua"], d)
            if r("q.lua") != req: return False, "a file that failed --verify was modified"
            if rc != 2: return False, f"exit {rc} although a file failed --verify, expected 2"
            if r("m.lua") != ref: return False, "the other file was not formatted when one failed --verify"
            return True, ""
        if name == "stdin_stdout_only":
            before = sorted(os.listdir(d))
            rc, out, err = run(["-"], d, stdin=UNFORMATTED)
            rc2, ref = fmt_ref(UNFORMATTED, d)
            if rc != 0 or out != ref: return False, "stdin output differs between two runs"
            if not out.startswith(b"local x = 1\n"): return False, f"stdin mode printed {out[:40]!r}"
            # every input gets its formatted text on stdout, also one that is formatted already (an editor formats on every save)
            for inp, extra in ((ref, []), (ref, ["--quote-style", "AutoPreferSingle"]), (ref, ["--stdin-filepath", "some/dir/x.lua"]),
                               (b"-- only a comment\n", []), (b"local s = 'q'\nreturn s\n", ["--quote-style", "ForceSingle"])):
                # reference: the same text formatted in file mode (written to a file, formatted in place, read back)
                fextra = [x for x in extra if x != "--stdin-filepath" and not x.endswith("x.lua")]
                w("_ref/in.lua", inp)
                rcf, _o, _e = run(fextra + ["_ref/in.lua"], d)
                want = r("_ref/in.lua")
                shutil.rmtree(os.path.join(d, "_ref"), ignore_errors=True)
                if rcf != 0: return False, f"file mode failed on the reference input: exit {rcf}"
                rc, out, err = run(extra + ["-"], d, stdin=inp)
                if rc != 0 or out != want: return False, f"stdin mode {' '.join(extra)} on {inp[:30]!r}: exit {rc}, {len(out)} bytes on stdout, the formatted text has {len(want)}"
            for fmt in ("Standard", "Unified", "Json", "Summary"):
                for extra in ([], ["--check"]):
                    rc, out, err = run(extra + ["--output-format", fmt, "-"], d, stdin=BROKEN)
                    hdr = fmt == "Summary"   # the summary header line is printed before any file is looked at
                    if rc != 2 or (out and not hdr) or b"unexpected" in out or b"parse" in out:
                        return False, f"parse error on stdin ({' '.join(extra)} --output-format {fmt}): exit {rc}, stdout {out!r}"
            bom = b"\xef\xbb\xbf" + UNFORMATTED
            rc, out, err = run(["-"], d, stdin=bom)
            rcl, outl = fmt_ref(bom, d)
            if (rc, out) != (rcl, outl): return False, "nondeterministic"
            if rc == 0 and not out.startswith(b"\xef\xbb\xbf"): return False, f"stdin mode dropped bytes of the input before formatting: {out[:20]!r}"
            w(".styluaignore", b"ignored/\n")
            rc, out, err = run(["--respect-ignores", "--stdin-filepath", "ignored/x.lua", "-"], d, stdin=UNFORMATTED)
            if rc != 0 or out != UNFORMATTED: return False, f"ignored stdin path not passed through unchanged: exit {rc}, {out[:40]!r}"
            rc, out, err = run(["--respect-ignores", "--stdin-filepath", "ignored/x.lua", "-"], d, stdin=bom)
            if rc != 0 or out != bom: return False, f"ignored stdin path (input with BOM) not passed through unchanged: exit {rc}, {out[:40]!r}"
            # ignore patterns of every form the ignore file knows: a glob, a re-included (negated) path, a directory below another, an anchored path
            w(".styluaignore", b"ignored/\n*.gen.lua\n!keep.gen.lua\n/top.lua\nvendor/**/x.lua\n")
            rc0, ref0 = fmt_ref(UNFORMATTED, d)
            for path, ignored in (("ignored/x.lua", True), ("a.gen.lua", True), ("sub/a.gen.lua", True), ("keep.gen.lua", False), ("sub/keep.gen.lua", False),
                                  ("top.lua", True), ("sub/top.lua", False), ("vendor/a/b/x.lua", True), ("vendor/a/y.lua", False), ("plain.lua", False)):
                rc, out, err = run(["--respect-ignores", "--stdin-filepath", path, "-"], d, stdin=UNFORMATTED)
                if rc != 0 or out != (UNFORMATTED if ignored else ref0):
                    return False, f"--respect-ignores --stdin-filepath {path} ({'ignored' if ignored else 'not ignored'} by .styluaignore): exit {rc}, stdout {out[:40]!r}"
                rc, out, err = run(["--stdin-filepath", path, "-"], d, stdin=UNFORMATTED)
                if rc != 0 or out != ref0: return False, f"--stdin-filepath {path} without --respect-ignores was not formatted"
            rc, out, err = run(["--check", "-"], d, stdin=UNFORMATTED)
            if rc != 1: return False, f"--check on unformatted stdin exited {rc}"
            after = sorted(x for x in os.listdir(d) if x != ".styluaignore")
            if after != before: return False, f"stdin mode created files: {after}"
            return True, ""
        if name == "json_diff_reconstructs":
            cases = [UNFORMATTED, b"local x = 1\n\n\n\nlocal y = 2\n", b"local t = {\n1,2,\n3}\nlocal u = 1\n", b"\n\n\nlocal x = 1", b"local x = 1\nlocal   y = 2\nlocal z = 3\n\n\n", b"f(  )\ng(  )\n\n\n\n\nh()\nlocal   q = {1,\n2}\n"]
            for i, c in enumerate(cases):
                w(f"j{i}.lua", c)
                rc0, ref = fmt_ref(c, d)
                rc, out, err = run(["--check", "--output-format", "Json", f"j{i}.lua"], d)
                if ref == c:
                    if out.strip(): return False, f"json diff printed for an already formatted file {c!r}"
                    continue
                try:
                    j = json.loads(out.decode())
                except Exception as e:
                    return False, f"json output not parsable for {c!r}: {out[:80]!r}"
                lines = c.decode().split("\n")
                # apply mismatches as line-range replacements, bottom-up
                ms = sorted(j["mismatches"], key=lambda m: -m["original_start_line"])
                for m in ms:
                    a, b = m["original_start_line"], m["original_end_line"]   # 0-based, inclusive
                    new = m["expected"].split("\n")
                    if new and new[-1] == "": new = new[:-1]
                    if m["original"] == "" and m["expected"] != "":
                        lines[a:a] = new          # pure insertion before line index a
                    else:
                        lines[a:b + 1] = new
                got = "\n".join(lines)
                if got.rstrip("\n") != ref.decode().rstrip("\n"):
                    return False, f"applying the JSON mismatches to {c!r} gives {got!r}, formatted text is {ref!r}"
            return True, ""
        if name == "unified_diff_reconstructs":
            if not shutil.which("patch"): return True, "patch(1) not available"
            for i, c in enumerate([UNFORMATTED, b"local x = 1\n\n\n\nlocal y = 2\n", b"local t = {\n1,2,\n3}\nlocal u = 1\n"]):
                w(f"u{i}.lua", c)
                rc0, ref = fmt_ref(c, d)
                rc, out, err = run(["--check", "--output-format", "Unified", f"u{i}.lua"], d)
                p = subprocess.run(["patch", "-s", f"u{i}.lua"], cwd=d, input=out, capture_output=True)
                if r(f"u{i}.lua") != ref: return False, f"patch(1) applied to the unified diff of {c!r} does not give the formatted text"
            return True, ""
        if name == "config_search":
            body = b"do\nlocal x = 1\nend\n"
            def indent_of(data):
                line = data.split(b"\n")[1]
                return len(line) - len(line.lstrip(b" \t")), line[:1]
            w("stylua.toml", b'indent_type = "Spaces"\nindent_width = 2\n[sort_requires]\nenabled = true\n')
            w("sub/.stylua.toml", b'indent_type = "Spaces"\nindent_width = 8\n')
            w("a.lua", body); w("sub/b.lua", body); w("sub/deep/c.lua", body)
            w("req.lua", b'local b = require("b")\nlocal a = require("a")\n')
            rc, out, err = run(["."], d)
            if rc != 0: return False, f"exit {rc}: {err[:200]!r}"
            got = (indent_of(r("a.lua"))[0], indent_of(r("sub/b.lua"))[0], indent_of(r("sub/deep/c.lua"))[0])
            if got != (2, 8, 8): return False, f"indent widths (cwd file, nested config, below nested config) = {got}, expected (2, 8, 8)"
            if not r("req.lua").startswith(b'local a'): return False, "sort_requires enabled in stylua.toml was not applied without --sort-requires"
            w("a.lua", body); w("sub/b.lua", body)
            rc, out, err = run(["--indent-width", "3", "a.lua", "sub/b.lua"], d)
            got = (indent_of(r("a.lua"))[0], indent_of(r("sub/b.lua"))[0])
            if got != (3, 3): return False, f"--indent-width 3 gives {got}"
            w("other/cfg.toml", b'indent_type = "Spaces"\nindent_width = 5\n'); w("sub/b.lua", body)
            rc, out, err = run(["--config-path", "other/cfg.toml", "sub/b.lua"], d)
            if indent_of(r("sub/b.lua"))[0] != 5: return False, "--config-path not used"
            # editorconfig fallback is per file, not per directory
            e = os.path.join(d, "ec"); os.makedirs(e)
            w("ec/.editorconfig", b"root = true\n[*.lua]\nindent_style = space\nindent_size = 2\n[*_spec.lua]\nindent_size = 6\n")
            for order in (["x.lua", "x_spec.lua"], ["x_spec.lua", "x.lua"]):
                w("ec/x.lua", body); w("ec/x_spec.lua", body)
                rc, out, err = run(order, e)
                got = (indent_of(r("ec/x.lua"))[0], indent_of(r("ec/x_spec.lua"))[0])
                if got != (2, 6): return False, f".editorconfig sections for x.lua / x_spec.lua given as {order}: indents {got}, expected (2, 6)"
            w("ec/x.lua", body)
            rc, out, err = run(["--no-editorconfig", "x.lua"], e)
            if indent_of(r("ec/x.lua")) != (1, b"\t"): return False, "--no-editorconfig did not fall back to the defaults"
            # --search-parent-directories: after the walk to the root, $XDG_CONFIG_HOME, $XDG_CONFIG_HOME/stylua, $HOME/.config, $HOME/.config/stylua in
            # that order; every subset of the four places holding a configuration (indent widths 4..7 tell them apart), XDG_CONFIG_HOME set, set to a
            # directory that does not exist, and unset. (The scratch directory lies under /verif/.build: no stylua.toml above it.)
            places = ["xdg", "xdg/stylua", "home/.config", "home/.config/stylua"]
            d2 = tempfile.mkdtemp(prefix="vxcli-sp", dir=os.path.join(ROOT, ".build"))   # a sibling of d: d itself holds a stylua.toml
            for mask in range(16):
                for xdg_mode in ("set", "missing", "unset"):
                    base = os.path.join(d2, f"sp{mask}{xdg_mode}"); os.makedirs(os.path.join(base, "work"))
                    for k, pl in enumerate(places):
                        os.makedirs(os.path.join(base, pl), exist_ok=True)
                        if mask >> k & 1: open(os.path.join(base, pl, "stylua.toml" if k % 2 == 0 else ".stylua.toml"), "wb").write(b'indent_type = "Spaces"\nindent_width = %d\n' % (4 + k))
                    open(os.path.join(base, "work", "f.lua"), "wb").write(body)
                    env = {"HOME": os.path.join(base, "home"), "XDG_CONFIG_HOME": os.path.join(base, "xdg" if xdg_mode == "set" else "nowhere")}
                    if xdg_mode == "unset": env = {"HOME": env["HOME"]}; 
                    envp = dict(os.environ); envp.pop("XDG_CONFIG_HOME", None); envp.update(env)
                    p = subprocess.run([BIN, "--no-editorconfig", "--search-parent-directories", "f.lua"], cwd=os.path.join(base, "work"), capture_output=True, timeout=120, env=envp)
                    visible = [k for k in range(4) if mask >> k & 1 and (k >= 2 or xdg_mode == "set")]
                    want = (4 + visible[0], b" ") if visible else (1, b"\t")
                    got = indent_of(open(os.path.join(base, "work", "f.lua"), "rb").read())
                    if p.returncode != 0 or got != want:
                        shutil.rmtree(d2, ignore_errors=True)
                        return False, f"--search-parent-directories with configurations in {[places[k] for k in range(4) if mask >> k & 1]} (XDG_CONFIG_HOME {xdg_mode}): exit {p.returncode}, indent {got}, expected {want}"
                    # without the flag none of them is looked at
                    open(os.path.join(base, "work", "f.lua"), "wb").write(body)
                    p = subprocess.run([BIN, "--no-editorconfig", "f.lua"], cwd=os.path.join(base, "work"), capture_output=True, timeout=120, env=envp)
                    if indent_of(open(os.path.join(base, "work", "f.lua"), "rb").read()) != (1, b"\t"):
                        shutil.rmtree(d2, ignore_errors=True)
                        return False, "a configuration under $XDG_CONFIG_HOME / $HOME was used without --search-parent-directories"
            shutil.rmtree(d2, ignore_errors=True)
            return True, ""
        if name == "option_carriers":
            src = (b"local s = 'a' .. \"b\" .. 'it\\'s'\nlocal b = require('b')\nlocal a = require('a')\n"
                   b"function f(x) if x then if x then call_some_function(argument_one, argument_two) cf(argument_one, argument2) end end end\n"
                   b"if x then return end\nlocal t = f 'x'\nlocal u = g { 1 }\n")
            table = [   # (name, toml, flags, editorconfig)
                ("column_width", 'column_width = 40\n', ["--column-width", "40"], "max_line_length = 40\n"),
                ("line_endings", 'line_endings = "Windows"\n', ["--line-endings", "Windows"], "end_of_line = crlf\n"),
                ("spaces3", 'indent_type = "Spaces"\nindent_width = 3\n', ["--indent-type", "Spaces", "--indent-width", "3"], "indent_style = space\nindent_size = 3\n"),
                ("tabs8_w40", 'indent_type = "Tabs"\nindent_width = 8\ncolumn_width = 40\n', ["--indent-type", "Tabs", "--indent-width", "8", "--column-width", "40"], "indent_style = tab\nindent_size = 8\nmax_line_length = 40\n"),
                ("quote_single", 'quote_style = "AutoPreferSingle"\n', ["--quote-style", "AutoPreferSingle"], "quote_type = single\n"),
                ("call_none", 'call_parentheses = "None"\n', ["--call-parentheses", "None"], "call_parentheses = None\n"),
                ("call_nosinglestring", 'call_parentheses = "NoSingleString"\n', ["--call-parentheses", "NoSingleString"], "call_parentheses = NoSingleString\n"),
                ("collapse_always", 'collapse_simple_statement = "Always"\n', ["--collapse-simple-statement", "Always"], "collapse_simple_statement = Always\n"),
                ("sort_requires", '[sort_requires]\nenabled = true\n', ["--sort-requires"], "sort_requires = true\n"),
                ("space_always", 'space_after_function_names = "Always"\n', ["--space-after-function-names", "Always"], "space_after_function_names = Always\n"),
            ]
            for nm, toml, flags, ec in table:
                outs = {}
                for carrier in ("toml", "flag", "editorconfig"):
                    sub = os.path.join(d, nm + "_" + carrier); os.makedirs(sub)
                    open(os.path.join(sub, "x.lua"), "wb").write(src)
                    args = ["x.lua"]
                    if carrier == "toml": open(os.path.join(sub, "stylua.toml"), "w").write(toml)
                    elif carrier == "flag": args = ["--no-editorconfig"] + flags + args
                    else: open(os.path.join(sub, ".editorconfig"), "w").write("root = true\n[*.lua]\n" + ec)
                    rc, out, err = run(args, sub)
                    if rc != 0: return False, f"{nm} via {carrier}: exit {rc}: {err[:160]!r}"
                    outs[carrier] = open(os.path.join(sub, "x.lua"), "rb").read()
                if not (outs["toml"] == outs["flag"] == outs["editorconfig"]):
                    bad = "editorconfig" if outs["toml"] == outs["flag"] else "flag/toml"
                    return False, f"option {nm}: the three carriers do not give byte-identical output ({bad} differs)"
                if outs["toml"] == src: return False, f"option {nm}: no effect"
            for nm, toml in [("unknown_key", "colum_width = 40\n"), ("unknown_nested_key", "[sort_requires]\nenable = true\n"), ("nested_extra_key", "[sort_requires]\nenabled = true\nfoo = 1\n"),
                             ("invalid_value", 'quote_style = "Nope"\n'), ("wrong_type", 'column_width = "wide"\n'), ("unknown_table", "[nope]\nx = 1\n")]:
                sub = os.path.join(d, "bad_" + nm); os.makedirs(sub)
                open(os.path.join(sub, "x.lua"), "wb").write(src)
                open(os.path.join(sub, "stylua.toml"), "w").write(toml)
                rc, out, err = run(["x.lua"], sub)
                if rc != 2: return False, f"stylua.toml with {nm} ({toml!r}) was accepted: exit {rc}"
                if open(os.path.join(sub, "x.lua"), "rb").read() != src: return False, f"stylua.toml with {nm}: the file was modified"
            return True, ""
        if name == "range_options":
            # C09 from the command line: --range-start / --range-end, each alone and both, on stdin and on a file; a statement that lies
            # outside the range comes out byte for byte, the one inside is formatted
            a, b, c = b"local first   =   1\n", b"local second   =   { 1,2,3 }\n", b"local last   =   { 4,5,6 }\n"
            src = a + b + c
            fb = b"local second = { 1, 2, 3 }\n"
            s0, s1 = len(a), len(a) + len(b) - 1       # byte range of the middle statement
            cases = [(["--range-start", str(s0), "--range-end", str(s1)], [a, c], "both bounds"),
                     (["--range-start", str(s0)], [a], "--range-start alone (open end)"),
                     (["--range-end", str(s1)], [c], "--range-end alone (open start)")]
            for flags, untouched, what in cases:
                rc, out, err = run(flags + ["-"], d, stdin=src)
                if rc != 0: return False, f"{what}: exit {rc}: {err[:160]!r}"
                for u in untouched:
                    if u not in out: return False, f"{what}: a statement outside the range was rewritten: {u!r} not in the output {out!r}"
                if fb not in out: return False, f"{what}: the statement inside the range was not formatted: {out!r}"
                w("r.lua", src)
                rc, o2, err = run(flags + ["r.lua"], d)
                if rc != 0: return False, f"{what} on a file: exit {rc}"
                if r("r.lua") != out: return False, f"{what}: file mode and stdin mode disagree"
            return True, ""
        raise KeyError(name)
    finally:
        shutil.rmtree(d, ignore_errors=True)

def run_witness(w):
    ok, detail = scenario(w["scenario"])
    return (not ok), dict(scenario=w["scenario"], violated=not ok, detail=detail)
