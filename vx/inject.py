"""Comment-injection sweep (bounded stand-in for C01 / C02 / C03, labelled bounded):
for each of a fixed list of small programs, one comment is inserted at every token boundary — a line comment (`-- x` +
newline), a block comment (`--[[x]]`), and either of them on a line of its own — and the result is formatted with the real
library (replay crate, corpus mode) under a few configurations and column widths; the general oracles are evaluated
(parses, same tree, same comments, same literal values).

The pinned tree does not handle comments behind header keywords and in a few other unexpected positions (D28, D29, D30):
the injected inputs that fail on the unchanged tree are listed, one per line, in /verif/known_injections.txt (a known-findings
file: committed, never written at run time, keyed by the input text, the syntax and the failing oracle). Any other failure
is a violation."""
import os, re, json, hashlib, subprocess, shutil, tempfile
import replay

ROOT = replay.ROOT
KNOWN_FILE = os.path.join(ROOT, "known_injections.txt")

SNIPPETS = [
    # expressions and calls
    ("local x = a + b * c\n", "lua51"), ("local x, y = f(a, b), g\n", "lua51"), ("x.y[z] = -a ^ b\n", "lua51"), ("f(a, b, c)\n", "lua51"),
    ("obj:method(a, {1, 2}):other()\n", "lua51"), ("local s = ('x'):rep(3) .. \"y\"\n", "lua51"), ("local x = (a or b) and not c\n", "lua51"),
    ("local x = #t + -n\n", "lua51"), ("g(f(\"x\"), h{ 1 })\n", "lua51"), ("f{ a = 1 }\n", "lua51"), ("f'str'\n", "lua51"), ("local a = b.c.d.e(f)(g)\n", "lua51"),
    ("x = y == z and 1 or 2\n", "lua51"), ("return a, b + c, d\n", "lua51"), ("local v = t[k][1].f\n", "lua51"),
    ("local n, last = 0, queue.tail\n", "lua51"), ("a, b = 'x', f()\n", "lua51"), ("local t, u = {}, v[1]\n", "lua51"), ("local f, g = function() end, h\n", "lua51"),
    # statements
    ("if a then b() elseif c then d() else e() end\n", "lua51"), ("while a do b() end\n", "lua51"), ("repeat a() until b\n", "lua51"),
    ("for i = 1, 10, 2 do f(i) end\n", "lua51"), ("for k, v in pairs(t) do f(k) end\n", "lua51"), ("do local a = 1 end\n", "lua51"),
    ("local function f(a, b, ...) return a, b end\n", "lua51"), ("function m.n:o(a) return end\n", "lua51"), ("return function(x) return x end\n", "lua51"),
    ("local f = function() end\n", "lua51"), ("local a = 1; local b = 2;\n(f or g)()\n", "lua51"), ("if a then return end\nlocal z = 1\n", "lua51"),
    # tables
    ("local t = { a = 1, [2] = 3, 4; 5 }\n", "lua51"), ("local m = { greeting = translate(\"hello\"), n = g{ 1 }, o:p(\"q\").r }\n", "lua51"), ("local t = {\n\t  red = 1\n\t, green = 2\n\t, blue = 3\n}\n", "lua51"),
    ("local t = {\n\tf = function() return 0; end,\n\tg = { 1, 2 },\n}\n", "lua51"), ("call({ a, b }, function() return 1 end)\n", "lua51"),
    # collapsible bodies
    ("local d = function() return 0; end\n", "lua51"), ("local function g() start(); end\n", "lua51"), ("if ready then start() end\n", "lua51"),
    ("if not ok then return; end\n", "lua51"), ("if ready then q:flush(); end\n", "lua51"), ("if a then x = 1; end\n", "lua51"), ("while true do break; end\n", "lua51"),
    # requires
    ("local b = require(\"b\")\nlocal a = require(\"a\")\n", "lua51"),
    # other syntaxes
    ("goto done\n::done::\n", "lua52"), ("local x <const> = 1\n", "lua54"), ("local x = a // b | c ~ d\n", "lua54"),
    ("local x: number = (y :: any) :: number\n", "luau"), ("type T = { a: number, b: (string) -> () } | nil\n", "luau"),
    ("type A = { read number }\ntype F<T... = (string)> = (T...) -> ()\n", "luau"), ("local function g() x += 1 end\nif a then y -= 2 end\n", "luau"), ("local s = if a then b else c\n", "luau"), ("x += f(`a{b}c`)\n", "luau"), ("local function f<T>(a: T, ...: number): (T, number) return a, 1 end\n", "luau"),
    ("local t = { a = if x then y else (z), [k] = if p then (q) else r }\nprint(`v { {1} :: any } w`)\n", "luau"),
    ("#!/usr/bin/lua\nlocal b = require(\"b\")\nlocal a = require(\"a\")\n", "lua51"),
]
COMMENTS = [(" -- x\n", "line"), (" --[[x]] ", "block"), ("\n-- x\n", "own-line"), ("\n--[[x]]\n", "own-line-block")]
CONFIGS = [dict(), dict(collapse_simple_statement="Always", call_parentheses="None"), dict(sort_requires="true", call_parentheses="Input", collapse_simple_statement="FunctionOnly")]
WIDTHS = [120, 40, 12]
CONFIGS_THOROUGH = CONFIGS + [dict(collapse_simple_statement="ConditionalOnly", call_parentheses="NoSingleTable", quote_style="ForceSingle"),
                              dict(call_parentheses="NoSingleString", indent_type="Spaces", indent_width="2", line_endings="Windows", space_after_function_names="Always")]
WIDTHS_THOROUGH = [120, 80, 60, 40, 30, 20, 12, 6, 1]
TOK = re.compile(r"\s+|[A-Za-z_][A-Za-z0-9_]*|\d+|\"[^\"]*\"|'[^']*'|`[^`]*`|::|\.\.\.|\.\.|==|~=|<=|>=|//|->|\+=|[^\sA-Za-z0-9_]")

def inputs():
    """[(id, source, syntax)] — deterministic"""
    out = []
    for si, (s, syn) in enumerate(SNIPPETS):
        # boundaries: the end of every token (the comment becomes trailing trivia of that token) and the start of every token
        # that follows whitespace (the comment becomes leading trivia of the token)
        # (only where a line break precedes the token: on the same line a comment is trailing trivia of the previous token anyway)
        pos, bounds, prev = 0, {0}, ""
        for t in TOK.findall(s):
            if not t.isspace() and "\n" in prev: bounds.add(pos)
            pos += len(t)
            if not t.isspace(): bounds.add(pos)
            prev = t
        for b in sorted(bounds):
            for c, cname in COMMENTS:
                src = s[:b] + c + s[b:]
                out.append((f"s{si}_b{b}_{cname}", src, syn))
        # second family (C01 / C02, the separator rule): behind every line of the program a `;` and a statement that starts with a
        # parenthesis — the semicolon has to survive wherever the two would otherwise be read as one call (inputs that do not parse,
        # because the line does not end a statement, are skipped by the replay tool)
        lines = s.split("\n")
        for li in range(len(lines) - 1):
            if not lines[li].strip(): continue
            for tail, tname in (("(vx)()", "call"), ("(vx or vy).z = 1", "assign")):
                src = "\n".join(lines[:li] + [lines[li] + ";", tail] + lines[li + 1:])
                out.append((f"s{si}_p{li}_{tname}", src, syn))
    return out

def key(src, syn, kind, opts=None):
    """a finding is an injected input together with the oracle it fails (whatever the configuration and width)"""
    return hashlib.sha256(json.dumps([src, syn, kind], sort_keys=True).encode()).hexdigest()[:12]

def load_known():
    known = {}
    if os.path.exists(KNOWN_FILE):
        for line in open(KNOWN_FILE):
            line = line.rstrip("\n")
            if not line or line.startswith("#"): continue
            k, prop, rest = line.split(" ", 2)
            known[k] = (prop, rest)
    return known

PROP_OF = {"parse": "C01", "tree": "C02", "literals": "C02", "comments": "C03", "whitespace": "C10", "panic": "C07", "error": "C07"}

def run(configs=None, widths=None):
    """returns (failures, stats); failure = dict(id, src, syntax, kind, opts, column_width, detail, key, prop)"""
    configs = CONFIGS if configs is None else configs
    widths = WIDTHS if widths is None else widths
    ins = inputs()
    d = tempfile.mkdtemp(prefix="vxinj", dir=os.path.join(ROOT, ".build"))
    try:
        lines, byfile = [], {}
        for iid, src, syn in ins:
            f = os.path.join(d, iid + ".lua")
            open(f, "w").write(src)
            lines.append(f"{f}\t{syn}"); byfile[f] = (iid, src, syn)
        lst = os.path.join(d, "list")
        open(lst, "w").write("\n".join(lines) + "\n")
        fails, runs, parsed, seen = [], 0, 0, set()
        for opts in configs:
            args = [replay.BIN, "corpus", lst, "widths=" + ",".join(map(str, widths))] + [f"{k}={v}" for k, v in opts.items()]
            p = subprocess.run(args, capture_output=True, text=True, timeout=600)
            j = json.loads(p.stdout)
            runs += j["runs"]; parsed = j["files"]
            for f in j["failures"]:
                if f["kind"] not in PROP_OF: continue      # the option-specific oracles of the corpus mode (call parentheses, sorting) are not used here
                iid, src, syn = byfile[f["file"]]
                k = key(src, syn, f["kind"], opts)
                if k in seen: continue          # one entry per (input, oracle): the first configuration and width that fail
                seen.add(k)
                fails.append(dict(id=iid, src=src, syntax=syn, kind=f["kind"], opts=opts, column_width=f["column_width"], detail=f["detail"].splitlines()[0][:200],
                                  key=k, prop=PROP_OF.get(f["kind"], "C01")))
        return fails, dict(inputs=len(ins), parsed=parsed, runs=runs, configs=len(configs), widths=widths)
    finally:
        shutil.rmtree(d, ignore_errors=True)

if __name__ == "__main__":
    import sys
    ok, err = replay.build()
    if not ok:
        print("replay crate does not build:", err[-500:]); sys.exit(2)
    fails, stats = run()
    known = load_known()
    new = [f for f in fails if f["key"] not in known]
    print(json.dumps(stats), len(fails), "failing (input, oracle) pairs;", len(new), "not in known_injections.txt")
    if "--baseline" in sys.argv:       # print lines for the known-findings file (reviewed by hand before they are committed)
        for f in fails:
            print(f"{f['key']} {f['prop']} {f['kind']} syntax={f['syntax']} input={json.dumps(f['src'])} :: {f['detail'][:100]}")
    else:
        for f in new[:40]:
            print(f["prop"], f["kind"], json.dumps(f["opts"]), repr(f["src"]), "::", f["detail"][:120])
