"""Kani kernels (integer / enum code only, DESIGN §2): in-crate harnesses under #[cfg(kani)] in /repo,
run with `cargo kani` into /verif/.build/kani-target. Loop-free harnesses over a complete finite domain
are complete proofs; anything with an unwind bound is reported as bounded."""
import os, re, subprocess, time
ROOT = os.path.dirname(os.path.dirname(os.path.abspath(__file__)))
SETS = {
    "opt_enums": dict(cwd="/repo", args=["--features", "luau,lua52,lua53,lua54,luajit"] + [x for h in ("lua_version", "line_endings", "indent_type", "quote_style", "call_parentheses", "collapse_simple_statement", "space_after_function_names") for x in ("--harness", h)], bounded=False,
                      text="every variant of every Arg* enum converts to the same-named stylua_lib variant and back (complete enumeration, loop-free)"),
    "shape": dict(cwd="/repo", args=["--features", "luau,lua52,lua53,lua54,luajit", "--harness", "shape_width_arithmetic", "--harness", "indent_levels_never_overflow"], bounded=False,
                  text="Shape/Indent width bookkeeping: no overflow and exact results for indent width < 2^16, nesting < 2^24, offsets/widths < 2^32 (loop-free, full domain within the stated input bounds); the level operations saturate over the full usize domain"),
}

def run(name, tier):
    s = SETS[name]
    t0 = time.time()
    env = dict(os.environ, CARGO_NET_OFFLINE="true")
    env.pop("RUSTUP_TOOLCHAIN", None)
    cmd = ["timeout", "1500", "cargo", "kani", "--target-dir", os.path.join(ROOT, ".build", "kani-target")] + s["args"]
    p = subprocess.run(cmd, cwd=s["cwd"], env=env, capture_output=True, text=True)
    out = p.stdout + p.stderr
    res = dict(name=name, status="ok", harnesses=[], obligations=0, discharged=0, violations=[], samples=[], bounded=s["bounded"], ms=(time.time() - t0) * 1000, note="")
    blocks = re.split(r"Checking harness ", out)[1:]
    for b in blocks:
        h = b.split("...")[0].strip()
        ok = "VERIFICATION:- SUCCESSFUL" in b
        res["harnesses"].append(dict(harness=h, ok=ok))
        res["obligations"] += 1
        if ok:
            res["discharged"] += 1
            if len(res["samples"]) < 2:
                res["samples"].append(dict(obligation="kani:" + h, statement=s["text"]))
        else:
            failed = re.findall(r"Status: FAILURE\s*\n\s*- Description: \"([^\"]*)\"\s*\n\s*- Location: ([^\n]*)", b)
            res["violations"].append(dict(harness=h, text=s["text"], message="; ".join(f"{d} @ {l}" for d, l in failed[:4]) or "verification failed",
                                          trace=b[-3000:], concrete=bool(failed)))
    if not blocks:
        res["status"] = "undecided"
        res["note"] = "cargo kani produced no harness result: " + out[-600:]
    elif res["violations"]:
        res["status"] = "failed"
    return res
