#!/usr/bin/env python3
"""developer driver: python3 vx/dev.py <unit> [fs] [-v]   (with VX_REPO set — a scratch worktree — the generated file gets its own name, so that a check running on /repo at the same time is not disturbed)"""
import sys, os, importlib
sys.path.insert(0, os.path.dirname(os.path.abspath(__file__)))
sys.path.insert(0, os.path.join(os.path.dirname(os.path.abspath(__file__)), "..", "units"))
import run
from gen import ExtractError
name = sys.argv[1]
fss = [a for a in sys.argv[2:] if a in ("all", "default", "luajit", "luau")] or ["all"]
m = importlib.import_module(name)
for fs in fss:
    try:
        r = run.run_unit(m.UNIT, fs, tag=("-dev" if os.environ.get("VX_REPO") else ""))
    except ExtractError as e:
        print("EXTRACT ERROR", e); sys.exit(2)
    print(run.summarize(r, verbose="-v" in sys.argv))
    if "-x" in sys.argv:
        import subprocess
        fn = sys.argv[sys.argv.index("-x") + 1]
        mod = sys.argv[sys.argv.index("-x") + 2]
        cmd = run.verus_cmd(r["path"], fs, m.UNIT.externs, 60, 0)
        cmd = [c for c in cmd if c not in ("--output-json", "--error-format=json", "--time")]
        cmd += ["--expand-errors", "--verify-function", fn, "--verify-only-module", mod]
        env = dict(os.environ); env.pop("RUSTUP_TOOLCHAIN", None)
        p = subprocess.run(cmd, capture_output=True, text=True, env=env)
        out = p.stderr
        i = out.find("diagnostics via expansion")
        print(out[i:] if i >= 0 else out[-6000:])
    if "-f" in sys.argv:
        for k, v in sorted(r["functions"].items(), key=lambda kv: -kv[1]["ms"])[:15]:
            print("   ", k, v)
