"""Runs Verus on a generated unit and maps diagnostics to labelled obligations."""
import glob, json, os, re, subprocess, time, hashlib
from gen import generate, ExtractError

ROOT = os.path.dirname(os.path.dirname(os.path.abspath(__file__)))
BUILD = os.path.join(ROOT, ".build")

FEATURES = {
    "default": [],
    "all": ["luau", "lua52", "lua53", "lua54", "luajit"],
    "luau": ["luau"],          # `cargo install stylua --features luau`: full_moon has the operators it shares with Lua 5.3 (`//`), StyLua's lua53 arms are off (D42)
    "luajit": ["luajit"],      # a supported Cargo feature on its own: full_moon then has Goto/Label statements, StyLua's lua52 module is off
}
# cfg features of the stylua crate itself that are on in both sets (Cargo default features)
ALWAYS = ["editorconfig"]

LOGICAL = [
    "unable to prove",            # "unable to prove post-condition of closure": a closure contract (units lists, table, assign)
    "postcondition not satisfied", "precondition not satisfied", "invariant not satisfied",
    "assertion failed", "possible arithmetic underflow/overflow", "decreases not satisfied",
    "possible division by zero", "cannot show invariant holds", "loop invariant not satisfied",
    "unreachable", "recommendation not met", "possible bit shift underflow/overflow",
    "could not prove termination", "fails to satisfy", "failed to satisfy", "assertion violation", "cannot prove",
    "index out of bounds", "possible", "may panic", "call to panic", "panic",
]

class Undecided(Exception):
    pass

def vdeps(fs):
    d = os.path.join(BUILD, "vdeps", fs, "target", "debug", "deps")
    if not glob.glob(os.path.join(d, "libfull_moon-*.rlib")):
        subprocess.run([os.path.join(ROOT, "tools", "build_vdeps.sh")], check=True, stdout=subprocess.DEVNULL)
    return d

def verus_cmd(path, fs, externs, rlimit, seed, extra=()):
    d = vdeps(fs)
    cmd = ["verus", path, "-L", f"dependency={d}"]
    for e in externs:
        libs = sorted(glob.glob(os.path.join(d, f"lib{e}-*.rlib")))
        if not libs:
            raise Undecided(f"extern {e} not built in {d}")
        cmd += ["--extern", f"{e}={libs[-1]}"]
    for f in FEATURES[fs] + ALWAYS:
        cmd += ["--cfg", f'feature="{f}"']
    cmd += ["--output-json", "--time", "--error-format=json", "--rlimit", str(rlimit),
            "--smt-option", f"smt.random_seed={seed}", "--multiple-errors", "8", "--no-report-long-running"]
    cmd += list(extra)
    return cmd

def run_unit(unit, fs, seed=0, rlimit=None, keep=True, tag=""):
    """run_unit_once, plus the handling of helper functions that the unit does not list. When the verified text calls a function /
    method that the unit does not know (a change moved part of a function under contract into a new helper), and /repo's file of the
    caller defines it:
      1. a helper whose body is one pure expression is brought into the unit with the contract `ensures r == <its body>` (the strongest
         one, read off its text);
      2. any other helper without generics / `return` / `?` / recursion — or a pure one whose body Verus does not accept as a spec
         expression — is inlined into its callers (gen.InlineHelper: the call becomes a block that binds the arguments to the parameter
         names and evaluates the body), so that its text is verified as part of the caller, against the caller's contract.
    The same is tried when an anchor of a function under contract is lost and the function calls such a helper (the text the anchor
    stands for may have moved into it). The run is repeated after each step; what cannot be handled stays undecided as before."""
    import copy
    from gen import Fn, InlineHelper
    added, inlined, tried_pure, tried_inline = [], [], set(), set()
    res = None
    def with_inline(unit, reqs):
        unit = copy.copy(unit); items = list(unit.items); done = False
        for caller, name, impl_of in reqs:
            key = (caller.file, caller.qual, name)
            if key in tried_inline: continue
            tried_inline.add(key)
            try:
                edit = InlineHelper(caller.file, name, impl_of)
            except ExtractError as e:
                inlined.append(f"not inlined: {e}"); continue
            for i, it in enumerate(items):
                if isinstance(it, Fn) and it.mode == "verify" and it.file == caller.file and it.qual == caller.qual:
                    it2 = copy.copy(it); it2.edits = [edit] + list(it.edits); items[i] = it2
                    inlined.append(edit); done = True
        unit.items = items
        return unit if done else None
    anchor_error, unit_at_anchor_error = None, None
    for _round in range(8):
        try:
            res = run_unit_once(unit, fs, seed, rlimit, keep, tag)
        except ExtractError as e:
            if anchor_error is not None:
                # inlining the helpers of the function did not bring the lost anchor back (or could not be done): the first error stands
                raise anchor_error
            anchor_error, unit_at_anchor_error = e, unit
            u2 = with_inline(unit, _unknown_helpers_of(unit, str(e)))
            if u2 is None: raise
            unit = u2; continue
        anchor_error = None
        if res["status"] != "undecided" or not res["compile_errors"]:
            break
        # a pure helper of an earlier round whose contract Verus rejects: inline it instead
        bad = [h for h in added if any((e.get("fn") or "").split("::")[-1] == h.name for e in res["compile_errors"])]
        if bad:
            reqs = []
            for h in bad:
                added.remove(h)
                unit = copy.copy(unit); unit.items = [it for it in unit.items if it is not h]
                for it in unit.items:
                    if isinstance(it, Fn) and it.mode == "verify" and it.file == h.file and re.search(r"\b" + re.escape(h.name) + r"\s*\(", _body_text(it)):
                        reqs.append((it, h.name, h.impl_of))
            u2 = with_inline(unit, reqs)
            if u2 is None: break
            unit = u2; continue
        new, reqs = _missing_helpers(unit, res, tried_pure)
        if new:
            unit = copy.copy(unit); unit.items = list(unit.items) + new; added += new
            continue
        u2 = with_inline(unit, reqs)
        if u2 is None: break
        unit = u2
    if res is None:
        raise ExtractError("no run")
    if added:
        res["auto_helpers"] = [f"{h.file}::{h.qual}: {' '.join(h.contract.split())[:200]}" for h in added]
    notes = [x.describe() if not isinstance(x, str) else x for x in inlined]
    if notes:
        res["inlined_helpers"] = notes
    return res

def _body_text(fn):
    from gen import source
    try:
        src = source(fn.file); d = src.find_fn(fn.name, fn.impl_of, fn.trait_of, fn.nth)
        return src.text[d["body_open"]:d["end"]] if d["body_open"] is not None else ""
    except Exception:
        return ""

def _known_names(unit):
    from gen import Fn, Raw
    names = set()
    for it in unit.items:
        if isinstance(it, Fn): names.add(it.name)
        elif isinstance(it, Raw): names |= set(re.findall(r"\bfn\s+(\w+)", it.text))
    return names

def _unknown_helpers_of(unit, msg):
    """a lost anchor in file:fn — the helpers of the same file that this function calls and that the unit does not know"""
    from gen import Fn, source
    m = re.match(r"([\w/\.]+\.rs):([\w:<>]+?)(?: \(signature\))?: ", msg)
    if not m: return []
    file, qual = m.group(1), m.group(2)
    caller = next((it for it in unit.items if isinstance(it, Fn) and it.mode == "verify" and it.file == file and it.qual == qual), None)
    if caller is None: return []
    known = _known_names(unit)
    src = source(file)
    body = _body_text(caller)
    out, seen = [], set()
    for m in re.finditer(r"(?<![\w:\.])(self\s*\.\s*)?([a-z_]\w*)\s*\(", body):
        name = m.group(2)
        if name in known or name in seen: continue
        seen.add(name)
        for impl in ([caller.impl_of] if (m.group(1) and caller.impl_of) else [None]):
            try:
                src.find_fn(name, impl, None, 0)
            except Exception:
                continue
            out.append((caller, name, impl))
    return out

def _missing_helpers(unit, res, tried_pure):
    """(helpers to add with their body as contract, helpers to inline) for the `cannot find function / method` errors of a run"""
    from gen import Fn, source
    out, reqs = [], []
    for e in res["compile_errors"]:
        msg = e.get("message") or ""
        m = re.search(r"no method named `(\w+)` found for (?:enum|struct|reference|type) `&?(?:[\w:]*::)?(\w+)", msg)
        ty = None
        if m:
            name, ty = m.group(1), m.group(2)
        else:
            m = re.search(r"cannot find function `(\w+)` in this scope", msg)
            if not m: continue
            name = m.group(1)
        caller = next((it for it in unit.items if isinstance(it, Fn) and it.mode == "verify" and it.name == (e.get("fn") or "").split("::")[-1]), None)
        if caller is None: continue
        try:
            src = source(caller.file)
            d = None
            for impl in ([ty] if ty else []) + [None]:
                try:
                    d = src.find_fn(name, impl, None, 0); impl_of = impl; break
                except Exception:
                    continue
            if d is None or d["body_open"] is None: continue
            body = src.text[d["body_open"] + 1:d["end"] - 1].strip()
        except Exception:
            continue
        # one pure expression: no statements, no bindings, no loops, no macros other than matches!
        stripped = re.sub(r"//[^\n]*", "", body)
        sig = src.text[d["kw"]:d["body_open"]]
        pure = not (";" in stripped or re.search(r"\b(let|for|while|loop|return|unsafe)\b", stripped)) and not re.search(r"\b(?!matches)\w+!\s*[\(\[{]", stripped) and "->" in sig
        if pure and (caller.file, name) not in tried_pure:
            tried_pure.add((caller.file, name))
            if not any(h.name == name and h.file == caller.file for h in out):
                out.append(Fn(caller.file, name, impl_of=impl_of, contract=f"ensures r == ({stripped}),",
                              note="auto-included helper: its body is one pure expression, which is its contract"))
        else:
            reqs.append((caller, name, impl_of))
    return out, reqs

def run_unit_once(unit, fs, seed=0, rlimit=None, keep=True, tag=""):
    """returns result dict: status in {ok, failed, undecided}, failures[list], functions{}, time…"""
    t0 = time.time()
    text, meta = generate(unit)
    gdir = os.path.join(BUILD, "gen", unit.name)
    os.makedirs(gdir, exist_ok=True)
    path = os.path.join(gdir, f"{fs}{tag}.rs")
    with open(path, "w") as f:
        f.write(text)
    cmd = verus_cmd(path, fs, unit.externs, rlimit or unit.rlimit, seed)
    env = dict(os.environ)
    env.pop("RUSTUP_TOOLCHAIN", None)
    p = subprocess.run(cmd, capture_output=True, text=True, env=env, cwd=gdir)
    res = dict(unit=unit.name, fs=fs, path=path, cmd=" ".join(cmd), meta=meta, wall_s=time.time() - t0,
               failures=[], undecided=[], compile_errors=[], functions={}, canary_failed=False, raw_stderr=p.stderr[-20000:])
    try:
        j = json.loads(p.stdout) if p.stdout.strip().startswith("{") else None
    except json.JSONDecodeError:
        j = None
    diags = []
    for line in p.stderr.splitlines():
        line = line.strip()
        if line.startswith("{"):
            try:
                diags.append(json.loads(line))
            except json.JSONDecodeError:
                pass
    lines = text.split("\n")
    label_at = {}
    for lab, lns in meta["label_lines"].items():
        for ln in lns:
            label_at.setdefault(ln, []).append(lab)

    def fn_at(ln):
        best = None
        for r in meta["fnranges"]:
            if r["lo"] <= ln <= r["hi"]:
                best = r
        return best

    for d in diags:
        if d.get("level") != "error":
            continue
        msg = d.get("message", "")
        if msg.startswith("aborting due to"):
            continue
        spans = d.get("spans", [])
        labs = []
        prim = None
        for sp in spans:
            if sp.get("is_primary"):
                prim = sp
        # labels: any labelled line covered by a "small" span (<= 12 lines), secondary first
        for sp in spans:
            a, b = sp["line_start"], sp["line_end"]
            if b - a > 12:
                continue
            for ln in range(a, b + 1):
                for lab in label_at.get(ln, []):
                    if lab not in labs:
                        labs.append(lab)
        ploc = prim or (spans[0] if spans else None)
        pl = ploc["line_start"] if ploc else 0
        fr = fn_at(pl) if pl else None
        if fr is None and ploc is not None:
            # the span lies inside a macro definition (fmt_stmt!, fmt_symbol!, panic!): walk out to the call site
            e = ploc.get("expansion")
            while e and fr is None:
                cl = e["span"]["line_start"]
                fr = fn_at(cl)
                if fr: pl = cl
                e = e["span"].get("expansion")
        if fr is None:
            # a postcondition failure's primary span may be the whole function / the clause
            for sp in spans:
                fr = fn_at(sp["line_start"])
                if fr: break
        src_text = lines[pl - 1].strip() if 0 < pl <= len(lines) else ""
        entry = dict(message=msg, labels=labs, gen_line=pl, fn=fr["qual"] if fr else None,
                     file=fr["file"] if fr else None, text=src_text[:200],
                     span_labels=[sp.get("label") for sp in spans if sp.get("label")],
                     rendered=(d.get("rendered") or "")[:3000])
        if fr and fr.get("head_lines") is not None:
            # approximate repo line: generated offset minus spliced contract lines
            entry["repo_line_hint"] = None
        if "VX.canary" in labs:
            res["canary_failed"] = True
            continue
        if not labs and fr is not None and fr.get("mode") == "verify" and msg.lower().startswith("assertion failed"):
            # an unlabelled failure inside a function under contract (a proof hint that no longer holds, a callee
            # precondition without label, arithmetic): the function's own contract clauses are not established
            entry["implied_labels"] = [lab for lab, lns in meta["label_lines"].items() if any(fr["lo"] <= ln <= fr["hi"] for ln in lns)]
        low = msg.lower()
        if "rlimit" in low or "resource limit" in low or "timed out" in low or "timeout" in low:
            res["undecided"].append(entry); continue
        if any(low.startswith(x) or x in low for x in LOGICAL[:15]) and d.get("code") is None:
            res["failures"].append(entry); continue
        res["compile_errors"].append(entry)
    if j:
        vr = j.get("verification-results", {})
        res["verified_count"] = vr.get("verified", 0)
        res["error_count"] = vr.get("errors", 0)
        res["vir_error"] = vr.get("encountered-vir-error", False)
        tm = j.get("times-ms", {})
        res["verus_total_ms"] = tm.get("total")
        res["smt_ms"] = (tm.get("smt") or {}).get("total")
        for m in (tm.get("smt") or {}).get("smt-run-module-times", []):
            for fb in m.get("function-breakdown", []):
                name = fb["function"].split("::", 1)[-1] if fb["function"].startswith("$~") else fb["function"]
                res["functions"][name] = dict(ok=fb.get("success"), ms=fb.get("time"), rlimit=fb.get("rlimit"), mode=fb.get("mode:"))
    else:
        res["vir_error"] = True
    if res["compile_errors"] or j is None or res.get("vir_error"):
        res["status"] = "undecided"
        if j is None and not res["compile_errors"]:
            m = re.search(r"(Internal Verus Error[^\n]*|panicked at[^\n]*)", p.stderr)
            res["compile_errors"].append(dict(message="verus produced no result" + (": " + m.group(1)[:300] if m else ""), rendered=p.stderr[-3000:], labels=[], fn=None))
    elif res["undecided"]:
        res["status"] = "undecided"
    elif not res["canary_failed"] and j is not None:
        res["status"] = "undecided"
        res["compile_errors"].append(dict(message="canary `ensures false` was accepted: inconsistent assumptions", labels=[], fn=None, rendered=""))
    elif res["failures"]:
        res["status"] = "failed"
    else:
        res["status"] = "ok"
    return res

def summarize(res, verbose=False):
    s = f"[{res['unit']}/{res['fs']}] {res['status']} verified={res.get('verified_count')} errors={res.get('error_count')} wall={res['wall_s']:.1f}s"
    out = [s]
    for k in ("compile_errors", "undecided", "failures"):
        for e in res[k]:
            out.append(f"  {k[:-1] if k.endswith('s') else k}: {e['message']} fn={e.get('fn')} labels={e.get('labels')} line={e.get('gen_line')} :: {e.get('text','')[:100]}")
            if verbose:
                out.append("    " + (e.get("rendered") or "").replace("\n", "\n    ")[:1500])
    return "\n".join(out)
