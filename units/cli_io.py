"""Unit `cli_io`: src/cli/main.rs format_file / format_string / create_diff.
C13 (check mode never writes; Diff iff the texts differ), C14 (the only write is the complete formatted text,
only when it differs, after every error exit), C17 (stdin mode: buffer = formatted text or the untouched input;
no file-system call), C18 (no diff iff already formatted; Summary lists exactly the differing files)."""
from gen import Unit, Fn, Item, Raw, RawFile, Hole, After, Before, Loop, Between

MAIN = "src/cli/main.rs"
OPT = "src/cli/opt.rs"

HEADER = """
use std::path::{Path, PathBuf};
use anyhow::Result;
"""

PRELUDE = r"""
// ---- external types ----
#[verifier::external_type_specification] #[verifier::external_body] pub struct ExAnyhowError(anyhow::Error);
#[verifier::external_type_specification] #[verifier::external_body] pub struct ExPathBuf(PathBuf);
#[verifier::external_type_specification] #[verifier::external_body] pub struct ExPath(Path);

// ---- library interface as seen by the CLI (contracts proved in unit `lib`) ----
#[derive(Clone, Copy)] pub struct Config { pub opaque: u8 }            // stylua_lib::Config: opaque to this unit
#[derive(Clone, Copy)] pub struct Range { pub start: Option<usize>, pub end: Option<usize> }
#[derive(Clone, Copy)] pub enum OutputVerification { Full, None }

// ---- ghost file system / library result ----
pub uninterp spec fn file_text(p: &Path) -> Seq<char>;                 // contents of the file at the time it is read
pub uninterp spec fn readable(p: &Path) -> bool;
pub uninterp spec fn code_ok(code: Seq<char>, c: Config, r: Option<Range>, v: OutputVerification) -> bool;  // format_code returns Ok
pub uninterp spec fn code_out(code: Seq<char>, c: Config, r: Option<Range>, v: OutputVerification) -> Seq<char>; // ... and this text
pub uninterp spec fn utf8(s: Seq<char>) -> Seq<u8>;
pub uninterp spec fn diff_bytes(fmt: opt::OutputFormat, original: Seq<char>, expected: Seq<char>, name: Seq<char>) -> Seq<u8>;

// the ONLY write the CLI may perform on a file: not in check mode, the complete formatted text of what was
// read from that file, and only if it differs
pub open spec fn may_write(check: bool, p: &Path, data: Seq<char>, c: Config, r: Option<Range>, v: OutputVerification) -> bool {
    !check && code_ok(file_text(p), c, r, v) && data == code_out(file_text(p), c, r, v) && data != file_text(p)
}
"""

VERIF = r"""
// wrappers: the original expression with its `.with_context(|| format!(..))` decoration dropped (DESIGN §3 rule 7)
#[verifier::external_body]
pub fn fs_read_to_string(path: &Path) -> (r: Result<String>)
    ensures (r is Ok) == readable(path), r is Ok ==> r->Ok_0@ == file_text(path)
{ unimplemented!() }
#[verifier::external_body]
pub fn fs_write(path: &Path, data: String, Ghost(check): Ghost<bool>, Ghost(c): Ghost<Config>, Ghost(r): Ghost<Option<Range>>, Ghost(v): Ghost<OutputVerification>) -> (res: Result<()>)
    requires may_write(check, path, data@, c, r, v), //# C14.only_write
{ unimplemented!() }
#[verifier::external_body]
pub fn format_code_ctx(code: &String, config: Config, range: Option<Range>, verify_output: OutputVerification) -> (r: Result<String>)
    ensures (r is Ok) == code_ok(code@, config, range, verify_output), r is Ok ==> r->Ok_0@ == code_out(code@, config, range, verify_output)
{ unimplemented!() }
#[verifier::external_body]
pub fn ctx_diff(r: Result<Option<Vec<u8>>>) -> (o: Result<Option<Vec<u8>>>) ensures (o is Ok) == (r is Ok), o is Ok ==> o->Ok_0 == r->Ok_0 { unimplemented!() }
#[verifier::external_body]
pub fn path_display_string(path: &Path) -> (r: String) { unimplemented!() }
#[verifier::external_body]
pub fn into_bytes(s: String) -> (r: Vec<u8>) ensures r@ == utf8(s@) { unimplemented!() }
#[verifier::external_body]
pub fn string_clone(s: &String) -> (r: String) ensures r@ == s@ { unimplemented!() }
#[verifier::external_body]
pub fn string_ne(a: &String, b: &String) -> (r: bool) ensures r == (a@ != b@) { unimplemented!() }
#[verifier::external_body]
pub fn str_eq(a: &str, b: &str) -> (r: bool) ensures r == (a@ == b@) { unimplemented!() }
#[verifier::external_body]
pub fn summary_line(file_name: &str) -> (r: Vec<u8>) { unimplemented!() }
#[verifier::external_body]
pub fn json_diff(original: &str, expected: &str, file_name: &str) -> (r: Result<Option<Vec<u8>>>)
    ensures r is Ok ==> (r->Ok_0 is None) == (original@ == expected@)
{ unimplemented!() }
"""

JSON_ARM = """output_diff::output_diff_json(original, expected)
                .map(|mismatches| {
                    serde_json::to_vec(&json!({
                        "file": file_name,
                        "mismatches": mismatches
                    }))
                    // Add newline to end
                    .map(|mut vec| {
                        vec.push(b'\\n');
                        vec
                    })
                    // Covert to anyhow::Error
                    .map_err(|err| err.into())
                })
                .transpose()"""

DIFF_POST = "ensures r is Ok ==> (r->Ok_0 is None) == (original@ == expected@),"

def items():
    return [
        Raw(PRELUDE),
        Item(OPT, "enum", "Color", keep_derives=("Clone", "Copy")),
        Item(OPT, "enum", "OutputFormat", keep_derives=("Clone", "Copy")),
        Item(OPT, "struct", "FormatOpts", keep_derives=("Clone", "Copy"), edits=[]),
        *[Raw(f"#[derive(Clone, Copy)] pub enum {n} {{ Opaque }}", module="opt") for n in
          ["ArgLuaVersion", "ArgLineEndings", "ArgIndentType", "ArgQuoteStyle", "ArgCallParenType", "ArgCollapseSimpleStatement", "ArgSpaceAfterFunctionNames"]],
        Item(OPT, "struct", "Opt", keep_derives=()),
        Item(MAIN, "enum", "FormatResult"),
        Raw(VERIF, module="verif"),
        Raw(f"""
#[verifier::external_body] pub fn output_diff(original: &str, expected: &str, context_size: usize, title: &str, color: opt::Color) -> (r: Result<Option<Vec<u8>>>) {DIFF_POST} {{ unimplemented!() }}
#[verifier::external_body] pub fn output_diff_unified(original: &str, expected: &str) -> (r: Result<Option<Vec<u8>>>) {DIFF_POST} {{ unimplemented!() }}
""", module="output_diff"),
        Fn(MAIN, "create_diff", contract="""
    ensures r is Ok ==> (r->Ok_0 is None) == (original@ == expected@), //# C18.diff_iff_different
            opt.output_format is Summary ==> r is Ok, //# C18.summary_total
""", edits=[
            Hole('&format!("Diff in {file_name}:")', "file_name", why="format! of the diff title"),
            Hole(JSON_ARM, "verif::json_diff(original, expected, file_name)", why="closure chain around output_diff_json (its None-iff-equal contract is proved in unit diff)"),
            Hole("original == expected", "verif::str_eq(original, expected)", kind="wrapper", why="str == str"),
            Hole('Ok(Some(format!("{file_name}\\n").into_bytes()))', "Ok(Some(verif::summary_line(file_name)))", why="format!"),
        ]),
        Fn(MAIN, "format_file", contract="""
    ensures
        r is Ok ==> readable(path) && code_ok(file_text(path), config, range, verify_output), //# C14.errors_are_reported
        opt.check && r is Ok ==> (r->Ok_0 is Diff) == (code_out(file_text(path), config, range, verify_output) != file_text(path)), //# C13.diff_iff_unformatted
        opt.check && r is Ok ==> r->Ok_0 is Diff || r->Ok_0 is Complete, //# C13.check_result_kind
        !opt.check && r is Ok ==> r->Ok_0 is Complete, //# C14.write_result_kind
""", edits=[
            Hole("""fs::read_to_string(path).with_context(|| format!("failed to read {}", path.display()))?""", "verif::fs_read_to_string(path)?", kind="wrapper", why="fs::read_to_string + context decoration"),
            Hole("""format_code(&contents, config, range, verify_output)
        .with_context(|| format!("could not format file {}", path.display()))?""", "verif::format_code_ctx(&contents, config, range, verify_output)?", kind="wrapper", why="stylua_lib::format_code + context decoration"),
            Hole("let before_formatting = Instant::now();", "", why="timing for the debug log"),
            Hole("let after_formatting = Instant::now();", "", why="timing for the debug log"),
            Between("debug!(", ");", "", why="logging macro dropped"),
            Hole("""create_diff(
            opt,
            &contents,
            &formatted_contents,
            path.display().to_string().as_str(),
        )
        .context("failed to create diff")?""", "verif::ctx_diff(create_diff(opt, contents.as_str(), formatted_contents.as_str(), verif::path_display_string(path).as_str()))?", kind="wrapper", why=".context decoration; path.display().to_string()"),
            Hole("formatted_contents != contents", "verif::string_ne(&formatted_contents, &contents)", kind="wrapper", why="String != String"),
            Hole("""fs::write(path, formatted_contents)
                .with_context(|| format!("could not write to {}", path.display()))?;""",
                 "verif::fs_write(path, formatted_contents, Ghost(opt.check), Ghost(config), Ghost(range), Ghost(verify_output))?;", kind="wrapper",
                 why="fs::write + context decoration; ghost arguments name the run this write belongs to"),
        ]),
        Fn(MAIN, "format_string", contract="""
    ensures
        r is Ok && !should_skip ==> code_ok(input@, config, range, verify_output), //# C17.errors_are_reported
        !opt.check && r is Ok ==> r->Ok_0 is SuccessBufferedOutput
            && r->Ok_0->SuccessBufferedOutput_0@ == utf8(if should_skip { input@ } else { code_out(input@, config, range, verify_output) }), //# C17.buffer_is_formatted_text
        opt.check && r is Ok ==> (r->Ok_0 is Diff) == ((if should_skip { input@ } else { code_out(input@, config, range, verify_output) }) != input@), //# C17.check_diff
""", edits=[
            Hole("input.clone()", "verif::string_clone(&input)", kind="wrapper", why="String::clone"),
            Hole("""format_code(&input, config, range, verify_output).context("failed to format from stdin")?""", "verif::format_code_ctx(&input, config, range, verify_output)?", kind="wrapper", why="stylua_lib::format_code + context decoration"),
            Hole("""create_diff(opt, &input, &formatted_contents, "stdin")
            .context("failed to create diff")?""", """verif::ctx_diff(create_diff(opt, input.as_str(), formatted_contents.as_str(), "stdin"))?""", kind="wrapper", why=".context decoration"),
            Hole("formatted_contents.into_bytes(),", "verif::into_bytes(formatted_contents),", kind="wrapper", why="String::into_bytes"),
        ]),
    ]

LABELS = {
    "C14.only_write": dict(props=["C14", "C13", "C17"], text="every fs::write reachable in format_file satisfies: not check mode, data = the complete format_code output for the text read from that path, data differs from that text (in particular unreachable in check mode and after any error)"),
    "C18.diff_iff_different": dict(props=["C18", "C13"], text="create_diff returns None exactly when original and expected are equal, for every output format"),
    "C18.summary_total": dict(props=["C18"], text="the Summary format never fails"),
    "C14.errors_are_reported": dict(props=["C14", "C13"], text="format_file returns Ok only if the file could be read and format_code succeeded (parse / verification errors leave before any write)"),
    "C13.diff_iff_unformatted": dict(props=["C13", "C18"], text="check mode: FormatResult::Diff exactly when the formatted text differs from the file"),
    "C13.check_result_kind": dict(props=["C13"], text="check mode returns Diff or Complete, never a buffered output"),
    "C14.write_result_kind": dict(props=["C14"], text="write mode returns Complete"),
    "C17.errors_are_reported": dict(props=["C17"], text="format_string returns Ok only if format_code succeeded (unless the input is passed through)"),
    "C17.buffer_is_formatted_text": dict(props=["C17"], text="stdin mode: the buffer is exactly the library's output for the input, or the untouched input when the path is ignored"),
    "C17.check_diff": dict(props=["C17", "C13"], text="stdin check mode: Diff exactly when the formatted text differs from the input"),
}

UNIT = Unit("cli_io", items(), LABELS, header=HEADER, externs=("anyhow",), feature_sets=("default",))
