"""Unit `lists`: src/formatters/general.rs — the generic list formatters (C02: no item is dropped, duplicated or reordered; every item is
what the item formatter makes of the item in the same place):

    format_punctuated, format_punctuated_multiline, format_contained_punctuated_multiline       (real text, real loops)

They are generic over the item type and take the item formatter as a value `F: Fn(&Context, &T, Shape) -> T`; the contracts use Verus'
closure specifications (`value_formatter.requires(..)`, `.ensures(..)`). The multi-line variants change the trivia of the formatted
item (new line and indent in front, comments moved behind the comma): the item they push is related to the formatter's result through
the trait proxies' `same_sem` / `same_sem_t` (for an expression: the same tree).

The other units call these functions with a named formatter (format_expression, format_token_reference, format_parameter, ...): what is
a wrapper with an assumed contract there is a consequence of the contract proved here."""
from gen import Unit, Fn, Item, Raw, RawFile, Hole, After, Before, Loop, Between
from common import *

GEN = "src/formatters/general.rs"

SPEC = r"""
#[verifier::external_type_specification] #[verifier::reject_recursive_types(T)] pub struct ExPair<T>(Pair<T>);
pub uninterp spec fn ppairs<T>(p: Punctuated<T>) -> Seq<Pair<T>>;
pub open spec fn pair_value<T>(p: Pair<T>) -> T { match p { Pair::End(v) => v, Pair::Punctuated(v, _) => v } }
pub assume_specification<T> [Punctuated::<T>::pairs] (p: &Punctuated<T>) -> (r: impl Iterator<Item = &Pair<T>>)
    ensures it_rest(&r).len() == ppairs(*p).len(), ppairs(*p).len() < usize::MAX,   // (a list in memory has fewer than usize::MAX items)
            forall|i: int| 0 <= i < it_rest(&r).len() ==> *(#[trigger] it_rest(&r)[i]) == ppairs(*p)[i];
pub assume_specification<T> [Punctuated::<T>::new] () -> (r: Punctuated<T>) ensures ppairs(r).len() == 0;
pub assume_specification<T> [Punctuated::<T>::push] (p: &mut Punctuated<T>, pair: Pair<T>) ensures ppairs(*final(p)) == ppairs(*old(p)).push(pair);
pub assume_specification<T> [Pair::<T>::new] (v: T, p: Option<TokenReference>) -> (r: Pair<T>) ensures pair_value(r) == v;
pub assume_specification<T> [Pair::<T>::value] (p: &Pair<T>) -> (r: &T) ensures *r == pair_value(*p);
pub assume_specification<T> [Pair::<T>::punctuation] (p: &Pair<T>) -> (r: Option<&TokenReference>);
#[verifier::external_body] pub fn peekable<I: Iterator>(it: I) -> (r: std::iter::Peekable<I>) ensures pk_rest(&r) == it_rest(&it) { it.peekable() }

// `out` is what the item formatter returns for item `x` (for some shape)
pub open spec fn by_item_formatter<T, F: Fn(&Context, &T, Shape) -> T>(f: F, c: &Context, x: T, out: T) -> bool {
    exists|s: Shape| #[trigger] f.ensures((c, &x, s), out)
}
// ... up to the trivia the list formatter puts around it (a new line and an indent in front, comments taken from behind it)
pub open spec fn lead_rel<T: UpdateLeadingTrivia>(v: T, w: T) -> bool { w == v || v.same_sem(&w) }
pub open spec fn trail_rel<T: UpdateTrailingTrivia>(w: T, out: T) -> bool { out == w || w.same_sem_t(&out) }
pub open spec fn by_item_formatter_modulo_trivia<T: UpdateLeadingTrivia + UpdateTrailingTrivia, F: Fn(&Context, &T, Shape) -> T>(f: F, c: &Context, x: T, out: T) -> bool {
    exists|s: Shape, v: T, w: T| #[trigger] f.ensures((c, &x, s), v) && #[trigger] lead_rel(v, w) && #[trigger] trail_rel(w, out)
}
"""

def loop_inv(src, list_name, rel, it="vx_it", extra=""):
    return f"""
        invariant
            0 <= k <= ppairs({src}).len(),
            pk_rest(&{it}).len() == ppairs({src}).len() - k,
            forall|j: int| 0 <= j < pk_rest(&{it}).len() ==> *(#[trigger] pk_rest(&{it})[j]) == ppairs({src})[k + j],
            forall|i: int, s: Shape| 0 <= i < ppairs({src}).len() ==> #[trigger] {{FMT}}.requires((ctx, &pair_value(ppairs({src})[i]), s)),
            ppairs({src}).len() < usize::MAX,{extra}
            ppairs({list_name}).len() == k, //# C02.list_loop
            forall|i: int| 0 <= i < k ==> {rel}({{FMT}}, ctx, pair_value(#[trigger] ppairs({src})[i]), pair_value(ppairs({list_name})[i])), //# C02.list_loop
        ensures k == ppairs({src}).len(),
        decreases pk_rest(&{it}).len(),
"""

def items():
    its = common_items()
    its += [
        Raw(SPEC, module="formatters::general"),
        Item(GEN, "enum", "EndTokenType"),
        Fn(GEN, "format_symbol", mode="stub", proved_in="tok"),
        Fn(GEN, "format_token_reference", mode="stub", proved_in="tok"),
        Fn(GEN, "format_end_token", mode="stub", proved_in="tok"),
        Fn(TU, "prepend_newline_indent", mode="stub", contract="ensures node.same_sem(&r),"),
        Fn(TU, "join_trailing_trivia", mode="stub", proved_in="tok"),
        Fn(GEN, "format_punctuated", sig_edits=[Hole("T: std::fmt::Display,", "", kind="proxy", why="the Display bound is only used for a width")], contract="""
    requires forall|i: int, s: Shape| 0 <= i < ppairs(*old).len() ==> #[trigger] value_formatter.requires((ctx, &pair_value(ppairs(*old)[i]), s)),
    ensures ppairs(r).len() == ppairs(*old).len(), //# C02.list_same_length
            forall|i: int| 0 <= i < ppairs(*old).len() ==> by_item_formatter(value_formatter, ctx, pair_value(#[trigger] ppairs(*old)[i]), pair_value(ppairs(r)[i])), //# C02.list_items_by_the_formatter
""", edits=[
            Hole("for pair in old.pairs() {", "let mut vx_it = peekable(old.pairs());\n    let ghost mut k: int = 0;\n    while let Some(pair) = vx_it.next() {", kind="desugar", why="for over an iterator: written as its definition, through the Peekable wrapper"),
            Hole("shape = shape.take_last_line(&value) + 2; // 2 = \", \"", "shape = shape + hole_usize();", why="Display width of the item"),
            After("let value = value_formatter(ctx, value, shape);", "proof { assert(by_item_formatter(value_formatter, ctx, *vx_in, value)); }", count=2),
            Hole("Pair::Punctuated(value, punctuation) => {", "Pair::Punctuated(value, punctuation) => { let ghost vx_in = value; proof { assert(value_formatter.requires((ctx, &pair_value(ppairs(*old)[k]), shape))); }", why="ghost name for the input item (the formatted one shadows it)"),
            Hole("Pair::End(value) => {", "Pair::End(value) => { let ghost vx_in = value; proof { assert(value_formatter.requires((ctx, &pair_value(ppairs(*old)[k]), shape))); }", why="ghost name for the input item"),
            Loop("while let Some(pair) = vx_it.next()", loop_inv("*old", "list", "by_item_formatter").replace("{FMT}", "value_formatter"), step="proof { k = k + 1; }"),
        ]),
        Fn(GEN, "format_punctuated_multiline", sig_edits=[Hole("T: Node + GetLeadingTrivia", "T: VNode + GetLeadingTrivia", kind="proxy", why="proxy trait for the sealed full_moon::node::Node")], contract="""
    requires forall|i: int, s: Shape| 0 <= i < ppairs(*old).len() ==> #[trigger] value_formatter.requires((ctx, &pair_value(ppairs(*old)[i]), s)),
    ensures ppairs(r).len() == ppairs(*old).len(), //# C02.list_same_length
            forall|i: int| 0 <= i < ppairs(*old).len() ==> by_item_formatter_modulo_trivia(value_formatter, ctx, pair_value(#[trigger] ppairs(*old)[i]), pair_value(ppairs(r)[i])), //# C02.list_items_by_the_formatter
""", edits=[
            Hole("for (idx, pair) in old.pairs().enumerate() {", "let mut vx_it = peekable(old.pairs());\n    let ghost mut k: int = 0;\n    let mut idx: usize = 0;\n    while let Some(pair) = vx_it.next() {", kind="desugar", why="for over an enumerated iterator: written as its definition (a counter next to the Peekable wrapper)"),
            Hole("punctuation.trailing_trivia().cloned().collect(),", "hole_vec_token(),", why="iterator chain: the trailing trivia of the formatted comma, joined behind the item's comments by join_trailing_trivia (verified in unit tok)"),
            Hole("Pair::Punctuated(value, punctuation) => {", "Pair::Punctuated(value, punctuation) => { let ghost vx_in = value; proof { assert(value_formatter.requires((ctx, &pair_value(ppairs(*old)[k]), shape))); }", why="ghost name for the input item (the formatted one shadows it) and the instance of the formatter's precondition"),
            Hole("Pair::End(value) => {", "Pair::End(value) => { let ghost vx_in = value; proof { assert(value_formatter.requires((ctx, &pair_value(ppairs(*old)[k]), shape))); }", why="ghost name for the input item and the instance of the formatter's precondition"),
            After("let value = value_formatter(ctx, value, shape);", "let ghost vx_v = value;", count=2),
            Hole("let value = value.update_trailing_trivia(FormatTriviaType::Replace(vec![]));", "let ghost vx_w = value; let value = value.update_trailing_trivia(FormatTriviaType::Replace(vec![]));\n                proof { assert(value_formatter.ensures((ctx, vx_in, shape), vx_v) && lead_rel(vx_v, vx_w) && trail_rel(vx_w, value)); }", why="proof hint: the three steps from the formatter's result to the pushed item"),
            Hole("formatted.push(Pair::new(value, None));", "proof { assert(value_formatter.ensures((ctx, vx_in, shape), vx_v) && lead_rel(vx_v, value) && trail_rel(value, value)); }\n                formatted.push(Pair::new(value, None));", why="proof hint for the last item"),
            Loop("while let Some(pair) = vx_it.next()", loop_inv("*old", "formatted", "by_item_formatter_modulo_trivia", extra="\n            idx == k,").replace("{FMT}", "value_formatter"), step="idx = idx + 1; proof { k = k + 1; }"),
        ]),
        Raw("""
pub trait HasInlineComments { fn has_inline_comments(&self) -> bool; }
""", module="formatters::trivia_util"),
        Fn(TU, "punctuated_inline_comments", mode="stub", note="looks for comments between the items: chooses between the two list layouts"),
        Fn(GEN, "try_format_punctuated", sig_edits=[Hole("T: Node\n        + GetLeadingTrivia", "T: VNode\n        + GetLeadingTrivia", kind="proxy", why="proxy trait for the sealed full_moon::node::Node"),
                                                     Hole("+ HasInlineComments\n        + std::fmt::Display,", "+ HasInlineComments,", kind="proxy", why="the Display bound is only used for a width")], contract="""
    requires forall|i: int, s: Shape| 0 <= i < ppairs(*old).len() ==> #[trigger] value_formatter.requires((ctx, &pair_value(ppairs(*old)[i]), s)),
    ensures ppairs(r).len() == ppairs(*old).len(), //# C02.list_same_length
            forall|i: int| 0 <= i < ppairs(*old).len() ==> by_item_formatter_modulo_trivia(value_formatter, ctx, pair_value(#[trigger] ppairs(*old)[i]), pair_value(ppairs(r)[i])), //# C02.list_items_by_the_formatter
""", edits=[
            Hole("format_punctuated(ctx, old, shape, value_formatter)", "{ let vx_r = format_punctuated(ctx, old, shape, value_formatter);\n        proof { assert forall|i: int| 0 <= i < ppairs(*old).len() implies by_item_formatter_modulo_trivia(value_formatter, ctx, pair_value(#[trigger] ppairs(*old)[i]), pair_value(ppairs(vx_r)[i])) by { let x = pair_value(ppairs(*old)[i]); let o = pair_value(ppairs(vx_r)[i]); assert(by_item_formatter(value_formatter, ctx, x, o)); let s = choose|s: Shape| value_formatter.ensures((ctx, &x, s), o); assert(value_formatter.ensures((ctx, &x, s), o) && lead_rel(o, o) && trail_rel(o, o)); } }\n        vx_r }", kind="ghost-name", why="proof hint: an item that is exactly the formatter's result is one up to trivia"),
        ]),
        Raw("pub assume_specification [TokenReference::new] (l: Vec<Token>, t: Token, tr: Vec<Token>) -> (r: TokenReference);", module="formatters::general"),
        Fn(GEN, "format_contained_punctuated_multiline", contract="""
    requires forall|i: int, s: Shape| 0 <= i < ppairs(*arguments).len() ==> #[trigger] argument_formatter.requires((ctx, &pair_value(ppairs(*arguments)[i]), s)),
    ensures ppairs(r.1).len() == ppairs(*arguments).len(), //# C02.list_same_length
            forall|i: int| 0 <= i < ppairs(*arguments).len() ==> by_item_formatter_modulo_trivia(argument_formatter, ctx, pair_value(#[trigger] ppairs(*arguments)[i]), pair_value(ppairs(r.1)[i])), //# C02.list_items_by_the_formatter
""", edits=[
            Hole("for argument in arguments.pairs() {", "let mut vx_it = peekable(arguments.pairs());\n    let ghost mut k: int = 0;\n    while let Some(argument) = vx_it.next() {", kind="desugar", why="for over an iterator: written as its definition, through the Peekable wrapper"),
            Hole("""let formatted_argument = argument_formatter(ctx, argument.value(), shape)
            .update_leading_trivia(FormatTriviaType::Append(vec![create_indent_trivia(
                ctx, shape,
            )]));""", """proof { assert(argument_formatter.requires((ctx, &pair_value(ppairs(*arguments)[k]), shape))); }
        let vx_first = argument_formatter(ctx, argument.value(), shape);
        let ghost vx_v = vx_first;
        let formatted_argument = vx_first
            .update_leading_trivia(FormatTriviaType::Append(vec![create_indent_trivia(
                ctx, shape,
            )]));
        let ghost vx_w = formatted_argument;""", kind="ghost-name", why="the formatter's result and the indented item get ghost names (a `let` splits the method chain; no executable effect)"),
            Hole("formatted_argument.trailing_comments_search(CommentSearch::Multiline);", "hole_vec_token();", why="GetTrailingTrivia default method (iterator chain): comment handling, see C03"),
            Hole("formatted_argument.trailing_comments_search(CommentSearch::Single);", "hole_vec_token();", why="GetTrailingTrivia default method (iterator chain): comment handling, see C03"),
            Between("let leading_comments: Vec<_> = symbol", ".collect();", "let leading_comments: Vec<Token> = hole_vec_token();", why="iterator chain: the comments in front of the comma, each put on a line of its own"),
            Hole("symbol.trailing_trivia().cloned().collect(),", "hole_vec_token(),", why="iterator chain: the trailing trivia of the formatted comma; the three lists are joined by join_trailing_trivia (verified in unit tok)"),
            Hole("formatted_arguments.push(Pair::new(formatted_argument, punctuation))", "proof { assert(argument_formatter.ensures((ctx, &pair_value(ppairs(*arguments)[k]), shape), vx_v) && lead_rel(vx_v, vx_w) && trail_rel(vx_w, formatted_argument)); }\n        formatted_arguments.push(Pair::new(formatted_argument, punctuation))", why="proof hint: the three steps from the formatter's result to the pushed item"),
            Loop("while let Some(argument) = vx_it.next()", loop_inv("*arguments", "formatted_arguments", "by_item_formatter_modulo_trivia").replace("{FMT}", "argument_formatter"), step="proof { k = k + 1; }"),
        ]),
    ]
    return its

LABELS = {
    "C02.list_same_length": dict(props=["C02"], text="the list formatters return as many items as they are given"),
    "C02.list_items_by_the_formatter": dict(props=["C02"], text="item i of the result is what the item formatter returns for item i of the input (same order; multi-line variants: up to the trivia put around it)"),
    "C02.list_loop": dict(props=["C02"], text="list formatter loop invariant: the items pushed so far correspond one to one to the input's"),
}

UNIT = Unit("lists", items() + [VERIF_MOD], LABELS, macros=[(GEN, "fmt_symbol")], header=HEADER + "use full_moon::ast::punctuated::Pair;\n")
