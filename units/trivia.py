"""Unit `trivia`: src/formatters/trivia.rs — the trivia updaters themselves.

Every other unit treats `update_leading_trivia` / `update_trailing_trivia` / `update_trivia` as assumed interfaces (prelude/traits.rs, class C:
"changing trivia never changes the token / operator / skeleton of a node, Append puts the new trivia behind the old ones, ..."). This unit
verifies the real text of the implementations those assumptions stand for, bottom up:

    impl UpdateTrivia for TokenReference                              (real text)
    impl<T: UpdateTrivia> UpdateLeadingTrivia / UpdateTrailingTrivia  (the two blanket impls, real text)
    impl UpdateLeading/TrailingTrivia for Punctuated<T>               (real text, real loop)
    the impls /repo writes through define_update_trivia! and its two siblings (gen.MacroImpl writes the expansion out; the macro definitions
    are pinned by SHA-256): ContainedSpan, BinOp, UnOp, Expression (both), Var (both), VarExpression, FunctionCall, TableConstructor, FunctionBody,
    FunctionArgs, Call, MethodCall, Index, Suffix, Parameter, FunctionName, If, Assignment, LocalAssignment, Attribute, Return, Stmt, LastStmt

and then proves, as lemmas, that the clauses the other units assume for TokenReference / ContainedSpan / BinOp (read from prelude/traits.rs at
generation time, not copied) follow from what was verified — under definitions that give the uninterpreted token-level line facts their
meaning over the trivia lists (`axiom_token_lines`: definitional).

Assumed in this unit: Prefix (two four-line matches — the walk Expression -> Var / FunctionCall -> Prefix -> Expression is a cycle through trait
implementations, and Verus wants the implementations of a trait with spec functions in an order without cycles: one of them has to stay an
interface), the Luau nodes (TypeInfo and friends: the same kind of cycle through the blanket implementations), and that a frame — "only the
trivia of the first / last token change" — keeps the identity of a leaf (var_id, call_id, table_id, anon_fn_id: one definitional axiom each).

The traits carry one generic postcondition each (`ut_post`, `ul_post`, `utt_post`): that is an annotation of the real trait declarations
(extracted from trivia.rs; a spec function and an `ensures` are spliced in)."""
import os, re
from gen import Unit, Fn, Item, Raw, RawFile, Hole, After, Before, Loop, Between, MacroImpl
from common import *
import lists as LISTS

ROOT = os.path.dirname(os.path.dirname(os.path.abspath(__file__)))
M = "formatters::trivia"

# ---- the proxies' clauses, read from prelude/traits.rs -------------------------------------------------------------
def proxy_clauses(trait, ty):
    """{spec fn name: (params, body)} of `impl <trait> for <ty>` in prelude/traits.rs"""
    t = open(os.path.join(ROOT, "prelude/traits.rs")).read()
    m = re.search(r"(?m)^impl " + trait + r" for " + re.escape(ty) + r" \{\n(.*?)^\}", t, re.S)
    if not m: raise Exception(f"prelude/traits.rs: impl {trait} for {ty} not found")
    out = {}
    for f in re.finditer(r"open spec fn (\w+)\(&self(?:, )?([^)]*)\) -> bool \{(.*?)\n?\s*\}\n", m.group(1), re.S):
        out[f.group(1)] = (f.group(2), f.group(3).strip())
    return out

def as_free_fn(name, ty, params, body):
    """a proxy clause as a free spec function over (s: ty, ...)"""
    body = re.sub(r"//[^\n]*", "", body)
    body = body.replace("*self", "s").replace("*r", "rr")
    ps = ", ".join(p.replace("r: &Self", "rr: " + ty).strip() for p in params.split(",") if p.strip())
    return f"pub open spec fn {name}(s: {ty}{', ' if ps else ''}{ps}) -> bool {{ {body} }}\n"

def proxy_specs():
    out = []
    for trait, ty, pre in [("UpdateLeadingTrivia", "TokenReference", "ptr"), ("UpdateTrailingTrivia", "TokenReference", "ptr"), ("UpdateTrivia", "TokenReference", "ptr"),
                           ("UpdateLeadingTrivia", "ContainedSpan", "pcs"), ("UpdateTrailingTrivia", "ContainedSpan", "pcs"),
                           ("UpdateLeadingTrivia", "BinOp", "pbo"), ("UpdateTrailingTrivia", "BinOp", "pbo"), ("UpdateTrivia", "BinOp", "pbo")]:
        for n, (params, body) in proxy_clauses(trait, ty).items():
            out.append(as_free_fn(f"{pre}_{n}", ty, params, body))
    return "".join(out)

TRAITS = [
    Item(TRV, "trait", "UpdateLeadingTrivia", module=M, edits=[
        Hole("pub trait UpdateLeadingTrivia {", "pub trait UpdateLeadingTrivia: Sized {", kind="proxy", why="a named return value of type Self needs `Self: Sized` (every implementor is)"),
        Hole("fn update_leading_trivia(&self, leading_trivia: FormatTriviaType) -> Self;",
             "spec fn ul_post(&self, l: FormatTriviaType, r: &Self) -> bool;\n    fn update_leading_trivia(&self, leading_trivia: FormatTriviaType) -> (r: Self) ensures self.ul_post(leading_trivia, &r); //# C03.update_leading_trivia_contract",
             kind="contract", why="the trait's contract: one postcondition, defined per implementation")]),
    Item(TRV, "trait", "UpdateTrailingTrivia", module=M, edits=[
        Hole("pub trait UpdateTrailingTrivia {", "pub trait UpdateTrailingTrivia: Sized {", kind="proxy", why="a named return value of type Self needs `Self: Sized` (every implementor is)"),
        Hole("fn update_trailing_trivia(&self, trailing_trivia: FormatTriviaType) -> Self;",
             "spec fn utt_post(&self, t: FormatTriviaType, r: &Self) -> bool;\n    fn update_trailing_trivia(&self, trailing_trivia: FormatTriviaType) -> (r: Self) ensures self.utt_post(trailing_trivia, &r); //# C03.update_trailing_trivia_contract",
             kind="contract", why="the trait's contract: one postcondition, defined per implementation")]),
    Item(TRV, "trait", "UpdateTrivia", module=M, edits=[
        Hole("pub trait UpdateTrivia {", "pub trait UpdateTrivia: Sized {", kind="proxy", why="a named return value of type Self needs `Self: Sized` (every implementor is)"),
        Hole("fn update_trivia(\n        &self,\n        leading_trivia: FormatTriviaType,\n        trailing_trivia: FormatTriviaType,\n    ) -> Self;",
             "spec fn ut_post(&self, l: FormatTriviaType, t: FormatTriviaType, r: &Self) -> bool;\n    fn update_trivia(\n        &self,\n        leading_trivia: FormatTriviaType,\n        trailing_trivia: FormatTriviaType,\n    ) -> (r: Self) ensures self.ut_post(leading_trivia, trailing_trivia, &r); //# C03.update_trivia_contract",
             kind="contract", why="the trait's contract: one postcondition, defined per implementation")]),
]

SPEC = r"""
// what a FormatTriviaType makes of a trivia list
pub open spec fn applied(old_: Seq<Token>, t: FormatTriviaType) -> Seq<Token> {
    match t { FormatTriviaType::Append(v) => old_ + v@, FormatTriviaType::Replace(v) => v@, FormatTriviaType::NoChange => old_ }
}
// the whole effect of update_trivia on a token reference: the token itself stays, both lists are what the request makes of them
pub open spec fn token_post(s: TokenReference, l: FormatTriviaType, t: FormatTriviaType, r: TokenReference) -> bool {
    &&& tr_token(r) == tr_token(s)
    &&& tr_lead(r) == applied(tr_lead(s), l)
    &&& tr_trail(r) == applied(tr_trail(s), t)
}
pub assume_specification [TokenReference::new] (l: Vec<Token>, t: Token, tr: Vec<Token>) -> (r: TokenReference)
    ensures tr_lead(r) == l@, tr_token(r) == t, tr_trail(r) == tr@;
#[verifier::external_body] pub fn lead_owned(t: &TokenReference) -> (r: Vec<Token>) ensures r@ == tr_lead(*t) { unimplemented!() /* t.leading_trivia().map(|x| x.to_owned()).collect() */ }
#[verifier::external_body] pub fn trail_owned(t: &TokenReference) -> (r: Vec<Token>) ensures r@ == tr_trail(*t) { unimplemented!() /* t.trailing_trivia().map(|x| x.to_owned()).collect() */ }

// ---- the meaning of the token-level line facts (prelude/lines.rs leaves them uninterpreted; their comments say what they mean) ----
// a line comment that no newline follows
pub open spec fn trail_open(v: Seq<Token>) -> bool { exists|i: int| 0 <= i < v.len() && is_line_comment_tok(#[trigger] v[i]) && forall|j: int| i < j < v.len() ==> !is_newline_tok(#[trigger] v[j]) }
pub proof fn axiom_token_lines(t: TokenReference)
    ensures tok_open(t) == trail_open(tr_trail(t)),              // "the trailing trivia of t ends with a line comment that no newline follows"
            tok_nl(t) == puts_on_new_line(tr_lead(t)),            // "the leading trivia of t puts the token itself at the start of a new line"
            tok_followed_by_ws(t) == (tr_trail(t).len() > 0),     // something stands between the token and what is printed next
            tok_of(t) == tok_of_token(tr_token(t)),               // the identity of a token reference is that of its token
            tok_has_single_comment(t) == has_single(tr_trail(t)), // has_trailing_comments(Single): a single line comment somewhere in the trailing trivia
{ admit(); }
pub uninterp spec fn tok_has_single_comment(t: TokenReference) -> bool;
pub open spec fn has_single(v: Seq<Token>) -> bool { exists|i: int| 0 <= i < v.len() && is_line_comment_tok(#[trigger] v[i]) }
pub proof fn lemma_has_single_append_plain(a: Seq<Token>, b: Seq<Token>)
    requires forall|i: int| 0 <= i < b.len() ==> !is_line_comment_tok(#[trigger] b[i]),
    ensures has_single(a + b) == has_single(a),
{
    let v = a + b;
    if has_single(v) { let i = choose|i: int| 0 <= i < v.len() && is_line_comment_tok(#[trigger] v[i]); if i >= a.len() { assert(v[i] == b[i - a.len()]); } else { assert(a[i] == v[i]); } }
    if has_single(a) { let i = choose|i: int| 0 <= i < a.len() && is_line_comment_tok(#[trigger] a[i]); assert(v[i] == a[i]); }
}
pub uninterp spec fn tok_of_token(t: Token) -> int;
pub proof fn axiom_tok_of_all() ensures forall|t: TokenReference| #[trigger] tok_of(t) == tok_of_token(tr_token(t)) { assert forall|t: TokenReference| #[trigger] tok_of(t) == tok_of_token(tr_token(t)) by { axiom_token_lines(t); } }
pub uninterp spec fn tok_followed_by_ws(t: TokenReference) -> bool;
pub open spec fn append_ends_with_space(t: FormatTriviaType) -> bool { t is Append && t->Append_0@.len() > 0 && token_type_of(t->Append_0@.last()) == spaces_tt(1) }
pub open spec fn ftt_lines_ok(t: FormatTriviaType) -> bool {
    match t { FormatTriviaType::Append(v) => trivia_lines_ok(v@), FormatTriviaType::Replace(v) => trivia_lines_ok(v@), FormatTriviaType::NoChange => true }
}
pub open spec fn ftt_new_line(t: FormatTriviaType) -> bool {
    match t { FormatTriviaType::Append(v) => puts_on_new_line(v@), FormatTriviaType::Replace(v) => puts_on_new_line(v@), FormatTriviaType::NoChange => false }
}
pub open spec fn no_line_comment(v: Seq<Token>) -> bool { forall|i: int| 0 <= i < v.len() ==> !is_line_comment_tok(#[trigger] v[i]) }
pub uninterp spec fn binop_lead_trivia(b: BinOp) -> Seq<Token>;
pub uninterp spec fn binop_trail_trivia(b: BinOp) -> Seq<Token>;
"""

LIST_SPEC = r"""
#[verifier::external_type_specification] pub struct ExParameter(Parameter);
#[verifier::external_type_specification] #[verifier::reject_recursive_types(T)] pub struct ExPair<T>(Pair<T>);
pub uninterp spec fn ppairs<T>(p: Punctuated<T>) -> Seq<Pair<T>>;
pub open spec fn pair_value<T>(p: Pair<T>) -> T { match p { Pair::End(v) => v, Pair::Punctuated(v, _) => v } }
pub open spec fn pair_punct<T>(p: Pair<T>) -> Option<TokenReference> { match p { Pair::End(_) => None, Pair::Punctuated(_, t) => Some(t) } }
pub open spec fn mk_pair<T>(v: T, p: Option<TokenReference>) -> Pair<T> { match p { Some(t) => Pair::Punctuated(v, t), None => Pair::End(v) } }
pub assume_specification<T> [Punctuated::<T>::new] () -> (r: Punctuated<T>) ensures ppairs(r).len() == 0;
pub assume_specification<T> [Punctuated::<T>::push] (p: &mut Punctuated<T>, pair: Pair<T>) ensures ppairs(*final(p)) == ppairs(*old(p)).push(pair);
pub assume_specification<T> [Punctuated::<T>::pop] (p: &mut Punctuated<T>) -> (r: Option<Pair<T>>)
    ensures ppairs(*old(p)).len() == 0 ==> r is None && ppairs(*final(p)) == ppairs(*old(p)),
            ppairs(*old(p)).len() > 0 ==> r == Some(ppairs(*old(p)).last()) && ppairs(*final(p)) == ppairs(*old(p)).drop_last();
pub assume_specification<T> [Punctuated::<T>::into_pairs] (p: Punctuated<T>) -> (r: impl Iterator<Item = Pair<T>>) ensures it_rest(&r) == ppairs(p);
pub assume_specification<T> [Punctuated::<T>::is_empty] (p: &Punctuated<T>) -> (r: bool) ensures r == (ppairs(*p).len() == 0);
pub assume_specification<T> [Pair::<T>::new] (v: T, p: Option<TokenReference>) -> (r: Pair<T>) ensures r == mk_pair(v, p);
pub assume_specification<T> [Pair::<T>::value] (p: &Pair<T>) -> (r: &T) ensures *r == pair_value(*p);
pub assume_specification<T> [Pair::<T>::punctuation] (p: &Pair<T>) -> (r: Option<&TokenReference>) ensures (r is Some) == (pair_punct(*p) is Some), r is Some ==> *r->Some_0 == pair_punct(*p)->Some_0;
// Pair::map applies the closure to the value and keeps the punctuation
pub assume_specification<T, U, F: FnOnce(T) -> U> [Pair::<T>::map] (p: Pair<T>, f: F) -> (r: Pair<U>)
    requires f.requires((pair_value(p),)), ensures f.ensures((pair_value(p),), pair_value(r)), pair_punct(r) == pair_punct(p);
#[verifier::external_body] pub fn peekable<I: Iterator>(it: I) -> (r: std::iter::Peekable<I>) ensures pk_rest(&r) == it_rest(&it) { it.peekable() }
#[verifier::external_body] pub fn cloned_value<T: Clone>(x: &T) -> (r: T) ensures r == *x { unimplemented!() /* x.clone() */ }
#[verifier::external_body] pub fn owned_punctuation(p: Option<&TokenReference>) -> (r: Option<TokenReference>) ensures (r is Some) == (p is Some), r is Some ==> r->Some_0 == *p->Some_0 { unimplemented!() /* p.map(|x| x.to_owned()) */ }
pub assume_specification<T: Clone> [<Punctuated<T> as Clone>::clone] (p: &Punctuated<T>) -> (r: Punctuated<T>) ensures r == *p;
// the postcondition of the two list implementations: the first (last) item is updated, every other pair is the pair it was
pub open spec fn list_lead_post<T: UpdateLeadingTrivia>(s: Punctuated<T>, l: FormatTriviaType, r: Punctuated<T>) -> bool {
    &&& ppairs(r).len() == ppairs(s).len()
    &&& ppairs(s).len() > 0 ==> pair_value(ppairs(s)[0]).ul_post(l, &pair_value(ppairs(r)[0])) && pair_punct(ppairs(r)[0]) == pair_punct(ppairs(s)[0])
    &&& forall|i: int| 1 <= i < ppairs(s).len() ==> #[trigger] ppairs(r)[i] == ppairs(s)[i]
}
pub open spec fn list_trail_post<T: UpdateTrailingTrivia>(s: Punctuated<T>, t: FormatTriviaType, r: Punctuated<T>) -> bool {
    &&& ppairs(r).len() == ppairs(s).len()
    &&& ppairs(s).len() > 0 ==> pair_value(ppairs(s).last()).utt_post(t, &pair_value(ppairs(r).last())) && pair_punct(ppairs(r).last()) == pair_punct(ppairs(s).last())
    &&& forall|i: int| 0 <= i < ppairs(s).len() - 1 ==> #[trigger] ppairs(r)[i] == ppairs(s)[i]
}
pub proof fn lemma_pair_ext<T>(p: Pair<T>) ensures p == mk_pair(pair_value(p), pair_punct(p)) { }
"""

NODE_SPEC = (node_specs("TableConstructor", "n_tc", [("braces", "ContainedSpan", "ref")], rest=True)
    + node_specs("FunctionBody", "n_fb", [("end_token", "TokenReference", "ref")], rest=True)
    + node_specs("MethodCall", "n_mc", [("colon_token", "TokenReference", "ref"), ("args", "FunctionArgs", "ref")], rest=True)
    + node_specs("If", "n_if", [("if_token", "TokenReference", "ref"), ("end_token", "TokenReference", "ref")], rest=True)
    + node_specs("Assignment", "n_asg", [("variables", "Punctuated<Var>", "ref"), ("expressions", "Punctuated<Expression>", "ref")], rest=True)
    + node_specs("Return", "n_ret", [("token", "TokenReference", "ref"), ("returns", "Punctuated<Expression>", "ref")], rest=True)
    + r"""
// the leaves of an expression: their own implementations (FunctionCall, TableConstructor, Var, FunctionBody, the Luau nodes) are not under
// contract in this unit; assumed: they keep the identity of the leaf (class C, the same assumption the other units make through
// prelude/traits.rs). What IS verified below is the walk of the Expression implementations down to the first / last token.
// Var, VarExpression, FunctionCall, TableConstructor: real text below. Their postconditions are frames (which part is updated, what stays);
// that a frame keeps the identity of the leaf (var_id, call_id, table_id: uninterpreted in prelude/skel.rs, "the leaf's non-trivia content")
// is stated as what identity means (definitional axioms, one per leaf kind)
pub uninterp spec fn fc_prefix(c: FunctionCall) -> Prefix;
pub uninterp spec fn fc_suffixes(c: FunctionCall) -> Seq<Suffix>;
pub uninterp spec fn fc_rest(c: FunctionCall) -> int;
pub uninterp spec fn ve_prefix(c: VarExpression) -> Prefix;
pub uninterp spec fn ve_suffixes(c: VarExpression) -> Seq<Suffix>;
pub uninterp spec fn ve_rest(c: VarExpression) -> int;
pub assume_specification [FunctionCall::prefix] (c: &FunctionCall) -> (r: &Prefix) ensures *r == fc_prefix(*c);
pub assume_specification [FunctionCall::with_prefix] (c: FunctionCall, p: Prefix) -> (r: FunctionCall) ensures fc_prefix(r) == p, fc_suffixes(r) == fc_suffixes(c), fc_rest(r) == fc_rest(c);
pub assume_specification [FunctionCall::with_suffixes] (c: FunctionCall, v: Vec<Suffix>) -> (r: FunctionCall) ensures fc_suffixes(r) == v@, fc_prefix(r) == fc_prefix(c), fc_rest(r) == fc_rest(c);
pub assume_specification [<FunctionCall as Clone>::clone] (c: &FunctionCall) -> (r: FunctionCall) ensures r == *c;
pub assume_specification [VarExpression::prefix] (c: &VarExpression) -> (r: &Prefix) ensures *r == ve_prefix(*c);
pub assume_specification [VarExpression::with_prefix] (c: VarExpression, p: Prefix) -> (r: VarExpression) ensures ve_prefix(r) == p, ve_suffixes(r) == ve_suffixes(c), ve_rest(r) == ve_rest(c);
pub assume_specification [VarExpression::with_suffixes] (c: VarExpression, v: Vec<Suffix>) -> (r: VarExpression) ensures ve_suffixes(r) == v@, ve_prefix(r) == ve_prefix(c), ve_rest(r) == ve_rest(c);
pub assume_specification [<VarExpression as Clone>::clone] (c: &VarExpression) -> (r: VarExpression) ensures r == *c;
pub assume_specification [<Prefix as Clone>::clone] (c: &Prefix) -> (r: Prefix) ensures r == *c;
#[verifier::external_body] pub fn fc_owned_suffixes(c: &FunctionCall) -> (r: Vec<Suffix>) ensures r@ == fc_suffixes(*c) { unimplemented!() /* c.suffixes().map(|x| x.to_owned()).collect() */ }
#[verifier::external_body] pub fn ve_owned_suffixes(c: &VarExpression) -> (r: Vec<Suffix>) ensures r@ == ve_suffixes(*c) { unimplemented!() /* c.suffixes().map(|x| x.to_owned()).collect() */ }
// prefix and last suffix updated as asked (an untouched side stays exactly what it was), every other suffix and everything else the same
pub open spec fn chain_post(p1: Prefix, s1: Seq<Suffix>, l: FormatTriviaType, t: FormatTriviaType, p2: Prefix, s2: Seq<Suffix>) -> bool {
    &&& (if l is NoChange { p2 == p1 } else { p1.ul_post(l, &p2) })
    &&& s2.len() == s1.len()
    &&& (forall|i: int| 0 <= i < s1.len() - 1 ==> #[trigger] s2[i] == s1[i])
    &&& (s1.len() > 0 ==> (if t is NoChange { s2.last() == s1.last() } else { s1.last().utt_post(t, &s2.last()) }))
}
pub open spec fn var_lead_frame(s: Var, l: FormatTriviaType, r: Var) -> bool {
    match (s, r) { (Var::Name(a), Var::Name(b)) => a.ul_post(l, &b), (Var::Expression(a), Var::Expression(b)) => a.ul_post(l, &*b), _ => false }
}
pub open spec fn var_trail_frame(s: Var, t: FormatTriviaType, r: Var) -> bool {
    match (s, r) { (Var::Name(a), Var::Name(b)) => a.utt_post(t, &b), (Var::Expression(a), Var::Expression(b)) => a.utt_post(t, &*b), _ => false }
}
// identity of a leaf = its content with the trivia of its first and last token left out (what the frames above change)
pub proof fn axiom_var_id(s: Var, r: Var, l: FormatTriviaType, t: FormatTriviaType) requires var_lead_frame(s, l, r) || var_trail_frame(s, t, r), ensures var_id(r) == var_id(s) { admit(); }
pub proof fn axiom_call_id(s: FunctionCall, r: FunctionCall, l: FormatTriviaType, t: FormatTriviaType)
    requires chain_post(fc_prefix(s), fc_suffixes(s), l, t, fc_prefix(r), fc_suffixes(r)), fc_rest(r) == fc_rest(s), ensures call_id(r) == call_id(s) { admit(); }
pub proof fn axiom_table_id(s: TableConstructor, r: TableConstructor, l: FormatTriviaType, t: FormatTriviaType)
    requires n_tc_braces(&s).ut_post(l, t, &n_tc_braces(&r)), n_tc_rest(&r) == n_tc_rest(&s), ensures table_id(r) == table_id(s) { admit(); }
// the identity of an anonymous function is that of its `function` token and of its body; a body's identity is that of everything in it but
// the trivia of its `end` token (definitional)
pub proof fn axiom_anon_fn(a: (TokenReference, FunctionBody), b: (TokenReference, FunctionBody))
    requires tok_of(a.0) == tok_of(b.0), n_fb_rest(&a.1) == n_fb_rest(&b.1), tok_of(n_fb_end_token(&a.1)) == tok_of(n_fb_end_token(&b.1)), ensures anon_fn_id(a) == anon_fn_id(b) { admit(); }
#[cfg(feature = "luau")] impl UpdateLeadingTrivia for full_moon::ast::luau::IfExpression {
    open spec fn ul_post(&self, l: FormatTriviaType, r: &Self) -> bool { if_id(*r) == if_id(*self) }
    #[verifier::external_body] fn update_leading_trivia(&self, leading_trivia: FormatTriviaType) -> (r: Self) { unimplemented!() }
}
#[cfg(feature = "luau")] impl UpdateTrailingTrivia for full_moon::ast::luau::IfExpression {
    open spec fn utt_post(&self, t: FormatTriviaType, r: &Self) -> bool { if_id(*r) == if_id(*self) }
    #[verifier::external_body] fn update_trailing_trivia(&self, trailing_trivia: FormatTriviaType) -> (r: Self) { unimplemented!() }
}
#[cfg(feature = "luau")] impl UpdateLeadingTrivia for full_moon::ast::luau::InterpolatedString {
    open spec fn ul_post(&self, l: FormatTriviaType, r: &Self) -> bool { interp_id(*r) == interp_id(*self) }
    #[verifier::external_body] fn update_leading_trivia(&self, leading_trivia: FormatTriviaType) -> (r: Self) { unimplemented!() }
}
#[cfg(feature = "luau")] impl UpdateTrailingTrivia for full_moon::ast::luau::InterpolatedString {
    open spec fn utt_post(&self, t: FormatTriviaType, r: &Self) -> bool { interp_id(*r) == interp_id(*self) }
    #[verifier::external_body] fn update_trailing_trivia(&self, trailing_trivia: FormatTriviaType) -> (r: Self) { unimplemented!() }
}
#[cfg(feature = "luau")] impl UpdateTrivia for full_moon::ast::luau::TypeAssertion {
    open spec fn ut_post(&self, l: FormatTriviaType, t: FormatTriviaType, r: &Self) -> bool { type_assertion_id(*r) == type_assertion_id(*self) }
    #[verifier::external_body] fn update_trivia(&self, leading_trivia: FormatTriviaType, trailing_trivia: FormatTriviaType) -> (r: Self) { unimplemented!() }
}
// the walk of the two Expression implementations: exactly the part that holds the first (last) token is updated, by that part's own
// implementation; every other part of the expression is the part it was
pub open spec fn lead_only(s: Expression, l: FormatTriviaType, r: Expression) -> bool
    decreases s
{
    match (s, r) {
        (Expression::Parentheses { contained: c1, expression: e1 }, Expression::Parentheses { contained: c2, expression: e2 }) => e2 == e1 && c1.ul_post(l, &c2),
        (Expression::UnaryOperator { unop: u1, expression: e1 }, Expression::UnaryOperator { unop: u2, expression: e2 }) => e2 == e1 && u1.ul_post(l, &u2),
        (Expression::BinaryOperator { lhs: l1, binop: b1, rhs: r1 }, Expression::BinaryOperator { lhs: l2, binop: b2, rhs: r2 }) => b2 == b1 && r2 == r1 && lead_only(*l1, l, *l2),
        (Expression::Function(f1), Expression::Function(f2)) => f2.1 == f1.1 && f1.0.ul_post(l, &f2.0),
        (Expression::FunctionCall(a), Expression::FunctionCall(b)) => a.ul_post(l, &b),
        (Expression::Number(a), Expression::Number(b)) => a.ul_post(l, &b),
        (Expression::String(a), Expression::String(b)) => a.ul_post(l, &b),
        (Expression::Symbol(a), Expression::Symbol(b)) => a.ul_post(l, &b),
        (Expression::TableConstructor(a), Expression::TableConstructor(b)) => a.ul_post(l, &b),
        (Expression::Var(a), Expression::Var(b)) => a.ul_post(l, &b),
        #[cfg(feature = "luau")] (Expression::IfExpression(a), Expression::IfExpression(b)) => a.ul_post(l, &b),
        #[cfg(feature = "luau")] (Expression::InterpolatedString(a), Expression::InterpolatedString(b)) => a.ul_post(l, &b),
        #[cfg(feature = "luau")] (Expression::TypeAssertion { expression: e1, type_assertion: t1 }, Expression::TypeAssertion { expression: e2, type_assertion: t2 }) => t2 == t1 && lead_only(*e1, l, *e2),
        _ => false,
    }
}
pub open spec fn trail_only(s: Expression, t: FormatTriviaType, r: Expression) -> bool
    decreases s
{
    match (s, r) {
        (Expression::Parentheses { contained: c1, expression: e1 }, Expression::Parentheses { contained: c2, expression: e2 }) => e2 == e1 && c1.utt_post(t, &c2),
        (Expression::UnaryOperator { unop: u1, expression: e1 }, Expression::UnaryOperator { unop: u2, expression: e2 }) => u2 == u1 && trail_only(*e1, t, *e2),
        (Expression::BinaryOperator { lhs: l1, binop: b1, rhs: r1 }, Expression::BinaryOperator { lhs: l2, binop: b2, rhs: r2 }) => b2 == b1 && l2 == l1 && trail_only(*r1, t, *r2),
        (Expression::Function(f1), Expression::Function(f2)) => f2.0 == f1.0 && f1.1.utt_post(t, &f2.1),
        (Expression::FunctionCall(a), Expression::FunctionCall(b)) => a.utt_post(t, &b),
        (Expression::Number(a), Expression::Number(b)) => a.utt_post(t, &b),
        (Expression::String(a), Expression::String(b)) => a.utt_post(t, &b),
        (Expression::Symbol(a), Expression::Symbol(b)) => a.utt_post(t, &b),
        (Expression::TableConstructor(a), Expression::TableConstructor(b)) => a.utt_post(t, &b),
        (Expression::Var(a), Expression::Var(b)) => a.utt_post(t, &b),
        #[cfg(feature = "luau")] (Expression::IfExpression(a), Expression::IfExpression(b)) => a.utt_post(t, &b),
        #[cfg(feature = "luau")] (Expression::InterpolatedString(a), Expression::InterpolatedString(b)) => a.utt_post(t, &b),
        #[cfg(feature = "luau")] (Expression::TypeAssertion { expression: e1, type_assertion: t1 }, Expression::TypeAssertion { expression: e2, type_assertion: t2 }) => e2 == e1 && t1.utt_post(t, &t2),
        _ => false,
    }
}
pub open spec fn last_tok(l: LastStmt) -> TokenReference { match l { LastStmt::Break(t) => t, #[cfg(feature = "luau")] LastStmt::Continue(t) => t, _ => some_token() } }
""")

IMPL_SPECS = {
    "ContainedSpan": "    open spec fn ut_post(&self, l: FormatTriviaType, t: FormatTriviaType, r: &Self) -> bool { span_open(*self).ul_post(l, &span_open(*r)) && span_close(*self).utt_post(t, &span_close(*r)) }\n",
    "BinOp": "    open spec fn ut_post(&self, l: FormatTriviaType, t: FormatTriviaType, r: &Self) -> bool { binop_id(*r) == binop_id(*self) && binop_tok(*self).ut_post(l, t, &binop_tok(*r)) }\n",
    "If": "    open spec fn ut_post(&self, l: FormatTriviaType, t: FormatTriviaType, r: &Self) -> bool { n_if_if_token(self).ul_post(l, &n_if_if_token(r)) && n_if_end_token(self).utt_post(t, &n_if_end_token(r)) && n_if_rest(r) == n_if_rest(self) }\n",
    "Assignment": "    open spec fn ut_post(&self, l: FormatTriviaType, t: FormatTriviaType, r: &Self) -> bool { n_asg_variables(self).ul_post(l, &n_asg_variables(r)) && n_asg_expressions(self).utt_post(t, &n_asg_expressions(r)) && n_asg_rest(r) == n_asg_rest(self) }\n",
    "Return": """    open spec fn ut_post(&self, l: FormatTriviaType, t: FormatTriviaType, r: &Self) -> bool {
        &&& n_ret_rest(r) == n_ret_rest(self)
        &&& ppairs(n_ret_returns(self)).len() == 0 ==> n_ret_token(self).ut_post(l, t, &n_ret_token(r)) && n_ret_returns(r) == n_ret_returns(self)
        &&& ppairs(n_ret_returns(self)).len() > 0 ==> n_ret_token(self).ul_post(l, &n_ret_token(r)) && n_ret_returns(self).utt_post(t, &n_ret_returns(r))
    }
""",
    "LastStmt": """    open spec fn ut_post(&self, l: FormatTriviaType, t: FormatTriviaType, r: &Self) -> bool {
        match *self {
            LastStmt::Break(a) => match *r { LastStmt::Break(b) => a.ut_post(l, t, &b), _ => false },
            #[cfg(feature = "luau")] LastStmt::Continue(a) => match *r { LastStmt::Continue(b) => a.ut_post(l, t, &b), _ => false },
            LastStmt::Return(a) => match *r { LastStmt::Return(b) => a.ut_post(l, t, &b), _ => false },
            _ => false,
        }
    }
""",
}
# ---- Stmt: the first token's leading trivia and the last token's trailing trivia, per kind of statement
LU_ = '#[cfg(feature = "luau")] '
L52_ = '#[cfg(any(feature = "lua52", feature = "luajit"))] '
# (variant, node type, prefix, leading field, its type, trailing field, its type, cfg)
STMT_TOKEN_PAIRS = [
    ("Repeat", "Repeat", "n_rep", "repeat_token", "TokenReference", "until", "Expression", ""),
    ("Do", "Do", "n_do", "do_token", "TokenReference", "end_token", "TokenReference", ""),
    ("GenericFor", "GenericFor", "n_gf", "for_token", "TokenReference", "end_token", "TokenReference", ""),
    ("FunctionDeclaration", "FunctionDeclaration", "n_fd", "function_token", "TokenReference", "body", "FunctionBody", ""),
    ("LocalFunction", "LocalFunction", "n_lf", "local_token", "TokenReference", "body", "FunctionBody", ""),
    ("NumericFor", "NumericFor", "n_nf", "for_token", "TokenReference", "end_token", "TokenReference", ""),
    ("While", "While", "n_wh", "while_token", "TokenReference", "end_token", "TokenReference", ""),
    ("CompoundAssignment", "full_moon::ast::luau::CompoundAssignment", "n_ca", "lhs", "Var", "rhs", "Expression", LU_),
    ("ExportedTypeDeclaration", "full_moon::ast::luau::ExportedTypeDeclaration", "n_etd", "export_token", "TokenReference", "type_declaration", "full_moon::ast::luau::TypeDeclaration", LU_),
    ("ExportedTypeFunction", "full_moon::ast::luau::ExportedTypeFunction", "n_etf", "export_token", "TokenReference", "type_function", "full_moon::ast::luau::TypeFunction", LU_),
    ("Goto", "full_moon::ast::lua52::Goto", "n_goto", "goto_token", "TokenReference", "label_name", "TokenReference", L52_),
    ("Label", "full_moon::ast::lua52::Label", "n_label", "left_colons", "TokenReference", "right_colons", "TokenReference", L52_),
]
STMT_WHOLE = [("Assignment", ""), ("LocalAssignment", ""), ("FunctionCall", ""), ("If", ""), ("TypeDeclaration", LU_), ("TypeFunction", LU_)]
STMT_NODE_SPEC = "".join(node_specs(ty, pre, [(lf, lt, "ref"), (tf, tt, "ref")], cfg=cfg, rest=True) for _, ty, pre, lf, lt, tf, tt, cfg in STMT_TOKEN_PAIRS) + """
#[verifier::external_type_specification] #[verifier::external_body] pub struct ExFunctionName(full_moon::ast::FunctionName);
// ---- FunctionName: `a.b.c` or `a.b:m` ----
pub uninterp spec fn fname_names(n: &full_moon::ast::FunctionName) -> Punctuated<TokenReference>;
pub uninterp spec fn fname_method(n: &full_moon::ast::FunctionName) -> Option<(TokenReference, TokenReference)>;   // the colon and the method name
pub assume_specification [full_moon::ast::FunctionName::names] (n: &full_moon::ast::FunctionName) -> (r: &Punctuated<TokenReference>) ensures *r == fname_names(n);
pub assume_specification [full_moon::ast::FunctionName::method_name] (n: &full_moon::ast::FunctionName) -> (r: Option<&TokenReference>) ensures (r is Some) == (fname_method(n) is Some), r is Some ==> *r->Some_0 == fname_method(n)->Some_0.1;
pub assume_specification [full_moon::ast::FunctionName::method_colon] (n: &full_moon::ast::FunctionName) -> (r: Option<&TokenReference>) ensures (r is Some) == (fname_method(n) is Some), r is Some ==> *r->Some_0 == fname_method(n)->Some_0.0;
pub assume_specification [full_moon::ast::FunctionName::with_names] (n: full_moon::ast::FunctionName, v: Punctuated<TokenReference>) -> (r: full_moon::ast::FunctionName) ensures fname_names(&r) == v, fname_method(&r) == fname_method(&n);
pub assume_specification [full_moon::ast::FunctionName::with_method] (n: full_moon::ast::FunctionName, v: Option<(TokenReference, TokenReference)>) -> (r: full_moon::ast::FunctionName) ensures fname_method(&r) == v, fname_names(&r) == fname_names(&n);
pub assume_specification [<full_moon::ast::FunctionName as Clone>::clone] (n: &full_moon::ast::FunctionName) -> (r: full_moon::ast::FunctionName) ensures r == *n;
// the first name gets the leading trivia; the last token is the method name if there is one, the last name otherwise
pub open spec fn fname_post(s: &full_moon::ast::FunctionName, l: FormatTriviaType, t: FormatTriviaType, r: &full_moon::ast::FunctionName) -> bool {
    match fname_method(s) {
        Some(m) => fname_names(s).ul_post(l, &fname_names(r)) && fname_method(r) is Some && fname_method(r)->Some_0.0 == m.0 && m.1.utt_post(t, &fname_method(r)->Some_0.1),
        None => fname_method(r) is None && exists|mid: Punctuated<TokenReference>| fname_names(s).ul_post(l, &mid) && #[trigger] mid.utt_post(t, &fname_names(r)),
    }
}
#[cfg(feature = "luau")] #[verifier::external_type_specification] #[verifier::external_body] pub struct ExTypeSpecifier(full_moon::ast::luau::TypeSpecifier);
#[cfg(feature = "lua54")] #[verifier::external_type_specification] #[verifier::external_body] pub struct ExAttribute(full_moon::ast::lua54::Attribute);
// ---- LocalAssignment: which part carries the statement's last token depends on what the statement has ----
pub uninterp spec fn la_local(n: &LocalAssignment) -> TokenReference;
pub uninterp spec fn la_names(n: &LocalAssignment) -> Punctuated<TokenReference>;
pub uninterp spec fn la_exprs(n: &LocalAssignment) -> Punctuated<Expression>;
pub uninterp spec fn la_rest(n: &LocalAssignment) -> int;
#[cfg(feature = "luau")] pub uninterp spec fn la_specs(n: &LocalAssignment) -> Seq<Option<full_moon::ast::luau::TypeSpecifier>>;
#[cfg(feature = "lua54")] pub uninterp spec fn la_attrs(n: &LocalAssignment) -> Seq<Option<full_moon::ast::lua54::Attribute>>;
pub open spec fn la_same_but(a: &LocalAssignment, b: &LocalAssignment, local: bool, names: bool, exprs: bool, specs: bool, attrs: bool) -> bool {
    &&& la_rest(b) == la_rest(a)
    &&& (local || la_local(b) == la_local(a)) && (names || la_names(b) == la_names(a)) && (exprs || la_exprs(b) == la_exprs(a))
    &&& la_specs_same(a, b, specs) && la_attrs_same(a, b, attrs)
}
#[cfg(feature = "luau")] pub open spec fn la_specs_same(a: &LocalAssignment, b: &LocalAssignment, free: bool) -> bool { free || la_specs(b) == la_specs(a) }
#[cfg(not(feature = "luau"))] pub open spec fn la_specs_same(a: &LocalAssignment, b: &LocalAssignment, free: bool) -> bool { true }
#[cfg(feature = "lua54")] pub open spec fn la_attrs_same(a: &LocalAssignment, b: &LocalAssignment, free: bool) -> bool { free || la_attrs(b) == la_attrs(a) }
#[cfg(not(feature = "lua54"))] pub open spec fn la_attrs_same(a: &LocalAssignment, b: &LocalAssignment, free: bool) -> bool { true }
pub assume_specification [LocalAssignment::local_token] (n: &LocalAssignment) -> (r: &TokenReference) ensures *r == la_local(n);
pub assume_specification [LocalAssignment::names] (n: &LocalAssignment) -> (r: &Punctuated<TokenReference>) ensures *r == la_names(n);
pub assume_specification [LocalAssignment::expressions] (n: &LocalAssignment) -> (r: &Punctuated<Expression>) ensures *r == la_exprs(n);
pub assume_specification [LocalAssignment::with_local_token] (n: LocalAssignment, v: TokenReference) -> (r: LocalAssignment) ensures la_local(&r) == v, la_same_but(&n, &r, true, false, false, false, false);
pub assume_specification [LocalAssignment::with_names] (n: LocalAssignment, v: Punctuated<TokenReference>) -> (r: LocalAssignment) ensures la_names(&r) == v, la_same_but(&n, &r, false, true, false, false, false);
pub assume_specification [LocalAssignment::with_expressions] (n: LocalAssignment, v: Punctuated<Expression>) -> (r: LocalAssignment) ensures la_exprs(&r) == v, la_same_but(&n, &r, false, false, true, false, false);
#[cfg(feature = "luau")] pub assume_specification [LocalAssignment::with_type_specifiers] (n: LocalAssignment, v: Vec<Option<full_moon::ast::luau::TypeSpecifier>>) -> (r: LocalAssignment) ensures la_specs(&r) == v@, la_same_but(&n, &r, false, false, false, true, false);
#[cfg(feature = "lua54")] pub assume_specification [LocalAssignment::with_attributes] (n: LocalAssignment, v: Vec<Option<full_moon::ast::lua54::Attribute>>) -> (r: LocalAssignment) ensures la_attrs(&r) == v@, la_same_but(&n, &r, false, false, false, false, true);
pub assume_specification [<LocalAssignment as Clone>::clone] (n: &LocalAssignment) -> (r: LocalAssignment) ensures r == *n;
#[cfg(feature = "luau")] #[verifier::external_body] pub fn la_owned_specs(n: &LocalAssignment) -> (r: Vec<Option<full_moon::ast::luau::TypeSpecifier>>) ensures r@ == la_specs(n) { unimplemented!() /* n.type_specifiers().map(|x| x.cloned()).collect::<Vec<_>>() */ }
#[cfg(feature = "lua54")] #[verifier::external_body] pub fn la_owned_attrs(n: &LocalAssignment) -> (r: Vec<Option<full_moon::ast::lua54::Attribute>>) ensures r@ == la_attrs(n) { unimplemented!() /* n.attributes().map(|x| x.cloned()).collect::<Vec<_>>() */ }
#[cfg(feature = "luau")] pub uninterp spec fn tspec_utt_post(s: full_moon::ast::luau::TypeSpecifier, t: FormatTriviaType, r: full_moon::ast::luau::TypeSpecifier) -> bool;
#[cfg(feature = "luau")] impl UpdateTrailingTrivia for full_moon::ast::luau::TypeSpecifier {
    open spec fn utt_post(&self, t: FormatTriviaType, r: &Self) -> bool { tspec_utt_post(*self, t, *r) }
    #[verifier::external_body] fn update_trailing_trivia(&self, trailing_trivia: FormatTriviaType) -> (r: Self) { unimplemented!() }
}
#[cfg(feature = "lua54")] pub uninterp spec fn attr_brackets(a: full_moon::ast::lua54::Attribute) -> ContainedSpan;
#[cfg(feature = "lua54")] pub uninterp spec fn attr_rest(a: full_moon::ast::lua54::Attribute) -> int;
#[cfg(feature = "lua54")] pub assume_specification [full_moon::ast::lua54::Attribute::brackets] (a: &full_moon::ast::lua54::Attribute) -> (r: &ContainedSpan) ensures *r == attr_brackets(*a);
#[cfg(feature = "lua54")] pub assume_specification [full_moon::ast::lua54::Attribute::with_brackets] (a: full_moon::ast::lua54::Attribute, v: ContainedSpan) -> (r: full_moon::ast::lua54::Attribute) ensures attr_brackets(r) == v, attr_rest(r) == attr_rest(a);
#[cfg(feature = "lua54")] pub assume_specification [<full_moon::ast::lua54::Attribute as Clone>::clone] (a: &full_moon::ast::lua54::Attribute) -> (r: full_moon::ast::lua54::Attribute) ensures r == *a;
// the statement's last token: in the last value if there are values; else in the type of the last name, if it has one (Luau); else in the
// attribute of the last name, if it has one (Lua 5.4); else in the last name
pub open spec fn la_post(s: &LocalAssignment, l: FormatTriviaType, t: FormatTriviaType, r: &LocalAssignment) -> bool {
    &&& la_local(s).ul_post(l, &la_local(r))
    &&& if ppairs(la_exprs(s)).len() > 0 { la_exprs(s).utt_post(t, &la_exprs(r)) && la_same_but(s, r, true, false, true, false, false) }
        else if la_last_spec(s) { la_spec_updated(s, t, r) && la_same_but(s, r, true, false, false, true, false) }
        else if la_last_attr(s) { la_attr_updated(s, t, r) && la_same_but(s, r, true, false, false, false, true) }
        else { la_names(s).utt_post(t, &la_names(r)) && la_same_but(s, r, true, true, false, false, false) }
}
#[cfg(feature = "luau")] pub open spec fn la_last_spec(s: &LocalAssignment) -> bool { la_specs(s).len() > 0 && la_specs(s).last() is Some }
#[cfg(not(feature = "luau"))] pub open spec fn la_last_spec(s: &LocalAssignment) -> bool { false }
#[cfg(feature = "luau")] pub open spec fn la_spec_updated(s: &LocalAssignment, t: FormatTriviaType, r: &LocalAssignment) -> bool {
    la_specs(r).len() == la_specs(s).len() && la_specs(r).drop_last() == la_specs(s).drop_last() && la_specs(r).last() is Some && la_specs(s).last()->Some_0.utt_post(t, &la_specs(r).last()->Some_0)
}
#[cfg(not(feature = "luau"))] pub open spec fn la_spec_updated(s: &LocalAssignment, t: FormatTriviaType, r: &LocalAssignment) -> bool { true }
#[cfg(feature = "lua54")] pub open spec fn la_last_attr(s: &LocalAssignment) -> bool { la_attrs(s).len() > 0 && la_attrs(s).last() is Some }
#[cfg(not(feature = "lua54"))] pub open spec fn la_last_attr(s: &LocalAssignment) -> bool { false }
#[cfg(feature = "lua54")] pub open spec fn la_attr_updated(s: &LocalAssignment, t: FormatTriviaType, r: &LocalAssignment) -> bool {
    la_attrs(r).len() == la_attrs(s).len() && la_attrs(r).drop_last() == la_attrs(s).drop_last() && la_attrs(r).last() is Some && la_attrs(s).last()->Some_0.utt_post(t, &la_attrs(r).last()->Some_0)
}
#[cfg(not(feature = "lua54"))] pub open spec fn la_attr_updated(s: &LocalAssignment, t: FormatTriviaType, r: &LocalAssignment) -> bool { true }
#[cfg(feature = "luau")] pub uninterp spec fn tdecl_post(s: full_moon::ast::luau::TypeDeclaration, l: FormatTriviaType, t: FormatTriviaType, r: full_moon::ast::luau::TypeDeclaration) -> bool;
#[cfg(feature = "luau")] impl UpdateTrivia for full_moon::ast::luau::TypeDeclaration {
    open spec fn ut_post(&self, l: FormatTriviaType, t: FormatTriviaType, r: &Self) -> bool { tdecl_post(*self, l, t, *r) }
    #[verifier::external_body] fn update_trivia(&self, leading_trivia: FormatTriviaType, trailing_trivia: FormatTriviaType) -> (r: Self) { unimplemented!() }
}
#[cfg(feature = "luau")] pub uninterp spec fn tfun_post(s: full_moon::ast::luau::TypeFunction, l: FormatTriviaType, t: FormatTriviaType, r: full_moon::ast::luau::TypeFunction) -> bool;
#[cfg(feature = "luau")] impl UpdateTrivia for full_moon::ast::luau::TypeFunction {
    open spec fn ut_post(&self, l: FormatTriviaType, t: FormatTriviaType, r: &Self) -> bool { tfun_post(*self, l, t, *r) }
    #[verifier::external_body] fn update_trivia(&self, leading_trivia: FormatTriviaType, trailing_trivia: FormatTriviaType) -> (r: Self) { unimplemented!() }
}
"""
def stmt_post():
    arms = []
    for v, cfg in STMT_WHOLE:
        arms.append(f"            {cfg}(Stmt::{v}(a), Stmt::{v}(b)) => a.ut_post(l, t, &b),")
    for v, ty, pre, lf, lt, tf, tt, cfg in STMT_TOKEN_PAIRS:
        arms.append(f"            {cfg}(Stmt::{v}(a), Stmt::{v}(b)) => {pre}_{lf}(&a).ul_post(l, &{pre}_{lf}(&b)) && {pre}_{tf}(&a).utt_post(t, &{pre}_{tf}(&b)) && {pre}_rest(&b) == {pre}_rest(&a),")
    return ("    open spec fn ut_post(&self, l: FormatTriviaType, t: FormatTriviaType, r: &Self) -> bool {\n        match (*self, *r) {\n" + "\n".join(arms) + "\n            _ => false,\n        }\n    }\n")
IMPL_SPECS["Stmt"] = stmt_post()
IMPL_SPECS["FunctionName"] = "    open spec fn ut_post(&self, l: FormatTriviaType, t: FormatTriviaType, r: &Self) -> bool { fname_post(self, l, t, r) }\n"
IMPL_SPECS["LocalAssignment"] = "    open spec fn ut_post(&self, l: FormatTriviaType, t: FormatTriviaType, r: &Self) -> bool { la_post(self, l, t, r) }\n"
IMPL_SPECS["Attribute"] = "    open spec fn ut_post(&self, l: FormatTriviaType, t: FormatTriviaType, r: &Self) -> bool { attr_brackets(*self).ut_post(l, t, &attr_brackets(*r)) && attr_rest(*r) == attr_rest(*self) }\n"
IMPL_SPECS.update({
    "Var:leading": "    open spec fn ul_post(&self, l: FormatTriviaType, r: &Self) -> bool { var_lead_frame(*self, l, *r) && var_id(*r) == var_id(*self) }\n",
    "Var:trailing": "    open spec fn utt_post(&self, t: FormatTriviaType, r: &Self) -> bool { var_trail_frame(*self, t, *r) && var_id(*r) == var_id(*self) }\n",
    "VarExpression": "    open spec fn ut_post(&self, l: FormatTriviaType, t: FormatTriviaType, r: &Self) -> bool { chain_post(ve_prefix(*self), ve_suffixes(*self), l, t, ve_prefix(*r), ve_suffixes(*r)) && ve_rest(*r) == ve_rest(*self) }\n",
    "FunctionCall": "    open spec fn ut_post(&self, l: FormatTriviaType, t: FormatTriviaType, r: &Self) -> bool { chain_post(fc_prefix(*self), fc_suffixes(*self), l, t, fc_prefix(*r), fc_suffixes(*r)) && fc_rest(*r) == fc_rest(*self) && call_id(*r) == call_id(*self) }\n",
    "TableConstructor": "    open spec fn ut_post(&self, l: FormatTriviaType, t: FormatTriviaType, r: &Self) -> bool { n_tc_braces(self).ut_post(l, t, &n_tc_braces(r)) && n_tc_rest(r) == n_tc_rest(self) && table_id(*r) == table_id(*self) }\n",
    "FunctionBody:trailing": "    open spec fn utt_post(&self, t: FormatTriviaType, r: &Self) -> bool { n_fb_end_token(self).utt_post(t, &n_fb_end_token(r)) && n_fb_rest(r) == n_fb_rest(self) }\n",
    "Parameter": """    open spec fn ut_post(&self, l: FormatTriviaType, t: FormatTriviaType, r: &Self) -> bool {
        match (*self, *r) { (full_moon::ast::Parameter::Ellipsis(a), full_moon::ast::Parameter::Ellipsis(b)) => a.ut_post(l, t, &b), (full_moon::ast::Parameter::Name(a), full_moon::ast::Parameter::Name(b)) => a.ut_post(l, t, &b), _ => false }
    }
""",
    "FunctionArgs": """    open spec fn ut_post(&self, l: FormatTriviaType, t: FormatTriviaType, r: &Self) -> bool {
        match (*self, *r) {
            (FunctionArgs::Parentheses { parentheses: p1, arguments: a1 }, FunctionArgs::Parentheses { parentheses: p2, arguments: a2 }) => a2 == a1 && p1.ut_post(l, t, &p2),
            (FunctionArgs::String(a), FunctionArgs::String(b)) => a.ut_post(l, t, &b),
            (FunctionArgs::TableConstructor(a), FunctionArgs::TableConstructor(b)) => a.ut_post(l, t, &b),
            _ => false,
        }
    }
""",
    "Index": """    open spec fn ut_post(&self, l: FormatTriviaType, t: FormatTriviaType, r: &Self) -> bool {
        match (*self, *r) {
            (Index::Brackets { brackets: b1, expression: e1 }, Index::Brackets { brackets: b2, expression: e2 }) => e2 == e1 && b1.ut_post(l, t, &b2),
            (Index::Dot { dot: d1, name: n1 }, Index::Dot { dot: d2, name: n2 }) => d1.ul_post(l, &d2) && n1.utt_post(t, &n2),
            _ => false,
        }
    }
""",
    "MethodCall": "    open spec fn ut_post(&self, l: FormatTriviaType, t: FormatTriviaType, r: &Self) -> bool { n_mc_colon_token(self).ul_post(l, &n_mc_colon_token(r)) && n_mc_args(self).utt_post(t, &n_mc_args(r)) && n_mc_rest(r) == n_mc_rest(self) }\n",
    "Call": """    open spec fn ut_post(&self, l: FormatTriviaType, t: FormatTriviaType, r: &Self) -> bool {
        match (*self, *r) { (Call::AnonymousCall(a), Call::AnonymousCall(b)) => a.ut_post(l, t, &b), (Call::MethodCall(a), Call::MethodCall(b)) => a.ut_post(l, t, &b), _ => false }
    }
""",
    "Suffix": """    open spec fn ut_post(&self, l: FormatTriviaType, t: FormatTriviaType, r: &Self) -> bool {
        match (*self, *r) { (Suffix::Call(a), Suffix::Call(b)) => a.ut_post(l, t, &b), (Suffix::Index(a), Suffix::Index(b)) => a.ut_post(l, t, &b), _ => false }
    }
""",
    "Prefix:leading": """    open spec fn ul_post(&self, l: FormatTriviaType, r: &Self) -> bool {
        match (*self, *r) { (Prefix::Name(a), Prefix::Name(b)) => a.ul_post(l, &b), (Prefix::Expression(a), Prefix::Expression(b)) => a.ul_post(l, &*b), _ => false }
    }
""",
    "Prefix:trailing": """    open spec fn utt_post(&self, t: FormatTriviaType, r: &Self) -> bool {
        match (*self, *r) { (Prefix::Name(a), Prefix::Name(b)) => a.utt_post(t, &b), (Prefix::Expression(a), Prefix::Expression(b)) => a.utt_post(t, &*b), _ => false }
    }
""",
    "UnOp:leading": "    open spec fn ul_post(&self, l: FormatTriviaType, r: &Self) -> bool { unop_id(*r) == unop_id(*self) && unop_tok(*self).ul_post(l, &unop_tok(*r)) }\n",
    "Expression:leading": "    open spec fn ul_post(&self, l: FormatTriviaType, r: &Self) -> bool { skel(*r) == skel(*self) && lead_only(*self, l, *r) }\n",
    "Expression:trailing": "    open spec fn utt_post(&self, t: FormatTriviaType, r: &Self) -> bool { skel(*r) == skel(*self) && trail_only(*self, t, *r) }\n",
})
def chain_edits(owned, ax):
    return [
        Hole("this.suffixes().map(|x| x.to_owned()).collect();", owned + "(this);\n    let ghost s0 = suffixes@;", kind="wrapper", why="iterator chain: the suffixes as an owned Vec"),
        After("suffixes.push(suffix.update_trailing_trivia(trailing))", "; proof { assert(suffixes@.len() == s0.len()); assert forall|i: int| 0 <= i < s0.len() - 1 implies #[trigger] suffixes@[i] == s0[i] by { assert(suffixes@[i] == s0.drop_last()[i]); } }"),
        Hole("    this.to_owned().with_prefix(prefix).with_suffixes(suffixes)", "    let vx_r = this.to_owned().with_prefix(prefix).with_suffixes(suffixes);\n    proof { " + ax + " }\n    vx_r", kind="ghost-name", why="the result gets a name for the proof hint"),
    ]
MACRO_SHA = {"define_update_trivia": "feb7d5e26c2c3826", "define_update_leading_trivia": "f6ae4e2de25fd46b", "define_update_trailing_trivia": "6edbefd0f0260995"}

def macro_impl(node, edits=(), attrs="", which="", contract=""):
    macro = {"": "define_update_trivia", "leading": "define_update_leading_trivia", "trailing": "define_update_trailing_trivia"}[which]
    trait = {"": "UpdateTrivia", "leading": "UpdateLeadingTrivia", "trailing": "UpdateTrailingTrivia"}[which]
    method = {"": "update_trivia", "leading": "update_leading_trivia", "trailing": "update_trailing_trivia"}[which]
    f = MacroImpl(TRV, macro, MACRO_SHA[macro], node, trait, method, 1 if which else 2, module=M, edits=edits, impl_attrs=attrs, contract=contract)
    f.impl_items = IMPL_SPECS[node + (":" + which if which else "")]
    return f

TOKEN_IMPL_SPEC = """    open spec fn ut_post(&self, l: FormatTriviaType, t: FormatTriviaType, r: &Self) -> bool { token_post(*self, l, t, *r) }
"""
BLANKET_L_SPEC = """    open spec fn ul_post(&self, l: FormatTriviaType, r: &Self) -> bool { self.ut_post(l, FormatTriviaType::NoChange, r) }
"""
BLANKET_T_SPEC = """    open spec fn utt_post(&self, t: FormatTriviaType, r: &Self) -> bool { self.ut_post(FormatTriviaType::NoChange, t, r) }
"""

LEMMAS = r"""
// ---- what the other units assume for a TokenReference (prelude/traits.rs) follows from the verified implementation ----
pub proof fn lemma_trail_open_append_newline(a: Seq<Token>, b: Seq<Token>)
    requires puts_on_new_line(b), forall|i: int| 0 <= i < b.len() && is_indent_tok(#[trigger] b[i]) ==> !is_line_comment_tok(b[i]),
    ensures !trail_open(a + b),
{
    let v = a + b;
    // the newline that ends b (or stands in front of its final indent) follows every comment in front of it
    let n = if is_newline_tok(b.last()) { v.len() - 1 } else { v.len() - 2 };
    assert(is_newline_tok(v[n]));
    if trail_open(v) {
        let i = choose|i: int| 0 <= i < v.len() && is_line_comment_tok(#[trigger] v[i]) && forall|j: int| i < j < v.len() ==> !is_newline_tok(#[trigger] v[j]);
        if i < n { assert(!is_newline_tok(v[n])); }
        else if i == n { assert(false) by { axiom_newline_is_no_comment(v[n]); } }
        else { assert(v[i] == b.last()); assert(is_indent_tok(b[b.len() - 1])); }
    }
}
pub proof fn axiom_newline_is_no_comment(t: Token) ensures is_newline_tok(t) ==> !is_line_comment_tok(t), is_indent_tok(t) ==> !is_line_comment_tok(t) { admit(); }   // newline and indent tokens are whitespace (context.rs creates them: proved in unit ctx as `token_type_of(r) is Whitespace`)
pub proof fn lemma_trail_open_append_plain(a: Seq<Token>, b: Seq<Token>)
    requires no_line_comment(b), trail_open(a + b),
    ensures trail_open(a),
{
    let v = a + b;
    let i = choose|i: int| 0 <= i < v.len() && is_line_comment_tok(#[trigger] v[i]) && forall|j: int| i < j < v.len() ==> !is_newline_tok(#[trigger] v[j]);
    if i >= a.len() { assert(v[i] == b[i - a.len()]); assert(false); }
    assert(a[i] == v[i]);
    assert forall|j: int| i < j < a.len() implies !is_newline_tok(#[trigger] a[j]) by { assert(a[j] == v[j]); }
}
pub proof fn lemma_new_line_append(a: Seq<Token>, b: Seq<Token>)
    requires puts_on_new_line(b), ensures puts_on_new_line(a + b),
{
    let v = a + b;
    assert(v.last() == b.last());
    if !is_newline_tok(b.last()) { assert(v[v.len() - 2] == b[b.len() - 2]); }
}
// UpdateLeadingTrivia for TokenReference, as assumed elsewhere
pub proof fn lemma_token_leading_proxy(s: TokenReference, t: FormatTriviaType, rr: TokenReference)
    requires s.ul_post(t, &rr),
    ensures ptr_same_sem(s, rr), ptr_lead_ok(s, t, rr), //# C03.token_leading_proxy
{
    axiom_token_lines(s); axiom_token_lines(rr);
    match t { FormatTriviaType::Append(v) => { if puts_on_new_line(v@) { lemma_new_line_append(tr_lead(s), v@); } }, _ => {} }
}
// UpdateTrailingTrivia for TokenReference, as assumed elsewhere (the clause about an appended newline closing an open comment is stated for
// the trivia lists the formatter appends: a newline, or a newline and an indent)
pub proof fn lemma_token_trailing_proxy(s: TokenReference, t: FormatTriviaType, rr: TokenReference)
    requires s.utt_post(t, &rr),
    ensures ptr_same_sem_t(s, rr), ptr_trail_ok(s, t, rr), //# C03.token_trailing_proxy
            (t is Replace && t->Replace_0@.len() == 0) ==> ptr_not_open(rr), //# C03.token_trailing_proxy
{
    axiom_token_lines(s); axiom_token_lines(rr);
    match t {
        FormatTriviaType::Append(v) => {
            if puts_on_new_line(v@) {
                assert forall|i: int| 0 <= i < v@.len() && is_indent_tok(#[trigger] v@[i]) implies !is_line_comment_tok(v@[i]) by { axiom_newline_is_no_comment(v@[i]); }
                lemma_trail_open_append_newline(tr_trail(s), v@);
            }
            if no_line_comment(v@) && trail_open(tr_trail(s) + v@) { lemma_trail_open_append_plain(tr_trail(s), v@); }
            if no_line_comment(v@) { lemma_has_single_append_plain(tr_trail(s), v@); }
        },
        _ => {}
    }
}
pub proof fn lemma_token_both_proxy(s: TokenReference, l: FormatTriviaType, t: FormatTriviaType, rr: TokenReference)
    requires s.ut_post(l, t, &rr),
    ensures ptr_same_sem_u(s, rr), ptr_trivia_ok(s, l, t, rr), //# C03.token_both_proxy
{
    axiom_token_lines(s); axiom_token_lines(rr);
    match t { FormatTriviaType::Append(v) => { if no_line_comment(v@) && trail_open(tr_trail(s) + v@) { lemma_trail_open_append_plain(tr_trail(s), v@); } }, _ => {} }
}
"""

LEMMAS2 = r"""
// a token reference is its token and its two trivia lists (the struct has exactly these three fields: class A)
pub proof fn axiom_token_ext(a: TokenReference, b: TokenReference)
    requires tr_token(a) == tr_token(b), tr_lead(a) == tr_lead(b), tr_trail(a) == tr_trail(b), ensures a == b { admit(); }
pub proof fn axiom_binop_trivia(b: BinOp) ensures binop_lead_trivia(b) == tr_lead(binop_tok(b)), binop_trail_trivia(b) == tr_trail(binop_tok(b)) { admit(); }   // definitional: an operator's trivia are its token's
// ContainedSpan (blanket implementations over the verified update_trivia), as assumed elsewhere
pub proof fn lemma_span_leading_proxy(s: ContainedSpan, t: FormatTriviaType, rr: ContainedSpan)
    requires s.ul_post(t, &rr),
    ensures pcs_same_sem(s, rr), pcs_lead_ok(s, t, rr), //# C03.span_proxy
{
    axiom_token_lines(span_open(s)); axiom_token_lines(span_open(rr));
    axiom_token_ext(span_close(s), span_close(rr));
    match t { FormatTriviaType::Append(v) => { if puts_on_new_line(v@) { lemma_new_line_append(tr_lead(span_open(s)), v@); } }, _ => {} }
}
pub proof fn lemma_span_trailing_proxy(s: ContainedSpan, t: FormatTriviaType, rr: ContainedSpan)
    requires s.utt_post(t, &rr),
    ensures pcs_same_sem_t(s, rr), pcs_trail_ok(s, t, rr), //# C03.span_proxy
            (t is Replace && t->Replace_0@.len() == 0) ==> pcs_not_open(rr), //# C03.span_proxy
{
    axiom_token_lines(span_close(s)); axiom_token_lines(span_close(rr));
    axiom_token_ext(span_open(s), span_open(rr));
}
// BinOp, as assumed elsewhere
pub proof fn lemma_binop_proxy(s: BinOp, l: FormatTriviaType, t: FormatTriviaType, rr: BinOp)
    requires s.ut_post(l, t, &rr),
    ensures pbo_same_sem_u(s, rr), pbo_trivia_ok(s, l, t, rr), //# C03.binop_proxy
            t is NoChange ==> pbo_same_sem(s, rr) && pbo_lead_ok(s, l, rr), //# C03.binop_proxy
            l is NoChange ==> pbo_same_sem_t(s, rr) && pbo_trail_ok(s, t, rr), //# C03.binop_proxy
            (l is NoChange && t is Replace && t->Replace_0@.len() == 0) ==> pbo_not_open(rr), //# C03.binop_proxy
{
    axiom_token_lines(binop_tok(s)); axiom_token_lines(binop_tok(rr)); axiom_binop_trivia(rr);
    match l { FormatTriviaType::Append(v) => { if puts_on_new_line(v@) { lemma_new_line_append(tr_lead(binop_tok(s)), v@); } }, _ => {} }
    if t is Replace && no_line_comment(t->Replace_0@) && trail_open(tr_trail(binop_tok(rr))) {
        let v = tr_trail(binop_tok(rr));
        let i = choose|i: int| 0 <= i < v.len() && is_line_comment_tok(#[trigger] v[i]) && forall|j: int| i < j < v.len() ==> !is_newline_tok(#[trigger] v[j]);
        assert(false);
    }
}
"""

def items():
    its = [
        RawFile("prelude/fm_types.rs"), RawFile("prelude/fm_specs.rs"), RawFile("prelude/skel.rs"), RawFile("prelude/lines.rs"), RawFile("prelude/fm_stmt_types.rs"),
        Item(TRV, "enum", "FormatTriviaType", keep_derives=()),
        Raw(SPEC, module=M),
        *TRAITS,
        Fn(TRV, "update_leading_trivia", impl_of="T", trait_of="UpdateLeadingTrivia", module=M, impl_header="impl<T> UpdateLeadingTrivia for T\nwhere\n    T: UpdateTrivia,\n",
           contract="", edits=[]),
        Fn(TRV, "update_trailing_trivia", impl_of="T", trait_of="UpdateTrailingTrivia", module=M, impl_header="impl<T> UpdateTrailingTrivia for T\nwhere\n    T: UpdateTrivia,\n",
           contract="", edits=[]),
        Fn(TRV, "update_trivia", impl_of="TokenReference", trait_of="UpdateTrivia", module=M, contract="", edits=[
            Hole("self.leading_trivia().map(|x| x.to_owned()).collect()", "lead_owned(self)", count=None, kind="wrapper", why="iterator chain: the leading trivia as an owned Vec"),
            Hole("self.trailing_trivia().map(|x| x.to_owned()).collect()", "trail_owned(self)", count=None, kind="wrapper", why="iterator chain: the trailing trivia as an owned Vec"),
            Hole("current.extend(trivia);", "crate::verif::extend_vec_token(&mut current, trivia);", count=None, kind="wrapper", why="Vec::extend with a Vec: appends (class B)"),
        ]),
        Raw(LIST_SPEC + NODE_SPEC, module=M),
        Fn(TRV, "update_leading_trivia", impl_of="Punctuated", trait_of="UpdateLeadingTrivia", module=M, impl_header="impl<T> UpdateLeadingTrivia for Punctuated<T>\nwhere\n    T: UpdateLeadingTrivia + Clone,\n",
           contract="", edits=[
            Hole("let mut pairs = self.to_owned().into_pairs();", "let mut pairs = peekable(self.to_owned().into_pairs());", kind="wrapper", why="the iterator is read through the Peekable wrapper (an adapter that changes nothing about `next`), which has a sequence specification"),
            Hole("first_pair.map(|value| value.update_leading_trivia(leading));", "first_pair.map(|value: T| -> (vx_r: T) ensures value.ul_post(leading, &vx_r) { value.update_leading_trivia(leading) });", kind="rewrite", why="the closure gets a contract (its parameter gets its type)"),
            Hole("for pair in pairs {", "let ghost mut k: int = if ppairs(*self).len() > 0 { 1 } else { 0 };\n        while let Some(pair) = pairs.next() {", kind="desugar", why="for over an iterator: written as its definition"),
            Hole("pair.punctuation().map(|x| x.to_owned()),", "owned_punctuation(pair.punctuation()),", kind="wrapper", why="Option::map with a closure that clones", optional=True),
            Hole("pair.value().clone(),", "cloned_value(pair.value()),", kind="wrapper", why="Clone::clone of a generic item: a clone is equal to its original (class B: the Clone implementations of full_moon's nodes are derived)"),
            Loop("while let Some(pair) = pairs.next()", """
            invariant
                0 <= k <= ppairs(*self).len(), pk_rest(&pairs) == ppairs(*self).skip(k), ppairs(punctuated).len() == k,
                ppairs(*self).len() > 0 ==> k >= 1 && pair_value(ppairs(*self)[0]).ul_post(leading, &pair_value(ppairs(punctuated)[0])) && pair_punct(ppairs(punctuated)[0]) == pair_punct(ppairs(*self)[0]),
                forall|i: int| 1 <= i < k ==> #[trigger] ppairs(punctuated)[i] == ppairs(*self)[i], //# C03.list_update_loop
            ensures k == ppairs(*self).len(),
            decreases pk_rest(&pairs).len(),
""", step="proof { k = k + 1; }", enter="proof { lemma_pair_ext(ppairs(*self)[k]); assert(ppairs(*self).skip(k)[0] == ppairs(*self)[k]); assert(ppairs(*self).skip(k).skip(1) =~= ppairs(*self).skip(k + 1)); }"),
        ]),
        Fn(TRV, "update_trailing_trivia", impl_of="Punctuated", trait_of="UpdateTrailingTrivia", module=M, impl_header="impl<T> UpdateTrailingTrivia for Punctuated<T>\nwhere\n    T: UpdateTrailingTrivia + Clone,\n",
           contract="", edits=[
            Hole("pair.map(|value| value.update_trailing_trivia(trailing));", "pair.map(|value: T| -> (vx_r: T) ensures value.utt_post(trailing, &vx_r) { value.update_trailing_trivia(trailing) });", kind="rewrite", why="the closure gets a contract (its parameter gets its type)"),
        ]),
        macro_impl("UnOp", which="leading"),
        macro_impl("Expression", which="leading", contract="    decreases self,", edits=[
            Before("match this {", "proof { axiom_tok_of_all(); }"),
            Hole("Expression::Function(anonymous_function) => Expression::Function(Box::new((\n            anonymous_function.0.update_leading_trivia(leading),\n            anonymous_function.1.to_owned(),\n        ))),",
                 "Expression::Function(anonymous_function) => { let vx_token = anonymous_function.0.update_leading_trivia(leading);\n            proof { axiom_token_lines(anonymous_function.0); axiom_token_lines(vx_token); axiom_anon_fn((vx_token, anonymous_function.1), **anonymous_function); }\n            Expression::Function(Box::new((\n            vx_token,\n            anonymous_function.1.to_owned(),\n        ))) },", kind="ghost-name", why="the updated token gets a name so that the proof hint (identity of an anonymous function) can mention it; a `let` in front of the constructor, evaluation order unchanged"),
        ]),
        macro_impl("Expression", which="trailing", contract="    decreases self,", edits=[
            Before("match this {", "proof { axiom_tok_of_all(); }"),
            Hole("Expression::Function(anonymous_function) => Expression::Function(Box::new((\n            anonymous_function.0.to_owned(),\n            anonymous_function.1.update_trailing_trivia(trailing),\n        ))),",
                 "Expression::Function(anonymous_function) => { let vx_body = anonymous_function.1.update_trailing_trivia(trailing);\n            proof { axiom_token_lines(n_fb_end_token(&anonymous_function.1)); axiom_token_lines(n_fb_end_token(&vx_body)); axiom_anon_fn((anonymous_function.0, vx_body), **anonymous_function); }\n            Expression::Function(Box::new((\n            anonymous_function.0.to_owned(),\n            vx_body,\n        ))) },", kind="ghost-name", why="the updated body gets a name for the proof hint; evaluation order: the token's clone is taken after the body's update instead of before (both are pure)"),
        ]),
        macro_impl("Var", which="leading", edits=[
            Hole("Var::Name(token_reference) => Var::Name(token_reference.update_leading_trivia(leading)),", "Var::Name(token_reference) => { let vx_r = Var::Name(token_reference.update_leading_trivia(leading)); proof { axiom_var_id(*this, vx_r, leading, FormatTriviaType::NoChange); } vx_r },", kind="ghost-name", why="the result gets a name for the proof hint (identity of the leaf)"),
            Hole("Var::Expression(Box::new(var_expresion.update_leading_trivia(leading)))", "{ let vx_r = Var::Expression(Box::new(var_expresion.update_leading_trivia(leading))); proof { axiom_var_id(*this, vx_r, leading, FormatTriviaType::NoChange); } vx_r }", kind="ghost-name", why="the result gets a name for the proof hint (identity of the leaf)"),
        ]),
        macro_impl("Var", which="trailing", edits=[
            Hole("Var::Name(token_reference) => Var::Name(token_reference.update_trailing_trivia(trailing)),", "Var::Name(token_reference) => { let vx_r = Var::Name(token_reference.update_trailing_trivia(trailing)); proof { axiom_var_id(*this, vx_r, FormatTriviaType::NoChange, trailing); } vx_r },", kind="ghost-name", why="the result gets a name for the proof hint (identity of the leaf)"),
            Hole("Var::Expression(Box::new(var_expression.update_trailing_trivia(trailing)))", "{ let vx_r = Var::Expression(Box::new(var_expression.update_trailing_trivia(trailing))); proof { axiom_var_id(*this, vx_r, FormatTriviaType::NoChange, trailing); } vx_r }", kind="ghost-name", why="the result gets a name for the proof hint (identity of the leaf)"),
        ]),
        macro_impl("VarExpression", edits=chain_edits("ve_owned_suffixes", "")),
        macro_impl("FunctionCall", edits=chain_edits("fc_owned_suffixes", "axiom_call_id(*this, vx_r, leading, trailing);")),
        macro_impl("TableConstructor", edits=[
            Hole("    this.to_owned()\n        .with_braces(this.braces().update_trivia(leading, trailing))", "    let vx_r = this.to_owned()\n        .with_braces(this.braces().update_trivia(leading, trailing));\n    proof { axiom_table_id(*this, vx_r, leading, trailing); }\n    vx_r", kind="ghost-name", why="the result gets a name for the proof hint (identity of the leaf)"),
        ]),
        macro_impl("FunctionBody", which="trailing"),
        macro_impl("Parameter"),
        macro_impl("FunctionArgs"),
        macro_impl("Index"),
        macro_impl("MethodCall"),
        macro_impl("Call"),
        macro_impl("Suffix"),
        # Prefix: the walk Expression -> Var / FunctionCall -> (VarExpression ->) Prefix -> Expression is a cycle through five trait implementations;
        # Verus wants the implementations of a trait that carries spec functions in an order without cycles, so one of them has to stay an
        # assumed interface: Prefix (two four-line matches), with an opaque postcondition (the spec functions must not form a cycle either)
        Raw("""
pub uninterp spec fn prefix_ul_post(s: Prefix, l: FormatTriviaType, r: Prefix) -> bool;
pub uninterp spec fn prefix_utt_post(s: Prefix, t: FormatTriviaType, r: Prefix) -> bool;
impl UpdateLeadingTrivia for Prefix {
    open spec fn ul_post(&self, l: FormatTriviaType, r: &Self) -> bool { prefix_ul_post(*self, l, *r) }
    #[verifier::external_body] fn update_leading_trivia(&self, leading_trivia: FormatTriviaType) -> (r: Self) { unimplemented!() }
}
impl UpdateTrailingTrivia for Prefix {
    open spec fn utt_post(&self, t: FormatTriviaType, r: &Self) -> bool { prefix_utt_post(*self, t, *r) }
    #[verifier::external_body] fn update_trailing_trivia(&self, trailing_trivia: FormatTriviaType) -> (r: Self) { unimplemented!() }
}
""", module=M),
        macro_impl("ContainedSpan"),
        macro_impl("BinOp"),
        macro_impl("If"),
        macro_impl("Assignment"),
        macro_impl("Return"),
        Raw(STMT_NODE_SPEC, module=M),
        macro_impl("FunctionName", edits=[
            Hole("let names = this\n            .names()\n            .update_leading_trivia(leading)\n            .update_trailing_trivia(trailing);", "let vx_mid = this\n            .names()\n            .update_leading_trivia(leading);\n        let names = vx_mid\n            .update_trailing_trivia(trailing);\n        proof { assert(fname_names(this).ul_post(leading, &vx_mid) && vx_mid.utt_post(trailing, &names)); }", kind="ghost-name", why="the intermediate list gets a name for the proof hint (a `let` splits the method chain; no executable effect)"),
        ]),
        macro_impl("Attribute", attrs='#[cfg(feature = "lua54")]\n'),
        macro_impl("LocalAssignment", edits=[
            Hole('cfg_if::cfg_if!(\n            if #[cfg(feature = "luau")] {', '#[cfg(feature = "luau")] {', kind="rewrite", why="cfg_if! with one branch, written as the cfg attribute on a block it stands for"),
            Hole('cfg_if::cfg_if!(\n            if #[cfg(feature = "lua54")] {', '#[cfg(feature = "lua54")] {', kind="rewrite", why="cfg_if! with one branch, written as the cfg attribute on a block it stands for"),
            Hole("            }\n        );", "            }", count=2, kind="rewrite", why="the end of the cfg_if! invocation"),
            Hole("this.type_specifiers().map(|x| x.cloned()).collect::<Vec<_>>();", "la_owned_specs(this);", kind="wrapper", why="iterator chain: the type specifiers as an owned Vec"),
            Hole("this.attributes().map(|x| x.cloned()).collect::<Vec<_>>();", "la_owned_attrs(this);", kind="wrapper", why="iterator chain: the attributes as an owned Vec"),
            After("type_specifiers.push(Some(type_specifier.update_trailing_trivia(trailing)));", "proof { assert(type_specifiers@.drop_last() =~= la_specs(this).drop_last()); }"),
            After("attributes.push(Some(attribute.update_trailing_trivia(trailing)));", "proof { assert(attributes@.drop_last() =~= la_attrs(this).drop_last()); }"),
        ]),
        macro_impl("Stmt"),
        macro_impl("LastStmt", edits=[Hole("r#return", "vx_return", count=2, kind="rewrite", why="the raw identifier `r#return` is renamed: this Verus panics while encoding it (air/src/smt_verify.rs, `discovered_error`)")]),
        Raw(proxy_specs(), module=M),
        Raw(LEMMAS + LEMMAS2, module=M),
        # ---- trivia_util.rs: the trivia getters of an operator (the other place that lists the operators by name)
        Raw("""
// GetLeadingTrivia / GetTrailingTrivia reduced to their required method (the default methods are iterator chains over its result), with the
// contract that the result is the trivia list of the node's first / last token
pub trait GetLeadingTrivia { spec fn lead_of(&self) -> Seq<Token>; fn leading_trivia(&self) -> (r: Vec<Token>) ensures r@ == self.lead_of(); }
pub trait GetTrailingTrivia { spec fn trail_of(&self) -> Seq<Token>; fn trailing_trivia(&self) -> (r: Vec<Token>) ensures r@ == self.trail_of(); }
impl GetLeadingTrivia for TokenReference {
    open spec fn lead_of(&self) -> Seq<Token> { tr_lead(*self) }
    #[verifier::external_body] fn leading_trivia(&self) -> (r: Vec<Token>) { unimplemented!() /* self.leading_trivia().cloned().collect() */ }
}
impl GetTrailingTrivia for TokenReference {
    open spec fn trail_of(&self) -> Seq<Token> { tr_trail(*self) }
    #[verifier::external_body] fn trailing_trivia(&self) -> (r: Vec<Token>) { unimplemented!() /* self.trailing_trivia().cloned().collect() */ }
}
""", module="formatters::trivia_util"),
        Fn(TU, "leading_trivia", impl_of="BinOp", trait_of="GetLeadingTrivia", contract=""),
        Fn(TU, "trailing_trivia", impl_of="BinOp", trait_of="GetTrailingTrivia", contract=""),
    ]
    its[-2].impl_items = "    open spec fn lead_of(&self) -> Seq<Token> { tr_lead(binop_tok(*self)) }\n"
    its[-1].impl_items = "    open spec fn trail_of(&self) -> Seq<Token> { tr_trail(binop_tok(*self)) }\n"
    for it in its:
        if isinstance(it, Fn) and it.impl_of == "T": it.impl_items = BLANKET_L_SPEC if it.trait_of == "UpdateLeadingTrivia" else BLANKET_T_SPEC
        if isinstance(it, Fn) and it.impl_of == "TokenReference": it.impl_items = TOKEN_IMPL_SPEC
        if isinstance(it, Fn) and it.impl_of == "Punctuated":
            it.impl_items = ("    open spec fn ul_post(&self, l: FormatTriviaType, r: &Self) -> bool { list_lead_post(*self, l, *r) }\n" if it.trait_of == "UpdateLeadingTrivia"
                             else "    open spec fn utt_post(&self, t: FormatTriviaType, r: &Self) -> bool { list_trail_post(*self, t, *r) }\n")
    return its

LABELS = {
    "C03.span_proxy": dict(props=["C01", "C02", "C03"], text="what the other units assume about update_leading/trailing_trivia on a ContainedSpan (the other token untouched, line facts of the updated one) follows from the verified implementation"),
    "C03.binop_proxy": dict(props=["C01", "C02", "C03"], text="what the other units assume about the trivia updaters of a BinOp (same operator, line facts, Replace installs exactly the given lists) follows from the verified implementation"),
    "C03.list_update_loop": dict(props=["C02", "C03"], text="update_leading_trivia on a list: the pairs behind the first one are pushed back as they were (same value, same separator), in order"),
    "C03.update_trivia_contract": dict(props=["C01", "C02", "C03"], text="update_trivia of every implementation under contract returns what its postcondition says: for a token, the same token with each trivia list appended to, replaced or kept as requested; for a node, the node with its first / last token so updated and every other part untouched"),
    "C03.update_leading_trivia_contract": dict(props=["C01", "C02", "C03"], text="update_leading_trivia: the blanket implementation is update_trivia with no change behind; list and node implementations update the first item / token only"),
    "C03.update_trailing_trivia_contract": dict(props=["C01", "C02", "C03"], text="update_trailing_trivia: the blanket implementation is update_trivia with no change in front; list and node implementations update the last item / token only"),
    "C03.token_leading_proxy": dict(props=["C01", "C02", "C03"], text="what the other units assume about update_leading_trivia on a token (same token, Append puts the new trivia behind the old, a list ending in newline (+ indent) starts a line, the trailing side is untouched) follows from the verified implementation"),
    "C03.token_trailing_proxy": dict(props=["C01", "C02", "C03"], text="what the other units assume about update_trailing_trivia on a token (same token, Append behind the old, an appended newline closes an open comment, trivia without a line comment open nothing, Replace by nothing leaves nothing open) follows from the verified implementation"),
    "C03.token_both_proxy": dict(props=["C01", "C02", "C03"], text="what the other units assume about update_trivia on a token follows from the verified implementation"),
}

UNIT = Unit("trivia", items() + [VERIF_MOD], LABELS, macros=[(TRV, "binop_trivia")], feature_sets=("default", "all", "luau", "luajit"), header=HEADER + "use full_moon::ast::punctuated::Pair;\nuse full_moon::ast::Parameter;\nuse full_moon::ast::FunctionName;\n#[cfg(feature = \"lua54\")] use full_moon::ast::lua54::Attribute;\n")
