"""Unit `luau`: src/formatters/luau.rs keep_parentheses — C02 mechanism "Luau type parentheses rule": parentheses around a
single type are kept wherever dropping them changes the type that is parsed. The requirement is written from the Luau
grammar (luau.org/grammar), not from the function:

    Type         ::= SimpleType ['?']*  |  Union  |  Intersection
    Union        ::= [SimpleType ['?']*] {'|' SimpleType ['?']*}        -- members are simple types, possibly optional
    Intersection ::= SimpleType {'&' SimpleType}                         -- members are simple types: no `?`, no `|`
    SimpleType   ::= nil | NAME [...] | typeof(...) | TableType | FunctionType | '(' Type ')'
    FunctionType ::= [generics] '(' ... ')' '->' ReturnType               -- ReturnType is a whole Type: it extends to the right
    GenericArgs  ::= '<' (Type | TypePack | ...) {',' ...} '>'            -- `(T)` is a type PACK there, `T` a type

so `(T)` must stay when
  * T is a function type and something follows it that would be read as part of its return type: a `?`, a further `|` / `&` member;
  * T is a union and it is the operand of `?`, of `...`, or a member of an intersection;
  * T is an optional and it is a member of an intersection;
  * T is an intersection and it is the operand of `?`, of `...`, or a member of a union;
  * `(T)` is a generic argument (it denotes a pack).
Only the one-directional requirement is a contract (needed ==> kept): keeping more parentheses than needed is cosmetic.

format_type_info_internal (Tuple / Union / Intersection / Optional / Variadic arms) and hang_type_info: the context each member is
formatted for carries the mark of the compound it is a member of, and `(T)` loses its parentheses only where keep_parentheses(T,
context) is false (type_post, parens_kept, members_kept below)."""
from gen import Unit, Fn, Item, Raw, RawFile, Hole, After, Before, Loop, Between, SplitOrGuards
from common import *

LU = "src/formatters/luau.rs"

SPEC = r"""
#[verifier::external_type_specification] #[verifier::external_body] pub struct ExTypeUnion(full_moon::ast::luau::TypeUnion);
#[verifier::external_type_specification] #[verifier::external_body] pub struct ExTypeIntersection(full_moon::ast::luau::TypeIntersection);
#[verifier::external_type_specification] #[verifier::external_body] pub struct ExGenericDeclaration(full_moon::ast::luau::GenericDeclaration);
#[verifier::external_type_specification] #[verifier::external_body] pub struct ExTypeArgument(full_moon::ast::luau::TypeArgument);
#[verifier::external_type_specification] #[verifier::external_body] pub struct ExTypeField(full_moon::ast::luau::TypeField);
#[verifier::external_type_specification] #[verifier::external_body] pub struct ExIndexedTypeInfo(full_moon::ast::luau::IndexedTypeInfo);
#[verifier::external_type_specification] pub struct ExTypeInfo(full_moon::ast::luau::TypeInfo);

pub open spec fn parens_needed(t: TypeInfo, c: TypeInfoContext) -> bool {
    c.within_generic || match t {
        TypeInfo::Callback { .. } => c.within_optional || c.contains_union || c.contains_intersect,
        TypeInfo::Union(_) => c.within_optional || c.within_variadic || c.contains_intersect,
        TypeInfo::Optional { .. } => c.contains_intersect,
        TypeInfo::Intersection(_) => c.within_optional || c.within_variadic || c.contains_union,
        _ => false,
    }
}
"""

HANG_SPEC = r"""
// ---- members of a union / intersection ----
#[verifier::external_type_specification] #[verifier::reject_recursive_types(T)] pub struct ExPair<T>(Pair<T>);
pub uninterp spec fn ppairs<T>(p: Punctuated<T>) -> Seq<Pair<T>>;
pub open spec fn pair_value<T>(p: Pair<T>) -> T { match p { Pair::End(v) => v, Pair::Punctuated(v, _) => v } }
pub open spec fn pvals<T>(p: Punctuated<T>) -> Seq<T> { ppairs(p).map_values(|x: Pair<T>| pair_value(x)) }
pub assume_specification<T> [Punctuated::<T>::pairs] (p: &Punctuated<T>) -> (r: impl Iterator<Item = &Pair<T>>)
    ensures it_rest(&r).len() == ppairs(*p).len(), forall|i: int| 0 <= i < it_rest(&r).len() ==> *(#[trigger] it_rest(&r)[i]) == ppairs(*p)[i];
pub assume_specification<T> [Punctuated::<T>::new] () -> (r: Punctuated<T>) ensures ppairs(r).len() == 0;
pub assume_specification<T> [Punctuated::<T>::push] (p: &mut Punctuated<T>, pair: Pair<T>) ensures ppairs(*final(p)) == ppairs(*old(p)).push(pair);
pub uninterp spec fn union_types(u: TypeUnion) -> Punctuated<TypeInfo>;
pub uninterp spec fn intersection_types(u: TypeIntersection) -> Punctuated<TypeInfo>;
pub assume_specification [TypeUnion::types] (u: &TypeUnion) -> (r: &Punctuated<TypeInfo>) ensures *r == union_types(*u);
pub assume_specification [TypeUnion::new] (leading: Option<TokenReference>, types: Punctuated<TypeInfo>) -> (r: TypeUnion) ensures union_types(r) == types;
pub assume_specification [TypeUnion::leading] (u: &TypeUnion) -> (r: Option<&TokenReference>);
pub assume_specification [TypeIntersection::types] (u: &TypeIntersection) -> (r: &Punctuated<TypeInfo>) ensures *r == intersection_types(*u);
pub assume_specification [TypeIntersection::new] (leading: Option<TokenReference>, types: Punctuated<TypeInfo>) -> (r: TypeIntersection) ensures intersection_types(r) == types;
pub assume_specification [TypeIntersection::leading] (u: &TypeIntersection) -> (r: Option<&TokenReference>);
pub assume_specification [<TypeInfo as Clone>::clone] (t: &TypeInfo) -> (r: TypeInfo) ensures r == *t;

// `(T)`: the type inside parentheses that hold exactly one type
pub open spec fn single_inner(t: TypeInfo) -> Option<TypeInfo> {
    match t { TypeInfo::Tuple { types, .. } => if ppairs(types).len() == 1 { Some(pair_value(ppairs(types)[0])) } else { None }, _ => None }
}
// what a formatter of one type owes its caller: `(T)` whose parentheses are needed in the context it is formatted for comes back in parentheses
pub open spec fn parens_kept(t: TypeInfo, c: TypeInfoContext, r: TypeInfo) -> bool {
    single_inner(t) is Some && parens_needed(single_inner(t)->Some_0, c) ==> r is Tuple
}
pub open spec fn members_kept(a: Seq<TypeInfo>, c: TypeInfoContext, b: Seq<TypeInfo>) -> bool {
    a.len() == b.len() && forall|i: int| 0 <= i < a.len() ==> parens_kept(#[trigger] a[i], c, b[i])
}
pub open spec fn with_union(c: TypeInfoContext) -> TypeInfoContext { TypeInfoContext { contains_union: true, ..c } }
pub open spec fn with_intersect(c: TypeInfoContext) -> TypeInfoContext { TypeInfoContext { contains_intersect: true, ..c } }
pub open spec fn hang_post(t: TypeInfo, c: TypeInfoContext, r: TypeInfo) -> bool {
    match t {
        TypeInfo::Union(u) => match r { TypeInfo::Union(ru) => members_kept(pvals(union_types(u)), with_union(c), pvals(union_types(ru))), _ => false },
        TypeInfo::Intersection(u) => match r { TypeInfo::Intersection(ru) => members_kept(pvals(intersection_types(u)), with_intersect(c), pvals(intersection_types(ru))), _ => false },
        _ => parens_kept(t, c, r),
    }
}
impl UpdateLeadingTrivia for TypeInfo {
    // only the trivia in front of the first token change: for `(T)` that token is the parenthesis
    open spec fn same_sem(&self, r: &Self) -> bool { single_inner(*r) == single_inner(*self) }
    open spec fn lead_ok(&self, t: FormatTriviaType, r: &Self) -> bool { true }
    open spec fn on_new_line(&self) -> bool { other_nl(*self) }
    open spec fn rest_same(&self, r: &Self) -> bool { true }
    #[verifier::external_body] fn update_leading_trivia(&self, leading_trivia: FormatTriviaType) -> (r: Self) { unimplemented!() }
}
pub open spec fn ctx_le(a: TypeInfoContext, b: TypeInfoContext) -> bool {
    (a.within_optional ==> b.within_optional) && (a.within_variadic ==> b.within_variadic) && (a.within_generic ==> b.within_generic)
    && (a.within_table_indexer ==> b.within_table_indexer) && (a.contains_union ==> b.contains_union) && (a.contains_intersect ==> b.contains_intersect)
}
pub open spec fn ctx0() -> TypeInfoContext { TypeInfoContext { within_optional: false, within_variadic: false, within_generic: false, within_table_indexer: false, contains_union: false, contains_intersect: false } }
pub open spec fn with_optional(c: TypeInfoContext) -> TypeInfoContext { TypeInfoContext { within_optional: true, ..c } }
pub open spec fn with_variadic(c: TypeInfoContext) -> TypeInfoContext { TypeInfoContext { within_variadic: true, ..c } }
// format_type_info_internal: what each arm that builds a compound type owes — every `(T)` directly under it is formatted for the
// context that names the compound (and so keeps parentheses it needs there); for `(T)` itself: parens_kept
pub open spec fn type_post(t: TypeInfo, c: TypeInfoContext, r: TypeInfo) -> bool {
    parens_kept(t, c, r) && match t {
        TypeInfo::Union(u) => match r { TypeInfo::Union(ru) => members_kept(pvals(union_types(u)), with_union(c), pvals(union_types(ru))), _ => false },
        TypeInfo::Intersection(u) => match r { TypeInfo::Intersection(ru) => members_kept(pvals(intersection_types(u)), with_intersect(c), pvals(intersection_types(ru))), _ => false },
        TypeInfo::Optional { base, .. } => match r { TypeInfo::Optional { base: rb, .. } => parens_kept(*base, with_union(with_optional(c)), *rb), _ => false },
        TypeInfo::Variadic { type_info, .. } => match r { TypeInfo::Variadic { type_info: rt, .. } => parens_kept(*type_info, with_variadic(c), *rt), _ => false },
        _ => true,
    }
}
// structure of full_moon's type tree (class A): the members of a union / intersection and the types inside parentheses are parts of it
#[verifier::external_body] pub proof fn lemma_union_member_smaller(u: TypeUnion, i: int)
    requires 0 <= i < ppairs(union_types(u)).len() ensures decreases_to!(TypeInfo::Union(u) => pair_value(ppairs(union_types(u))[i])) {}
#[verifier::external_body] pub proof fn lemma_intersection_member_smaller(u: TypeIntersection, i: int)
    requires 0 <= i < ppairs(intersection_types(u)).len() ensures decreases_to!(TypeInfo::Intersection(u) => pair_value(ppairs(intersection_types(u))[i])) {}
impl UpdateTrailingTrivia for TypeInfo {
    open spec fn same_sem_t(&self, r: &Self) -> bool { (*r is Tuple) == (*self is Tuple) }
    open spec fn trail_ok(&self, t: FormatTriviaType, r: &Self) -> bool { true }
    open spec fn not_open(&self) -> bool { other_closed(*self) }
    #[verifier::external_body] fn update_trailing_trivia(&self, trailing_trivia: FormatTriviaType) -> (r: Self) { unimplemented!() }
}
pub assume_specification<T> [Punctuated::<T>::len] (p: &Punctuated<T>) -> (r: usize) ensures r == ppairs(*p).len();
#[verifier::external_body] pub fn first_type(types: &Punctuated<TypeInfo>) -> (r: &TypeInfo) requires ppairs(*types).len() >= 1 ensures *r == pair_value(ppairs(*types)[0]) { unimplemented!() /* types.iter().next().unwrap() */ }
#[verifier::external_body] pub fn first_type_owned(types: Punctuated<TypeInfo>) -> (r: TypeInfo) requires ppairs(types).len() >= 1 ensures r == pair_value(ppairs(types)[0]) { unimplemented!() /* types.into_iter().next().unwrap() */ }
// the arms that build no union / intersection / optional / variadic / parenthesised type (arrays, names, callbacks, generics, tables, typeof, modules)
#[verifier::external_body] pub fn other_arm(ctx: &Context, type_info: &TypeInfo, context: TypeInfoContext, shape: Shape) -> (r: TypeInfo)
    ensures !(r is Tuple) || true { unimplemented!() }
// format_punctuated(ctx, types, shape, |..| format_type_info_internal(.., context, ..)): each type inside the parentheses formatted for the same context
// (its result is the recursive call's; the closure hides the recursion from the verifier, hence assumed here)
#[verifier::external_body] pub fn format_tuple_types(ctx: &Context, types: &Punctuated<TypeInfo>, context: TypeInfoContext, shape: Shape) -> (r: Punctuated<TypeInfo>)
    ensures ppairs(r).len() == ppairs(*types).len() { unimplemented!() }
#[verifier::external_body] pub fn format_tuple_multiline(ctx: &Context, parentheses: &ContainedSpan, types: &Punctuated<TypeInfo>, shape: Shape) -> (r: (ContainedSpan, Punctuated<TypeInfo>)) { unimplemented!() }
#[verifier::external_body] pub fn format_optional_symbol(ctx: &Context, token: Option<&TokenReference>, shape: Shape) -> Option<TokenReference> { unimplemented!() /* token.map(|token| fmt_symbol!(ctx, token, "| " or "& ", shape)) */ }
#[verifier::external_body] pub fn peekable<I: Iterator>(it: I) -> (r: std::iter::Peekable<I>) ensures pk_rest(&r) == it_rest(&it) { it.peekable() }
"""

def hang_inv(types_of, mark, extra=""):
    return f"""
        invariant
            {extra}
            0 <= k <= ppairs({types_of}).len(),
            pk_rest(&iter).len() == ppairs({types_of}).len() - k,
            forall|j: int| 0 <= j < pk_rest(&iter).len() ==> *(#[trigger] pk_rest(&iter)[j]) == ppairs({types_of})[k + j],
            ppairs(types).len() == k,
            forall|i: int| 0 <= i < k ==> parens_kept(pair_value(#[trigger] ppairs({types_of})[i]), {mark}(context), pair_value(ppairs(types)[i])), //# C02.luau_hang_loop
        ensures k == ppairs({types_of}).len(),
        decreases pk_rest(&iter).len(),
"""

def items():
    its = common_items()
    return its + [
        Raw(SPEC, module="formatters::luau"),
        Item(LU, "struct", "TypeInfoContext", keep_derives=("Clone", "Copy")),
        Fn(LU, "keep_parentheses", contract="""
    ensures parens_needed(*internal_type, context) ==> r, //# C02.luau_type_parentheses_kept
""", edits=[SplitOrGuards()]),
        Raw(HANG_SPEC, module="formatters::luau"),
        Fn(LU, "mark_contains_union", impl_of="TypeInfoContext", contract="ensures ctx_le(with_union(self), r), //# C02.luau_context_marks"),
        Fn(LU, "mark_contains_intersect", impl_of="TypeInfoContext", contract="ensures ctx_le(with_intersect(self), r), //# C02.luau_context_marks"),
        Fn(LU, "mark_within_optional", impl_of="TypeInfoContext", contract="ensures ctx_le(with_optional(self), r), //# C02.luau_context_marks"),
        Fn(LU, "mark_within_variadic", impl_of="TypeInfoContext", contract="ensures ctx_le(with_variadic(self), r), //# C02.luau_context_marks"),
        Fn(LU, "mark_within_generic", impl_of="TypeInfoContext", contract="ensures ctx_le(TypeInfoContext { within_generic: true, ..self }, r), //# C02.luau_context_marks"),
        Fn(LU, "mark_within_table_indexer", impl_of="TypeInfoContext", contract="ensures ctx_le(TypeInfoContext { within_table_indexer: true, ..self }, r), //# C02.luau_context_marks"),
        Fn(LU, "new", impl_of="TypeInfoContext", contract=""),
        Fn("src/formatters/general.rs", "format_symbol", mode="stub"),
        Fn("src/formatters/general.rs", "format_token_reference", mode="stub"),
        Fn("src/formatters/general.rs", "format_contained_span", mode="stub"),
        Fn(LU, "format_type_info_internal", contract="""
    ensures type_post(*type_info, context, r), //# C02.luau_type_members_keep_parentheses
    decreases type_info,
""", edits=[
            Between("TypeInfo::Array {\n            braces,\n            access,\n            type_info,\n        } => {", "TypeInfo::GenericPack { name, ellipsis }\n        }",
                    "TypeInfo::Array { .. } | TypeInfo::Basic(_) | TypeInfo::String(_) | TypeInfo::Boolean(_) | TypeInfo::Callback { .. } | TypeInfo::Generic { .. } | TypeInfo::GenericPack { .. } => other_arm(ctx, type_info, context, shape),",
                    why="arms that build no compound of parenthesisable members: arrays, names, literals, callbacks, generics (their nested types are formatted by calls the unit does not follow)"),
            Between("TypeInfo::Module {\n            module,\n            punctuation,\n            type_info,\n        } => {", "TypeInfo::Module {\n                module,\n                punctuation,\n                type_info,\n            }\n        }",
                    "TypeInfo::Module { .. } => other_arm(ctx, type_info, context, shape),", why="module-qualified names"),
            Between("TypeInfo::Table { braces, fields } => {", "TypeInfo::Typeof {\n                typeof_token,\n                parentheses,\n                inner,\n            }\n        }",
                    "TypeInfo::Table { .. } | TypeInfo::Typeof { .. } => other_arm(ctx, type_info, context, shape),", why="table types and typeof(..)"),
            Between("|| types.pairs().any(|pair| {", "                });", "|| hole_bool();", why="closure over the comments of the types inside the parentheses: chooses the layout only"),
            Between("format_punctuated(ctx, types, shape + 1, |ctx, type_info, shape| {", "}); // 1 = \"(\"", "format_tuple_types(ctx, types, context, shape + 1);", why="generic list formatter with a closure that recurses"),
            Hole("""format_contained_punctuated_multiline(
                    ctx,
                    parentheses,
                    types,
                    |ctx, type_info, shape| format_hangable_type_info(ctx, type_info, shape, 0),
                    shape,
                )""", "format_tuple_multiline(ctx, parentheses, types, shape)", kind="wrapper", why="generic list formatter with a closure"),
            Hole("types.iter().next().unwrap()", "first_type(types)", kind="wrapper", why="Punctuated::iter().next().unwrap()", optional=True),
            Hole("singleline_types.into_iter().next().unwrap()", "first_type_owned(singleline_types)", kind="wrapper", why="Punctuated::into_iter().next().unwrap()"),
            Hole("for pair in intersection.types().pairs() {", "let mut vx_it = peekable(intersection.types().pairs());\n            let ghost mut k: int = 0;\n            while let Some(pair) = vx_it.next() {", kind="desugar", why="for over an iterator: written as its definition, through the Peekable wrapper"),
            Hole("for pair in union.types().pairs() {", "let mut vx_it = peekable(union.types().pairs());\n            let ghost mut k: int = 0;\n            while let Some(pair) = vx_it.next() {", kind="desugar", why="for over an iterator: written as its definition, through the Peekable wrapper"),
            Loop("while let Some(pair) = vx_it.next()", hang_inv("intersection_types(*intersection)", "with_intersect", "*type_info == TypeInfo::Intersection(*intersection),").replace("&iter", "&vx_it").replace("C02.luau_hang_loop", "C02.luau_type_loop"), step="proof { k = k + 1; }", enter="proof { lemma_intersection_member_smaller(*intersection, k); }", nth=0),
            Loop("while let Some(pair) = vx_it.next()", hang_inv("union_types(*union)", "with_union", "*type_info == TypeInfo::Union(*union),").replace("&iter", "&vx_it").replace("C02.luau_hang_loop", "C02.luau_type_loop"), step="proof { k = k + 1; }", enter="proof { lemma_union_member_smaller(*union, k); }", nth=1),
        ]),
        Fn(LU, "hang_type_info_binop", mode="stub"),
        Fn(LU, "hang_type_info", contract="""
    ensures hang_post(*type_info, context, r), //# C02.luau_hang_members_keep_parentheses
""", edits=[
            Hole("union.types().pairs().peekable()", "peekable(union.types().pairs())", kind="wrapper", why="Iterator::peekable through a wrapper carrying the ghost sequence"),
            Hole("intersection.types().pairs().peekable()", "peekable(intersection.types().pairs())", kind="wrapper", why="Iterator::peekable through a wrapper carrying the ghost sequence"),
            Hole("iter.peek().leading_comments()", "hole_vec_token()", count=2, why="trait method on Option<&&Pair<TypeInfo>>: the comments in front of the next member, moved in front of the operator"),
            Hole("""union
                    .leading()
                    .map(|token| fmt_symbol!(ctx, token, "| ", shape))""", "format_optional_symbol(ctx, union.leading(), shape)", kind="wrapper", why="closure over the optional leading `|`"),
            Hole("""intersection
                    .leading()
                    .map(|token| fmt_symbol!(ctx, token, "& ", shape))""", "format_optional_symbol(ctx, intersection.leading(), shape)", kind="wrapper", why="closure over the optional leading `&`"),
            After("let mut iter = peekable(union.types().pairs());", "let ghost mut k: int = 0;"),
            After("let mut iter = peekable(intersection.types().pairs());", "let ghost mut k: int = 0;"),
            Loop("while let Some(pair) = iter.next()", hang_inv("union_types(*union)", "with_union"), step="proof { k = k + 1; }", nth=0),
            Loop("while let Some(pair) = iter.next()", hang_inv("intersection_types(*intersection)", "with_intersect"), step="proof { k = k + 1; }", nth=1),
        ]),
        # ---- the entry points: every caller outside this file comes in through one of these, with the empty context
        Raw("""
// a context with more marks asks for more parentheses, never fewer: what was formatted for it also satisfies what a context with fewer marks asks for.
// The entry points are stated for the empty context — the weakest request — so that starting from a context with marks set is no violation.
pub proof fn lemma_members_mono(a: Seq<TypeInfo>, c: TypeInfoContext, d: TypeInfoContext, b: Seq<TypeInfo>)
    requires ctx_le(c, d), members_kept(a, d, b), ensures members_kept(a, c, b)
{ assert forall|i: int| 0 <= i < a.len() implies parens_kept(#[trigger] a[i], c, b[i]) by { assert(parens_kept(a[i], d, b[i])); } }
pub proof fn lemma_type_post_mono(t: TypeInfo, c: TypeInfoContext, d: TypeInfoContext, r: TypeInfo)
    requires ctx_le(c, d), type_post(t, d, r), ensures type_post(t, c, r)
{
    match t {
        TypeInfo::Union(u) => match r { TypeInfo::Union(ru) => { lemma_members_mono(pvals(union_types(u)), with_union(c), with_union(d), pvals(union_types(ru))); }, _ => {} },
        TypeInfo::Intersection(u) => match r { TypeInfo::Intersection(ru) => { lemma_members_mono(pvals(intersection_types(u)), with_intersect(c), with_intersect(d), pvals(intersection_types(ru))); }, _ => {} },
        _ => {}
    }
}
pub proof fn lemma_hang_post_mono(t: TypeInfo, c: TypeInfoContext, d: TypeInfoContext, r: TypeInfo)
    requires ctx_le(c, d), hang_post(t, d, r), ensures hang_post(t, c, r)
{
    match t {
        TypeInfo::Union(u) => match r { TypeInfo::Union(ru) => { lemma_members_mono(pvals(union_types(u)), with_union(c), with_union(d), pvals(union_types(ru))); }, _ => {} },
        TypeInfo::Intersection(u) => match r { TypeInfo::Intersection(ru) => { lemma_members_mono(pvals(intersection_types(u)), with_intersect(c), with_intersect(d), pvals(intersection_types(ru))); }, _ => {} },
        _ => {}
    }
}
""", module="formatters::luau"),
        Fn(LU, "format_type_info", contract="ensures type_post(*type_info, ctx0(), r), //# C02.luau_entry_points", edits=[
            Hole("format_type_info_internal(ctx, type_info, TypeInfoContext::new(), shape)", "{ let vx_context = TypeInfoContext::new(); let vx_r = format_type_info_internal(ctx, type_info, vx_context, shape); proof { lemma_type_post_mono(*type_info, ctx0(), vx_context, vx_r); } vx_r }", kind="ghost-name", why="the context and the result get names for the proof hint (monotonicity in the context); same call"),
        ]),
        Fn(LU, "can_hang_type", mode="stub"), Fn(LU, "should_hang_type", mode="stub"),
        Fn(LU, "format_hangable_type_info_internal", contract="ensures hang_post(*type_info, context, r), //# C02.luau_entry_points", edits=[
            Hole("shape.test_over_budget(&strip_trailing_trivia(&singleline_type_info))", "hole_bool()", why="Display width of the one-line candidate"),
        ]),
        Fn(LU, "format_hangable_type_info", contract="ensures hang_post(*type_info, ctx0(), r), //# C02.luau_entry_points", edits=[
            Hole("format_hangable_type_info_internal(ctx, type_info, TypeInfoContext::new(), shape, hang_level)", "{ let vx_context = TypeInfoContext::new(); let vx_r = format_hangable_type_info_internal(ctx, type_info, vx_context, shape, hang_level); proof { lemma_hang_post_mono(*type_info, ctx0(), vx_context, vx_r); } vx_r }", kind="ghost-name", why="the context and the result get names for the proof hint (monotonicity in the context); same call"),
        ]),
        Raw("#[verifier::external_type_specification] #[verifier::external_body] pub struct ExTypeSpecifier(TypeSpecifier);\n" + node_specs("TypeAssertion", "n_ta", [("assertion_op", "TokenReference", "-"), ("cast_to", "TypeInfo", "ref")])
            + node_specs("TypeSpecifier", "n_ts", [("punctuation", "TokenReference", "-"), ("type_info", "TypeInfo", "ref")]) + """
pub assume_specification [TypeAssertion::new] (cast_to: TypeInfo) -> (r: TypeAssertion) ensures n_ta_cast_to(&r) == cast_to;
""", module="formatters::luau"),
        Fn(LU, "format_type_assertion", contract="ensures type_post(n_ta_cast_to(type_assertion), ctx0(), n_ta_cast_to(&r)), //# C02.luau_entry_points"),
        Fn(LU, "format_type_assertion_on_new_line", contract="ensures type_post(n_ta_cast_to(type_assertion), ctx0(), n_ta_cast_to(&r)), //# C02.luau_entry_points"),
        Fn(LU, "format_type_specifier", contract="ensures type_post(n_ts_type_info(type_specifier), ctx0(), n_ts_type_info(&r)), //# C02.luau_entry_points"),
    ]

LABELS = {
    "C02.luau_context_marks": dict(props=["C02", "C01"], text="the mark_* functions return a context that carries at least the mark they are named after and every mark the context had (a context with more marks keeps more parentheses, never fewer)"),
    "C02.luau_entry_points": dict(props=["C02", "C01"], text="format_type_info, format_hangable_type_info(_internal), format_type_assertion(_on_new_line), format_type_specifier: the type they are given is formatted for the empty context (TypeInfoContext::new is all-false), hung or not, so what format_type_info_internal / hang_type_info guarantee holds for the cast / annotation they return"),
    "C02.luau_type_members_keep_parentheses": dict(props=["C02", "C01"], text="format_type_info_internal: `(T)` loses its parentheses only where keep_parentheses(T, context) says they are not needed; the members of a union / intersection, the base of an optional and the type of a variadic are formatted for the context that carries the matching mark"),
    "C02.luau_type_loop": dict(props=["C02", "C01"], text="format_type_info_internal, union / intersection loops: the members pushed so far correspond one to one to the input's, each formatted for the marked context"),
    "C02.luau_hang_members_keep_parentheses": dict(props=["C02", "C01"], text="hang_type_info: every member `(T)` of a hung union / intersection whose parentheses are needed under the union (intersection) mark is formatted for a context that carries the mark, so it comes back in parentheses; same number of members"),
    "C02.luau_hang_loop": dict(props=["C02", "C01"], text="hang_type_info loop invariant: the members pushed so far correspond one to one to the input's, each formatted for the marked context"),
    "C02.luau_type_parentheses_kept": dict(props=["C02", "C01"], text="keep_parentheses: parentheses around a single Luau type are kept wherever the grammar reads the type differently without them (function type before `?` / `|` / `&`, union under `?` / `...` / `&`, optional under `&`, intersection under `?` / `...` / `|`, any generic argument)"),
}

HEADER_LUAU = HEADER + "use full_moon::ast::luau::{TypeInfo, TypeUnion, TypeIntersection, TypeSpecifier};\nuse full_moon::ast::punctuated::Pair;\n"

UNIT = Unit("luau", items() + [VERIF_MOD], LABELS, macros=[("src/formatters/general.rs", "fmt_symbol")], header=HEADER_LUAU, feature_sets=("all",))
