"""Unit `luau`: src/formatters/luau.rs keep_parentheses — C02 mechanism "Luau type parentheses rule": parentheses around a
single type are kept wherever dropping them changes the type that is parsed. The requirement is written from the Luau
grammar (luau.org/grammar), not from the function:

    Type         ::= SimpleType ['?']*  |  Union  |  Intersection
    Union        ::= [SimpleType ['?']*] {'|' SimpleType ['?']*}        -- members are simple types, possibly optional
    Intersection ::= SimpleType {'&' SimpleType}                         -- members are simple types: no `?`, no `|`
    SimpleType   ::= nil | NAME [...] | typeof(...) | TableType | FunctionType | '(' Type ')'
    FunctionType ::= [generics] '(' ... ')' '->' ReturnType               -- ReturnType is a whole Type: it extends to the right
    GenericArgs  ::= '<' (Type | TypePack | ...) {',' ...} '>'            -- `(T)` is a type PACK there, `T` a type

so `(T)` must stay when
  * T is a function type and something follows it that would be read as part of its return type: a `?`, a further `|` / `&` member;
  * T is a union and it is the operand of `?`, of `...`, or a member of an intersection;
  * T is an optional and it is a member of an intersection;
  * T is an intersection and it is the operand of `?`, of `...`, or a member of a union;
  * `(T)` is a generic argument (it denotes a pack).
Only the one-directional requirement is a contract (needed ==> kept): keeping more parentheses than needed is cosmetic."""
from gen import Unit, Fn, Item, Raw, RawFile, Hole, After, Before, Loop, Between, SplitOrGuards
from common import *

LU = "src/formatters/luau.rs"

SPEC = r"""
#[verifier::external_type_specification] #[verifier::external_body] pub struct ExTypeUnion(full_moon::ast::luau::TypeUnion);
#[verifier::external_type_specification] #[verifier::external_body] pub struct ExTypeIntersection(full_moon::ast::luau::TypeIntersection);
#[verifier::external_type_specification] #[verifier::external_body] pub struct ExGenericDeclaration(full_moon::ast::luau::GenericDeclaration);
#[verifier::external_type_specification] #[verifier::external_body] pub struct ExTypeArgument(full_moon::ast::luau::TypeArgument);
#[verifier::external_type_specification] #[verifier::external_body] pub struct ExTypeField(full_moon::ast::luau::TypeField);
#[verifier::external_type_specification] #[verifier::external_body] pub struct ExIndexedTypeInfo(full_moon::ast::luau::IndexedTypeInfo);
#[verifier::external_type_specification] pub struct ExTypeInfo(full_moon::ast::luau::TypeInfo);

pub open spec fn parens_needed(t: TypeInfo, c: TypeInfoContext) -> bool {
    c.within_generic || match t {
        TypeInfo::Callback { .. } => c.within_optional || c.contains_union || c.contains_intersect,
        TypeInfo::Union(_) => c.within_optional || c.within_variadic || c.contains_intersect,
        TypeInfo::Optional { .. } => c.contains_intersect,
        TypeInfo::Intersection(_) => c.within_optional || c.within_variadic || c.contains_union,
        _ => false,
    }
}
"""

def items():
    return [
        RawFile("prelude/fm_types.rs"),
        Raw(SPEC, module="formatters::luau"),
        Item(LU, "struct", "TypeInfoContext", keep_derives=("Clone", "Copy")),
        Fn(LU, "keep_parentheses", contract="""
    ensures parens_needed(*internal_type, context) ==> r, //# C02.luau_type_parentheses_kept
""", edits=[SplitOrGuards()]),
    ]

LABELS = {
    "C02.luau_type_parentheses_kept": dict(props=["C02"], text="keep_parentheses: parentheses around a single Luau type are kept wherever the grammar reads the type differently without them (function type before `?` / `|` / `&`, union under `?` / `...` / `&`, optional under `&`, intersection under `?` / `...` / `|`, any generic argument)"),
}

HEADER_LUAU = HEADER + "use full_moon::ast::luau::TypeInfo;\n"

UNIT = Unit("luau", items(), LABELS, header=HEADER_LUAU, feature_sets=("all",))
