"""Unit `stmt`: src/formatters/stmt.rs — remove_condition_parentheses (C02: only the top-level parentheses of a condition
go; C03: the comments bound to them are kept) """
from gen import Unit, Fn, Item, Raw, RawFile, Hole, After, Before, Loop, Between
from common import *

STM = "src/formatters/stmt.rs"

SPEC = r"""
// ---- comment bookkeeping for the parentheses of a condition ----
pub uninterp spec fn comments_of(v: Seq<Token>) -> Seq<Token>;                 // the comment tokens of a trivia list, in order
pub uninterp spec fn expr_lead_added(e: Expression, r: Expression) -> Seq<Token>;   // what an Append to the leading trivia added
pub uninterp spec fn expr_trail_added(e: Expression, r: Expression) -> Seq<Token>;
pub uninterp spec fn trail_comments_of_expr(e: Expression) -> Seq<Token>;       // take_trailing_comments(e).1
pub uninterp spec fn tok_lead(t: TokenReference) -> Seq<Token>;
pub uninterp spec fn tok_trail(t: TokenReference) -> Seq<Token>;

"""

def items():
    its = common_items()
    its += [
        Raw(SPEC),
        Raw("""
pub assume_specification [TokenReference::symbol] (s: &str) -> (r: Result<TokenReference, full_moon::tokenizer::TokenizerErrorType>)
    ensures r is Ok, sym_of(r->Ok_0) == sym_of_literal(s@);
""") if False else Raw(""),
        Fn(TU, "take_trailing_comments", mode="stub", contract="ensures node.same_sem_t(&r.0),"),
        Raw("""
#[verifier::external_body] pub fn paren_leading_comments(contained: &ContainedSpan) -> (r: Vec<Token>)
    ensures r@ == comments_of(tok_lead(span_open(*contained)) + tok_trail(span_open(*contained))) { unimplemented!() }
#[verifier::external_body] pub fn paren_close_leading_comments(contained: &ContainedSpan) -> (r: Vec<Token>)
    ensures r@ == comments_of(tok_lead(span_close(*contained))) { unimplemented!() }
pub uninterp spec fn expr_gets(e: Expression, lead_added: Seq<Token>, trail_added: Seq<Token>, r: Expression) -> bool;
#[verifier::external_body] pub fn with_comments(inner: Box<Expression>, leading: Vec<Token>, trailing: Vec<Token>) -> (r: Expression)
    ensures skel(r) == skel(*inner), expr_gets(*inner, leading@, trailing@, r) { unimplemented!() }
#[verifier::external_body] pub fn trailing_comments_of(e: &Expression) -> (r: Vec<Token>) ensures r@ == trail_comments_of_expr(*e) { unimplemented!() /* trivia_util::take_trailing_comments(&expression).1 */ }
pub open spec fn cond_post(e: Expression, r: Expression) -> bool {
    match e {
        Expression::Parentheses { contained, expression } =>
            skel(r) == skel(*expression)
            // every comment bound to the removed parentheses is handed to the condition: those on `(` in front, those on `)` behind
            && expr_gets(*expression, comments_of(tok_lead(span_open(contained)) + tok_trail(span_open(contained))),
                         comments_of(tok_lead(span_close(contained))) + trail_comments_of_expr(e), r),
        _ => r == e,
    }
}
""", module="formatters::stmt"),
        Fn(STM, "remove_condition_parentheses", contract="""
    ensures cond_post(expression, r), //# C03.condition_parens_keep_comments
            erase(skel(r)) == erase(skel(expression)) || (skel(expression) is Paren && is_multi(*skel(expression)->Paren_0)), //# C02.condition_parens_only
""", edits=[
            Between("let leading_comments = start_parens", ".collect();", "let leading_comments = paren_leading_comments(&contained);", why="iterator chain: comments on the opening parenthesis"),
            Between("let mut trailing_comments: Vec<_> = end_parens", ".collect();", "let mut trailing_comments: Vec<Token> = paren_close_leading_comments(&contained);", why="iterator chain: comments in front of the closing parenthesis"),
            Hole("let (_, mut comments) = trivia_util::take_trailing_comments(&expression);", "let mut comments = trailing_comments_of(&expression);", kind="wrapper", why="take_trailing_comments(..).1"),
            Hole("""inner_expression
                .update_leading_trivia(FormatTriviaType::Append(leading_comments))
                .update_trailing_trivia(FormatTriviaType::Append(trailing_comments))""", "with_comments(inner_expression, leading_comments, trailing_comments)", kind="wrapper",
                 why="update_leading_trivia(Append(..)).update_trailing_trivia(Append(..)) as one call that records what was appended"),
            Hole("let (start_parens, end_parens) = contained.tokens();", "", why="the tokens are read inside the two comment wrappers"),
        ]),
        Raw("""
pub open spec fn is_multi(s: Skel) -> bool { s is Leaf && (s->Leaf_0 is Call || s->Leaf_0 is Varargs) }
""", module="formatters::stmt"),
    ]
    return its

LABELS = {
    "C03.condition_parens_keep_comments": dict(props=["C03", "C02"], text="remove_condition_parentheses: the result is the inner expression, and every comment bound to the removed parentheses (both sides of `(`, in front of and behind `)`) is appended to it"),
    "C02.condition_parens_only": dict(props=["C02", "C05"], text="remove_condition_parentheses removes at most the one top-level pair of parentheses of the condition (a condition is a single-value context, so `(f())` may lose them there)"),
}

UNIT = Unit("stmt", items() + [VERIF_MOD], LABELS, header=HEADER)
