"""Unit `expr`: the three implementations of the parenthesis rule (C05), skeleton preservation of the
expression spine (C02), `- -x` (C01.3). Real text of src/formatters/expression.rs."""
from gen import Unit, Fn, Item, Raw, RawFile, Hole, After, Before, Loop, Between, HoistClosure
from common import *

SPEC_EXPR = r"""
// ---- spec: what an ExpressionContext value soundly says about the position of the expression ----
pub open spec fn gamma(c: ExpressionContext, p: Pos) -> bool {
    match c {
        ExpressionContext::Standard => p is Free,
        ExpressionContext::Prefix => p is PrefixPos,
        #[cfg(feature = "luau")]
        ExpressionContext::TypeAssertion => p is AssertOperand,
        ExpressionContext::BinaryLHS => p is BinLhs && p->BinLhs_0 != OP_CARET,
        ExpressionContext::BinaryLHSExponent => p == Pos::BinLhs(OP_CARET),
        // (the hanging path also uses UnaryOrBinary for the left operand of every operator but `^`)
        ExpressionContext::UnaryOrBinary => p is UnaryOperand || p is BinRhs || (p is BinLhs && p->BinLhs_0 != OP_CARET),
    }
}
// contexts in which something may follow the expression on its right (an operator): there the
// expression must not become right-open (`e :: T` / `if … else e` absorb what follows)
pub open spec fn closed_ctx(c: ExpressionContext) -> bool {
    c is BinaryLHS || c is BinaryLHSExponent || c is UnaryOrBinary
}
pub open spec fn stays_closed(e: Expression, r: Expression, c: ExpressionContext) -> bool {
    closed_ctx(c) && right_open(skel(r)) ==> right_open(skel(e))
}
// the shared contract of every formatter of the expression spine
pub open spec fn is_multi(s: Skel) -> bool { s is Leaf && (s->Leaf_0 is Call || s->Leaf_0 is Varargs) }
// operator tree preserved modulo redundant parentheses (+ two helper facts that make the induction go through:
// leaves map to themselves, and a bare call / `...` in the output was a bare call / `...` in the input)
pub open spec fn same_tree(e: Expression, r: Expression) -> bool {
    &&& erase(skel(r)) == erase(skel(e))
    &&& (skel(e) is Leaf ==> skel(r) == skel(e))
    &&& (is_multi(skel(r)) ==> skel(e) == skel(r))
}
pub open spec fn expr_post(e: Expression, r: Expression, c: ExpressionContext) -> bool {
    &&& same_tree(e, r)
    &&& wf(skel(r))
    &&& no_double_minus(skel(r))
    &&& forall|p: Pos| #![trigger gamma(c, p)] #![trigger fits(skel(r), p)] gamma(c, p) && fits(skel(e), p) ==> fits(skel(r), p)
    &&& stays_closed(e, r, c)
}
"""

def items():
    its = common_items()
    its += [
        Fn(TRV, "strip_trivia", mode="stub"),
        Fn(TRV, "strip_leading_trivia", mode="stub"),
        Fn(TU, "take_trailing_comments", contract="ensures node.same_sem_t(&r.0), r.0.not_open(),"),
        Fn(TU, "take_leading_comments", contract="ensures node.same_sem(&r.0),"),
        Fn(TU, "contains_comments", mode="stub", sig_edits=[VN], contract="ensures node.line_open() ==> r,",
           note="line facts (class A): a node one of whose tokens carries a line comment contains comments"),
        Item(GEN, "enum", "EndTokenType"),
        Fn(GEN, "format_contained_span", mode="stub"),
        Fn(GEN, "format_token_reference", mode="stub", contract="ensures tok_open(r) ==> tok_open(*token_reference), leaf_safe(Expression::Number(r)), leaf_safe(Expression::String(r)), leaf_safe(Expression::Symbol(r)), tok_of(r) == tok_of(*token_reference), token_type_of(tr_token(*token_reference)) is Symbol ==> tr_token(r) == tr_token(*token_reference), token_type_of(tr_token(r)) is Symbol ==> token_type_of(tr_token(*token_reference)) is Symbol, is_bracket_tok(r) == is_bracket_tok(*token_reference),"),
        Fn(GEN, "format_symbol", mode="stub", proved_in="tok", contract="ensures tr_token(r) == tr_token(*wanted_symbol), tok_open(r) ==> tok_open(*current_symbol) || tok_open(*wanted_symbol),",
           note="proved in unit tok over the trivia sequences (C01.symbol_open_only_if_source); tok_open(t) read as `the trailing trivia of t hold a line comment`"),
        Fn(GEN, "format_end_token", mode="stub"),
        Item(FUN, "enum", "FunctionCallNextNode"),
        Fn(FUN, "format_anonymous_function", mode="stub", contract="ensures anon_fn_id(*r) == anon_fn_id(*anonymous_function), leaf_safe(Expression::Function(r)),"),
        Fn(FUN, "format_function_call", mode="stub", contract="ensures call_id(r) == call_id(*function_call), leaf_safe(Expression::FunctionCall(r)),"),
        Fn(FUN, "format_call", mode="stub"),
        Fn("src/formatters/table.rs", "format_table_constructor", mode="stub", contract="ensures table_id(r) == table_id(*table_constructor), leaf_safe(Expression::TableConstructor(r)),"),
        Item(EX, "enum", "ExpressionContext"),
        Raw(SPEC_EXPR, module="formatters::expression"),
        Fn(EX, "format_var", mode="stub", contract="ensures var_id(r) == var_id(*var), leaf_safe(Expression::Var(r)),"),
        Fn(EX, "format_if_expression", mode="stub", contract="ensures if_id(r) == if_id(*if_expression), leaf_safe(Expression::IfExpression(r)),"),
        Fn(EX, "format_interpolated_string", mode="stub", contract="ensures interp_id(r) == interp_id(*interpolated_string), leaf_safe(Expression::InterpolatedString(r)),"),
        Fn("src/formatters/luau.rs", "format_type_assertion", mode="stub", attrs='#[cfg(feature = "luau")]\n',
           contract="ensures type_assertion_id(r) == type_assertion_id(*type_assertion), ta_safe(r),"),
        Fn("src/formatters/luau.rs", "format_type_assertion_on_new_line", mode="stub", attrs='#[cfg(feature = "luau")]\n',
           contract="ensures type_assertion_id(r) == type_assertion_id(*type_assertion), ta_safe(r), ta_nl(r),",
           note="line facts (class C): `::` is formatted with [newline, indent] appended to its leading trivia"),
        Fn(EX, "format_binop", contract="""
    ensures binop_id(r) == binop_id(*binop), //# C05.format_binop_same_operator
        binop_id(*binop) != OP_SHR ==> tr_token(binop_tok(r)) == symbol_of_text(binop_text(binop_id(*binop))), //# C02.format_binop_prints_the_operator
        binop_id(*binop) == OP_SHR ==> tok_of(binop_tok(r)) == tok_of(binop_tok(*binop)), //# C02.format_binop_prints_the_operator
        binop_open(r) ==> binop_open(*binop), //# C01.format_binop_open_only_if_source
""", edits=[
            HoistClosure("fmt_op!(ctx, BinOp, binop, shape, {", "|other: &BinOp| ", "BinOp",
                         "requires !binop_listed(*other), ensures binop_id(r) == binop_id(*other), binop_id(*other) == OP_SHR, tok_of(binop_tok(r)) == tok_of(binop_tok(*other)), binop_open(r) ==> binop_open(*other),", name="unlisted_binop",
                         why="the operators fmt_op! does not list by name: requires an unlisted operator, ensures what the function ensures"),
        ]),
        Fn(EX, "format_unop", contract="""
    ensures unop_id(r) == unop_id(*unop), //# C05.format_unop_same_operator
        tr_token(unop_tok(r)) == symbol_of_text(unop_text(unop_id(*unop))), //# C02.format_unop_prints_the_operator
        unop_open(r) ==> unop_open(*unop), //# C01.format_unop_open_only_if_source
"""),
        Fn(EX, "removed_parentheses_comments", mode="stub", contract="ensures trivia_lines_ok(r.0@),",
           note="two iterator-adapter chains collecting the comments around both parentheses of a removed pair (C03: bounded witnesses only)"),
        Fn(EX, "check_excess_parentheses", ret="b", contract="""
    requires wf(skel(*internal_expression)),
    ensures
        b ==> forall|p: Pos| #![trigger gamma(context, p)] #![trigger fits(skel(*internal_expression), p)] gamma(context, p) && !(p is PrefixPos) && !(p is AssertOperand) ==> fits(skel(*internal_expression), p), //# C05.cep_sound
        b ==> !must_keep_parens(skel(*internal_expression)), //# C05.cep_keeps_multivalue
        b && closed_ctx(context) ==> !right_open(skel(*internal_expression)), //# C05.cep_closed
    decreases internal_expression,
"""),
        Fn(EX, "keep_double_minus_apart", contract="""
    requires wf(skel(expression)), no_double_minus(skel(expression)),
    ensures
        erase(skel(r)) == erase(skel(expression)),
        skel(r) == skel(expression) || skel(r) == Skel::Paren(Box::new(skel(expression))),
        wf(skel(r)), no_double_minus(skel(r)),
        right_open(skel(r)) ==> right_open(skel(expression)),
        fits(skel(expression), Pos::UnaryOperand) ==> fits(skel(r), Pos::UnaryOperand),
        unop_id(*unop) == UN_MINUS ==> !(skel(r) is Un && skel(r)->Un_0 == UN_MINUS), //# C01.double_minus_guard
        esafe(expression) ==> esafe(r), //# C01.double_minus_parens_line_safe
"""),
        Fn(TU, "prepend_newline_indent", mode="stub", contract="ensures node.same_sem(&r), r.on_new_line(), node.rest_same(&r),",
           note="iterator chain building [newline, indent, comment]* newline indent; only trivia changes (UpdateLeadingTrivia interface)"),
        Fn(EX, "parenthesise", contract="""
    requires esafe(expression),
    ensures
        r is Parentheses, //# C05.parenthesise_shape
        skel(r) == Skel::Paren(Box::new(skel(expression))),
        esafe(r), //# C01.parenthesise_line_safe
"""),
        Fn(EX, "move_operand_below_comment", contract="""
    ensures skel(r) == skel(expression), begins_with_bracket_string(r) == begins_with_bracket_string(expression), //# C02.unary_operand_same
        esafe(r) == esafe(expression), unop_open(*unop) ==> enl(r), unop_id(*unop) == UN_MINUS && elc(r) ==> enl(r), //# C01.unary_operand_below_comment
"""),
        Fn(EX, "format_expression", contract="""
    requires wf(skel(*expression)),
    ensures expr_post(*expression, r, ExpressionContext::Standard), //# C05.format_expression
            esafe(r), //# C01.format_expression.line_safe
            begins_with_bracket_string(r) ==> may_begin_with_bracket_string(*expression), //# C01.bracket_string_visible
    decreases expression, 5int,
"""),
        Fn(EX, "format_expression_internal", contract="""
    requires wf(skel(*expression)),
    ensures
        same_tree(*expression, r), //# C05.single_line.erase
        wf(skel(r)), //# C05.single_line.wf
        no_double_minus(skel(r)), //# C05.single_line.no_double_minus
        forall|p: Pos| #![trigger gamma(context, p)] #![trigger fits(skel(r), p)] gamma(context, p) && fits(skel(*expression), p) ==> fits(skel(r), p), //# C05.single_line.fits
        stays_closed(*expression, r, context), //# C05.single_line.closed
        esafe(r), //# C01.single_line.line_safe
        begins_with_bracket_string(r) ==> may_begin_with_bracket_string(*expression), //# C01.bracket_string_visible_internal
    decreases expression, (if *expression is BinaryOperator { 4int } else { 0int }),
""", edits=[
            Hole("strip_leading_trivia(&unop).to_string().len()", "verif::hole_usize()", why="Display width of a node"),
            Hole("binop.to_string().len()", "verif::hole_usize()", why="Display width of a node"),
        ]),
    ]
    its += hanging_items()
    return its

def post(prefix, e, ctx, extra="", bs=False):
    bsl = f"        begins_with_bracket_string(r) ==> may_begin_with_bracket_string({e}), //# C01.bracket_string_visible_hanging\n" if bs else ""
    return f"""
    ensures
{bsl}
        same_tree({e}, r), //# {prefix}.erase
        wf(skel(r)), //# {prefix}.wf
        no_double_minus(skel(r)), //# {prefix}.no_double_minus
        forall|p: Pos| #![trigger gamma({ctx}, p)] #![trigger fits(skel(r), p)] gamma({ctx}, p) && fits(skel({e}), p) ==> fits(skel(r), p), //# {prefix}.fits
        stays_closed({e}, r, {ctx}), //# {prefix}.closed
        esafe(r), //# {prefix}.line_safe
{extra}"""

W = "verif::hole_usize()"

def hanging_items():
    return [
        Item(EX, "struct", "LeftmostRangeHang", keep_derives=("Clone", "Copy")),
        Item(EX, "trait", "ToRange"),
        Raw("""
impl ToRange for (usize, usize) { #[verifier::external_body] fn to_range(&self) -> (usize, usize) { unimplemented!() } }
impl ToRange for Expression { #[verifier::external_body] fn to_range(&self) -> (usize, usize) { unimplemented!() } }
#[verifier::external_body] pub fn hole_lhs_range() -> Option<LeftmostRangeHang> { unimplemented!() }
""", module="formatters::expression"),
        Fn(EX, "find", impl_of="LeftmostRangeHang", mode="stub"),
        Fn(EX, "required_shape", impl_of="LeftmostRangeHang", mode="stub"),
        RawFile("prelude/comments.rs"),
        Raw("""
// each comment of the list behind [newline, indent]: the comments are the same, in order (the flat_map closure, class B)
#[verifier::external_body] pub fn indented_comments(ctx: &Context, shape: Shape, comments: Vec<Token>) -> (r: Vec<Token>)
    ensures cmts(r@) == cmts(comments@) { unimplemented!() /* .iter().flat_map(|x| vec![newline, indent, x.to_owned()]).collect() */ }
""", module="formatters::expression"),
        Fn(EX, "hang_binop", contract="""
    ensures binop_id(r) == binop_id(binop),
        binop_nl(r), !binop_open(r), //# C01.hang_binop_starts_line
        // the comments in front of the hung operator are: its own leading ones, its own trailing ones, those in front of the right operand
        cmts(binop_lead_trivia(r)) == cmts(binop_lead_comments(binop)) + cmts(binop_trail_comments(binop)) + cmts(expr_lead_comments(*rhs)), //# C03.hang_binop_keeps_comments
        forall|i: int| 0 <= i < binop_trail_trivia(r).len() ==> !is_comment_tok(#[trigger] binop_trail_trivia(r)[i]), //# C03.hang_binop_keeps_comments
""", edits=[
            # ghost snapshots behind the three statements that fetch comments, one proof block in front of the final call: the hints do not
            # hang on the statements that move the comments, so a change that drops one of those fails the obligation instead of losing an anchor
            After("let mut trailing_comments = binop.trailing_comments();", "let ghost tc0 = trailing_comments@; let ghost lc0 = leading_comments@;"),
            Before("binop.update_trivia(", """proof {
        let n = lc0 + tc0 + elc0;
        lemma_cmts_concat(lc0, tc0); lemma_cmts_concat(lc0 + tc0, elc0);
        let f = leading_comments@;
        if f.len() == n.len() + 2 && f.take(n.len() as int) =~= n {
            lemma_cmts_push(n, f[n.len() as int]); lemma_cmts_push(n.push(f[n.len() as int]), f[n.len() as int + 1]);
            assert(f =~= n.push(f[n.len() as int]).push(f[n.len() as int + 1]));
        }
    }
    """),
            Between("binop\n        .leading_comments()", ".collect::<Vec<_>>()", "indented_comments(ctx, shape, binop.leading_comments())", why="iterator chain (flat_map closure): each leading comment of the operator behind [newline, indent]"),
            Between("rhs\n        .leading_comments()", ".collect::<Vec<_>>()", "indented_comments(ctx, shape, rhs.leading_comments())", why="iterator chain (flat_map closure): each leading comment of the right operand behind [newline, indent]"),
            After("let mut expression_leading_comments = indented_comments(ctx, shape, rhs.leading_comments());", "let ghost elc0 = expression_leading_comments@;"),
        ]),
        Fn(EX, "is_hang_binop_over_width", mode="stub"),
        Fn(EX, "binop_expression_contains_comments", mode="stub", contract="""
    ensures (match *expression { Expression::BinaryOperator { binop, .. } => binop == *top_binop && binop_open(binop), _ => false }) ==> r,""",
           note="line facts (class C): for the operator itself it tests contains_comments(binop) first"),
        Fn(EX, "binop_precedence_level", mode="stub"),
        Fn(EX, "did_hang_expression", mode="stub"),
        Item(EX, "enum", "ExpressionSide", keep_derives=()),
        Fn(EX, "hanging_lhs_context", contract="ensures forall|p: Pos| p == Pos::BinLhs(binop_id(*binop)) ==> #[trigger] gamma(r, p), closed_ctx(r), //# C05.hanging_lhs_context"),
        Fn(EX, "hang_binop_expression", contract="""
    requires wf(skel(expression)),""" + post("C05.hang_binop", "expression", "expression_context", """
    decreases expression, 3int,
""", bs=True), edits=[
            Hole('const SPACE_LEN: usize = " ".len();', "let SPACE_LEN: usize = verif::hole_usize();", why="str::len in a const; value only feeds widths"),
            Hole("strip_trivia(&new_binop).to_string().len()", W, why="Display width of a node"),
        ]),
        Fn(EX, "format_hanging_expression_", contract="""
    requires wf(skel(*expression)),""" + post("C05.hanging", "*expression", "expression_context", """
    decreases expression, 2int,
""", bs=True), edits=[
            Hole("let expression_str = formatted_expression.to_string();", "let expression_str_len: usize = verif::hole_usize();", why="Display width of a node"),
            Hole("2 + expression_str.len()", "expression_str_len", why="Display width of a node"),
            Hole("strip_leading_trivia(&unop).to_string().len()", W, why="Display width of a node"),
            Hole("strip_trivia(binop).to_string().len()", W, count=2, why="Display width of a node"),
            Hole('format!("{binop}{rhs}").len()', W, why="Display width of a node"),
        ]),
        Fn(EX, "hang_expression", contract="""
    requires wf(skel(*expression)),""" + post("C05.hang_expression", "*expression", "ExpressionContext::Standard"), edits=[
            Hole("""let lhs_range =
        hang_level.map(|_| LeftmostRangeHang::find(expression, original_additional_indent_level));""",
                 "let lhs_range = hole_lhs_range();", why="closure; only feeds indentation"),
        ]),
        Fn(EX, "hang_expression_trailing_newline", contract="""
    requires wf(skel(*expression)),""" + post("C05.hang_expression_nl", "*expression", "ExpressionContext::Standard")),
        Fn(EX, "is_string", mode="verify", contract="decreases expression,"),
        Raw("""
pub open spec fn prefix_post(p: Prefix, r: Prefix) -> bool {
    match p {
        Prefix::Expression(e) => match r {
            Prefix::Expression(re) => same_tree(*e, *re) && wf(skel(*re)) && no_double_minus(skel(*re)) && (fits(skel(*e), Pos::PrefixPos) ==> fits(skel(*re), Pos::PrefixPos)),
            _ => false,
        },
        Prefix::Name(t) => match r { Prefix::Name(rt) => tok_of(rt) == tok_of(t), _ => false },
        _ => true,
    }
}
pub open spec fn prefix_wf(p: Prefix) -> bool { match p { Prefix::Expression(e) => wf(skel(*e)), _ => true } }
""", module="formatters::expression"),
        Fn(EX, "format_prefix", contract="""
    requires prefix_wf(*prefix),
    ensures prefix_post(*prefix, r), //# C05.prefix_keeps_parens
"""),
        Fn(EX, "is_brackets_string", mode="verify", ret="b", contract="""
    ensures b == may_begin_with_bracket_string(*expression), //# C01.is_brackets_string
    decreases expression,
"""),
        Fn(EX, "process_dot_name", mode="stub"),
        Raw("""
pub open spec fn index_post(i: Index, r: Index) -> bool {
    match i {
        Index::Brackets { brackets, expression } => match r {
            // a key that prints with a leading `[[` is separated from the opening bracket: by a space, or (comment
            // carrying layout) by the newline appended to `[`
            Index::Brackets { brackets: rb, expression: re } => same_tree(expression, re)
                && (begins_with_bracket_string(re) ==> expr_padded_left(re) || tok_followed_by_ws(span_open(rb))),
            _ => false },
        Index::Dot { .. } => r is Dot,
        _ => true,
    }
}
pub open spec fn index_wf(i: Index) -> bool { match i { Index::Brackets { expression, .. } => wf(skel(expression)), _ => true } }
""", module="formatters::expression"),
        Fn(EX, "format_index", contract="""
    requires index_wf(*index),
    ensures index_post(*index, r), //# C01.index_bracket_string
"""),
    ]

LABELS = {
    "C05.cep_sound": dict(props=["C05", "C02"], text="check_excess_parentheses returns true only if the bare inner expression fits every position the context stands for"),
    "C05.cep_keeps_multivalue": dict(props=["C05", "C02"], text="calls, `...` (they truncate a value list) and if-expressions never lose their parentheses"),
    "C01.double_minus_guard": dict(props=["C01", "C05"], text="the operand handed back for a unary minus is never itself a bare unary minus"),
    "C05.hanging_lhs_context": dict(props=["C05", "C02"], text="the context the hanging path gives to a left operand soundly describes `left operand of this operator` (in particular BinaryLHSExponent for `^`)"),
    "C05.prefix_keeps_parens": dict(props=["C05", "C02", "C01"], text="format_prefix (both layout paths): a parenthesised prefix expression keeps its parentheses (without them a table, function or string prefix does not parse, a call prefix is a different expression); operator tree preserved"),
    "C01.bracket_string_visible": dict(props=["C01"], text="format_expression: if the formatted expression begins with a long-bracket string token, the input was recognisable as such by is_brackets_string (through parentheses, type assertions, left operands)"),
    "C02.unary_operand_same": dict(props=["C02", "C05"], text="move_operand_below_comment (operand of a unary operator that is followed by a line comment goes to a new line): only trivia changes"),
    "C01.single_line.line_safe": dict(props=["C01", "C02", "C03"], text="format_expression_internal: no token of the formatted expression is printed behind a line comment on the same line (operators, operands, parentheses, type assertions; leaves assumed)"),
    "C01.format_expression.line_safe": dict(props=["C01", "C02", "C03"], text="format_expression: same"),
    "C01.parenthesise_line_safe": dict(props=["C01", "C02", "C03"], text="parenthesise (kept parentheses): the expression starts a new line when `(` is followed by a line comment, and `)` starts a new line when the expression ends with one"),
    "C05.parenthesise_shape": dict(props=["C05", "C02"], text="parenthesise returns the expression inside one pair of parentheses"),
    "C03.hang_binop_keeps_comments": dict(props=["C03"], text="hang_binop: the comments in front of the hung operator are exactly its own leading comments, its own trailing comments and the comments in front of the right operand, in that order; none behind it"),
    "C01.hang_binop_starts_line": dict(props=["C01", "C02"], text="hang_binop: the leading trivia it builds end with [newline, indent] (two real pushes) and the trailing trivia become one space: the operator starts a line and nothing is open behind it"),
    "C05.format_binop_same_operator": dict(props=["C05", "C02"], text="format_binop (real text, the fmt_op! expansion): every operator is mapped to the same operator; the wildcard arm is unreachable"),
    "C05.format_unop_same_operator": dict(props=["C05", "C02"], text="format_unop: same"),
    "C02.format_binop_prints_the_operator": dict(props=["C02", "C05"], text="format_binop: the token printed for an operator is the symbol the Lua manual gives it (`+` for Plus, ...; `>>` keeps its own token)"),
    "C02.format_unop_prints_the_operator": dict(props=["C02", "C05"], text="format_unop: same (`-`, `not`, `#`, `~`)"),
    "C01.format_binop_open_only_if_source": dict(props=["C01"], text="format_binop: the formatted operator is open only if the source operator is"),
    "C01.format_unop_open_only_if_source": dict(props=["C01"], text="format_unop: same"),
    "C01.unary_operand_below_comment": dict(props=["C01"], text="move_operand_below_comment: when the operator is followed by a line comment the operand starts a new line; nothing else changes"),
    "C01.double_minus_parens_line_safe": dict(props=["C01"], text="keep_double_minus_apart: the parentheses it adds do not end up behind a line comment (the operand's trailing comments are moved behind `)`)"),
    "C01.bracket_string_visible_internal": dict(props=["C01"], text="same, for format_expression_internal (induction)"),
    "C01.bracket_string_visible_hanging": dict(props=["C01"], text="same, for the hanging formatters format_hanging_expression_ / hang_binop_expression, which format_expression_internal falls back to when a line comment sits at a binary operator"),
    "C01.is_brackets_string": dict(props=["C01", "C04"], text="is_brackets_string is true exactly for expressions that will print with a leading long-bracket string (any level: `[[`, `[=[`, ...)"),
    "C01.index_bracket_string": dict(props=["C01", "C04", "C02"], text="format_index: a bracketed key that prints with a leading `[[`/`[=[` is separated from `[` by whitespace; the key's operator tree is preserved"),
    "C05.format_expression": dict(props=["C05", "C02", "C01"], text="format_expression: operator tree preserved modulo redundant parentheses, output re-parse-stable, no `--`"),
    "C05.single_line.erase": dict(props=["C05", "C02"], text="format_expression_internal (single-line path): operator tree preserved modulo redundant parentheses; call/`...` parentheses kept"),
    "C05.single_line.wf": dict(props=["C05", "C02", "C01"], text="single-line path: the output tree re-parses to itself (every operand fits its position)"),
    "C05.single_line.no_double_minus": dict(props=["C05", "C01"], text="single-line path: no unary minus directly under a unary minus (`--x`)"),
    "C05.cep_closed": dict(props=["C05", "C01"], text="under an operator, check_excess_parentheses never frees a type assertion / if-expression (or a unary chain ending in one)"),
    "C05.single_line.closed": dict(props=["C05", "C01"], text="single-line path: under an operator the result does not become right-open (type assertion / if-expression stay attached)"),
    "C05.single_line.fits": dict(props=["C05", "C02"], text="single-line path: the result still fits every position its ExpressionContext stands for"),
}
for _p, _t in [("C05.hang_binop", "hang_binop_expression (hanging path, operand chains)"), ("C05.hanging", "format_hanging_expression_ (hanging path)"),
               ("C05.hang_expression", "hang_expression"), ("C05.hang_expression_nl", "hang_expression_trailing_newline")]:
    LABELS[_p + ".erase"] = dict(props=["C05", "C02"], text=_t + ": operator tree preserved modulo redundant parentheses; call/`...` parentheses kept")
    LABELS[_p + ".wf"] = dict(props=["C05", "C02", "C01"], text=_t + ": every operand of the output fits its position (re-parse-stable)")
    LABELS[_p + ".no_double_minus"] = dict(props=["C05", "C01"], text=_t + ": no unary minus directly under a unary minus (`--x`)")
    LABELS[_p + ".fits"] = dict(props=["C05", "C02"], text=_t + ": the result still fits every position its ExpressionContext stands for")
    LABELS[_p + ".line_safe"] = dict(props=["C01", "C02", "C03"], text=_t + ": no token of the formatted expression is printed behind a line comment on the same line (operators, operands, parentheses, type assertions; leaves assumed)")
    LABELS[_p + ".closed"] = dict(props=["C05", "C01"], text=_t + ": under an operator the result does not become right-open")

UNIT = Unit("expr", items() + [VERIF_MOD], LABELS, macros=[(GEN, "fmt_symbol"), (EX, "fmt_op")], header=HEADER, module_header=MODHDR)
