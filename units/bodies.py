"""Unit `bodies`: src/formatters/stmt.rs — the statement formatters that rebuild a node around a block (C02: "no statement is
dropped, the condition / bounds are the same expressions"):

    format_do_block, format_while_block, format_repeat_block, format_else_if, format_numeric_for     (real text)

Each returns a node whose block has the statement census format_block returns for the input's block (same number of statements,
same presence of a last statement) and whose condition / bounds are the input's expressions modulo redundant parentheses (the
one top-level pair `remove_condition_parentheses` takes off a condition included). In the block unit these functions are class C
stubs ("same statement"); here their text is verified against the structure they rebuild.

The node accessors and `with_*` builders of full_moon get assumed specifications generated from one table per node type
(class A: a getter returns the field, a builder replaces exactly that field)."""
from gen import Unit, Fn, Item, Raw, RawFile, Hole, After, Before, Loop, Between, DebugAsserts
from common import *
import lists as LISTS

TU = "src/formatters/trivia_util.rs"
STM = "src/formatters/stmt.rs"
GEN = "src/formatters/general.rs"
EX = "src/formatters/expression.rs"
BLK = "src/formatters/block.rs"
FUN = "src/formatters/functions.rs"

TR, EXP, BLKT = "TokenReference", "Expression", "Block"
NODES = (
    node_specs("Do", "n_do", [("do_token", TR, "-"), ("block", BLKT, "ref"), ("end_token", TR, "-")])
    + node_specs("While", "n_while", [("while_token", TR, "ref"), ("condition", EXP, "ref"), ("do_token", TR, "-"), ("block", BLKT, "ref"), ("end_token", TR, "-")])
    + node_specs("Repeat", "n_repeat", [("repeat_token", TR, "-"), ("block", BLKT, "ref"), ("until_token", TR, "-"), ("until", EXP, "ref")])
    + node_specs("ElseIf", "n_elseif", [("else_if_token", TR, "ref"), ("condition", EXP, "ref"), ("then_token", TR, "-"), ("block", BLKT, "ref")])
    + node_specs("GenericFor", "n_gfor", [("for_token", TR, "-"), ("names", "Punctuated<TokenReference>", "ref"), ("in_token", TR, "-"), ("expressions", "Punctuated<Expression>", "ref"),
                                        ("do_token", TR, "-"), ("block", BLKT, "ref"), ("end_token", TR, "-")])
    + node_specs("LocalFunction", "n_lfun", [("local_token", TR, "-"), ("function_token", TR, "-"), ("name", TR, "ref"), ("body", "FunctionBody", "ref")])
    + node_specs("FunctionDeclaration", "n_fdecl", [("function_token", TR, "-"), ("name", "FunctionName", "ref"), ("body", "FunctionBody", "ref")])
    + node_specs("FunctionBody", "n_fb", [("block", BLKT, "ref"), ("parameters_parentheses", "ContainedSpan", "ref")], rest=True)
    + """
#[cfg(feature = "luau")] #[verifier::external_type_specification] #[verifier::external_body] pub struct ExGenericDeclaration(full_moon::ast::luau::GenericDeclaration);
// (the generics are part of "everything else a function body holds": a builder that leaves the rest alone leaves them alone)
#[cfg(feature = "luau")] pub uninterp spec fn generics_of_rest(rest: int) -> Option<full_moon::ast::luau::GenericDeclaration>;
#[cfg(feature = "luau")] pub open spec fn n_fb_generics(n: &FunctionBody) -> Option<full_moon::ast::luau::GenericDeclaration> { generics_of_rest(n_fb_rest(n)) }
#[cfg(feature = "luau")] pub assume_specification [FunctionBody::generics] (n: &FunctionBody) -> (r: Option<&full_moon::ast::luau::GenericDeclaration>) ensures (r is Some) == (n_fb_generics(n) is Some), r is Some ==> *r->Some_0 == n_fb_generics(n)->Some_0;
#[cfg(feature = "luau")] pub assume_specification [FunctionBody::with_generics] (n: FunctionBody, v: Option<full_moon::ast::luau::GenericDeclaration>) -> (r: FunctionBody) ensures n_fb_generics(&r) == v, n_fb_block(&r) == n_fb_block(&n), n_fb_parameters_parentheses(&r) == n_fb_parameters_parentheses(&n);
#[cfg(feature = "luau")] impl UpdateLeadingTrivia for full_moon::ast::luau::GenericDeclaration {
    open spec fn same_sem(&self, r: &Self) -> bool { true }
    open spec fn lead_ok(&self, t: FormatTriviaType, r: &Self) -> bool { ftt_new_line(t) ==> other_nl(*r) }
    open spec fn on_new_line(&self) -> bool { other_nl(*self) }
    open spec fn rest_same(&self, r: &Self) -> bool { true }
    #[verifier::external_body] fn update_leading_trivia(&self, leading_trivia: FormatTriviaType) -> (r: Self) { unimplemented!() }
}
// the first token of a function body starts a new line: its generics if it has any (Luau), its parameter parentheses otherwise
#[cfg(feature = "luau")] pub open spec fn fb_on_new_line(f: &FunctionBody) -> bool { if n_fb_generics(f) is Some { other_nl(n_fb_generics(f)->Some_0) } else { tok_nl(span_open(n_fb_parameters_parentheses(f))) } }
#[cfg(not(feature = "luau"))] pub open spec fn fb_on_new_line(f: &FunctionBody) -> bool { tok_nl(span_open(n_fb_parameters_parentheses(f))) }
"""
    + node_specs("NumericFor", "n_nfor", [("for_token", TR, "-"), ("index_variable", TR, "ref"), ("equal_token", TR, "-"), ("start", EXP, "ref"), ("start_end_comma", TR, "-"),
                                        ("end", EXP, "ref"), ("end_step_comma", TR, "opt"), ("step", EXP, "opt"), ("do_token", TR, "-"), ("block", BLKT, "ref"), ("end_token", TR, "-")])
)

SPEC = r"""
#[verifier::external_type_specification] #[verifier::external_body] pub struct ExElseIf(ElseIf);
pub open spec fn census(b: &Block) -> (nat, bool) { (block_stmts(b).len(), block_last(b) is Some) }
// a condition loses at most its one top-level pair of parentheses (remove_condition_parentheses), then only redundant ones
pub open spec fn strip_top(s: Skel) -> Skel { match s { Skel::Paren(i) => *i, _ => s } }
// (keeping the pair is as good: around a call it is not redundant in general, but a condition uses one value only)
pub open spec fn same_condition(e: Expression, r: Expression) -> bool { erase(skel(r)) == erase(strip_top(skel(e))) || erase(skel(r)) == erase(skel(e)) }
pub open spec fn same_expression(e: Expression, r: Expression) -> bool { erase(skel(r)) == erase(skel(e)) }
pub uninterp spec fn has_comments(k: NodeKey) -> bool;
// ---- function definitions ----
#[verifier::external_type_specification] #[verifier::external_body] pub struct ExFunctionName(FunctionName);
// the dotted names and the method name of `function a.b:c`
pub uninterp spec fn fname_names(n: FunctionName) -> Punctuated<TokenReference>;
pub uninterp spec fn fname_method(n: FunctionName) -> Option<(TokenReference, TokenReference)>;
pub open spec fn fname_id(n: FunctionName) -> (Seq<int>, Option<int>) {
    (name_sig(fname_names(n)), if fname_method(n) is Some { Some(tok_of(fname_method(n)->Some_0.1)) } else { None })
}
pub assume_specification [FunctionName::names] (n: &FunctionName) -> (r: &Punctuated<TokenReference>) ensures *r == fname_names(*n);
pub assume_specification [FunctionName::method_colon] (n: &FunctionName) -> (r: Option<&TokenReference>) ensures (r is Some) == (fname_method(*n) is Some), r is Some ==> *r->Some_0 == fname_method(*n)->Some_0.0;
pub assume_specification [FunctionName::method_name] (n: &FunctionName) -> (r: Option<&TokenReference>) ensures (r is Some) == (fname_method(*n) is Some), r is Some ==> *r->Some_0 == fname_method(*n)->Some_0.1;
pub assume_specification [FunctionName::new] (names: Punctuated<TokenReference>) -> (r: FunctionName) ensures fname_names(r) == names, fname_method(r) is None;
pub assume_specification [FunctionName::with_method] (n: FunctionName, m: Option<(TokenReference, TokenReference)>) -> (r: FunctionName) ensures fname_names(r) == fname_names(n), fname_method(r) == m;
pub assume_specification<T> [Punctuated::<T>::into_pairs] (p: Punctuated<T>) -> (r: impl Iterator<Item = Pair<T>>)
    ensures it_rest(&r) == ppairs(p);
pub assume_specification<T: Clone> [<Punctuated<T> as Clone>::clone] (p: &Punctuated<T>) -> (r: Punctuated<T>) ensures r == *p;
pub uninterp spec fn fname_trail(n: FunctionName) -> Seq<Token>;     // the trailing trivia of its last token
pub assume_specification [LocalFunction::new] (name: TokenReference) -> (r: LocalFunction) ensures n_lfun_name(&r) == name;
pub assume_specification [FunctionDeclaration::new] (name: FunctionName) -> (r: FunctionDeclaration) ensures n_fdecl_name(&r) == name;
// C11: what stands between the name of a function that is being defined and its `(`
pub proof fn axiom_spaces_no_comment(t: Token, c: Config) requires token_type_of(t) == definition_space(c) ensures !is_line_comment_tok(t) { admit(); }   // class A: TokenType::spaces(n) is a Whitespace token type
pub open spec fn definition_space(c: Config) -> TokenType { spaces_tt(if c.space_after_function_names is Always || c.space_after_function_names is Definitions { 1 } else { 0 }) }
// lists: the values of a punctuated list, and what the formatter has to keep of them
pub open spec fn pvals<T>(p: Punctuated<T>) -> Seq<T> { ppairs(p).map_values(|x: Pair<T>| pair_value(x)) }
pub open spec fn name_sig(p: Punctuated<TokenReference>) -> Seq<int> { pvals(p).map_values(|t: TokenReference| tok_of(t)) }
pub open spec fn expr_sig(p: Punctuated<Expression>) -> Seq<Skel> { pvals(p).map_values(|e: Expression| erase(skel(e))) }
pub open spec fn exprs_wf(p: Punctuated<Expression>) -> bool { forall|i: int| 0 <= i < pvals(p).len() ==> wf(skel(#[trigger] pvals(p)[i])) }
"""

LUAU_NFOR = r"""
#[cfg(feature = "luau")] #[verifier::external_type_specification] #[verifier::external_body] pub struct ExTypeSpecifier(full_moon::ast::luau::TypeSpecifier);
#[cfg(feature = "luau")] pub assume_specification [NumericFor::type_specifier] (n: &NumericFor) -> (r: Option<&full_moon::ast::luau::TypeSpecifier>);
#[cfg(feature = "luau")] pub assume_specification [NumericFor::with_type_specifier] (n: NumericFor, v: Option<full_moon::ast::luau::TypeSpecifier>) -> (r: NumericFor)
    ensures n_nfor_index_variable(&r) == n_nfor_index_variable(&n), n_nfor_start(&r) == n_nfor_start(&n), n_nfor_end(&r) == n_nfor_end(&n), n_nfor_end_step_comma(&r) == n_nfor_end_step_comma(&n), n_nfor_step(&r) == n_nfor_step(&n), n_nfor_block(&r) == n_nfor_block(&n);
#[cfg(feature = "luau")] #[verifier::external_body] pub fn format_optional_type_specifier(ctx: &Context, numeric_for: &NumericFor, shape: Shape) -> Option<full_moon::ast::luau::TypeSpecifier> { unimplemented!() }
"""

GFOR = r"""
impl UpdateLeadingTrivia for Punctuated<TokenReference> {
    open spec fn same_sem(&self, r: &Self) -> bool { name_sig(*r) == name_sig(*self) }
    open spec fn lead_ok(&self, t: FormatTriviaType, r: &Self) -> bool { true }
    open spec fn on_new_line(&self) -> bool { other_nl(*self) }
    open spec fn rest_same(&self, r: &Self) -> bool { true }
    #[verifier::external_body] fn update_leading_trivia(&self, leading_trivia: FormatTriviaType) -> (r: Self) { unimplemented!() }
}
impl UpdateLeadingTrivia for Punctuated<Expression> {
    open spec fn same_sem(&self, r: &Self) -> bool { expr_sig(*r) == expr_sig(*self) }
    open spec fn lead_ok(&self, t: FormatTriviaType, r: &Self) -> bool { true }
    open spec fn on_new_line(&self) -> bool { other_nl(*self) }
    open spec fn rest_same(&self, r: &Self) -> bool { true }
    #[verifier::external_body] fn update_leading_trivia(&self, leading_trivia: FormatTriviaType) -> (r: Self) { unimplemented!() }
}
impl UpdateTrailingTrivia for Punctuated<Expression> {
    open spec fn same_sem_t(&self, r: &Self) -> bool { expr_sig(*r) == expr_sig(*self) }
    open spec fn trail_ok(&self, t: FormatTriviaType, r: &Self) -> bool { true }
    open spec fn not_open(&self) -> bool { other_closed(*self) }
    #[verifier::external_body] fn update_trailing_trivia(&self, trailing_trivia: FormatTriviaType) -> (r: Self) { unimplemented!() }
}
impl GetLeadingTrivia for Punctuated<Expression> {
    open spec fn leads_with_comment(&self) -> bool { other_lc(*self) }
    #[verifier::external_body] fn leading_trivia(&self) -> Vec<Token> { unimplemented!() }
    #[verifier::external_body] fn has_leading_comments(&self, search: CommentSearch) -> (r: bool) { unimplemented!() }
    #[verifier::external_body] fn leading_comments(&self) -> Vec<Token> { unimplemented!() }
}
// format_punctuated / format_punctuated_multiline take the item formatter as a function value: one wrapper per (list, formatter)
// the four list-formatter calls of format_generic_for, each as a function whose body is the call itself, verified against the generic
// contracts of format_punctuated / format_punctuated_multiline (proved in unit lists) and the item formatter's contract
pub fn format_names_single(ctx: &Context, names: &Punctuated<TokenReference>, shape: Shape) -> (r: Punctuated<TokenReference>)
    ensures name_sig(r) == name_sig(*names)
{
    let r = format_punctuated(ctx, names, shape, format_token_reference);
    proof { assert forall|i: int| 0 <= i < ppairs(r).len() implies tok_of(pair_value(#[trigger] ppairs(r)[i])) == tok_of(pair_value(ppairs(*names)[i])) by { assert(by_item_formatter(format_token_reference, ctx, pair_value(ppairs(*names)[i]), pair_value(ppairs(r)[i]))); }
            assert(name_sig(r) =~= name_sig(*names)); }
    r
}
pub fn format_names_multi(ctx: &Context, names: &Punctuated<TokenReference>, shape: Shape) -> (r: Punctuated<TokenReference>)
    ensures name_sig(r) == name_sig(*names)
{
    let r = format_punctuated_multiline(
                ctx,
                names,
                shape,
                format_token_reference,
                None,
            );
    proof { assert forall|i: int| 0 <= i < ppairs(r).len() implies tok_of(pair_value(#[trigger] ppairs(r)[i])) == tok_of(pair_value(ppairs(*names)[i])) by { assert(by_item_formatter_modulo_trivia(format_token_reference, ctx, pair_value(ppairs(*names)[i]), pair_value(ppairs(r)[i]))); }
            assert(name_sig(r) =~= name_sig(*names)); }
    r
}
pub fn format_expressions_single(ctx: &Context, expressions: &Punctuated<Expression>, shape: Shape) -> (r: Punctuated<Expression>)
    requires exprs_wf(*expressions), ensures expr_sig(r) == expr_sig(*expressions)
{
    proof { assert forall|i: int, s: Shape| 0 <= i < ppairs(*expressions).len() implies #[trigger] call_requires(format_expression, (ctx, &pair_value(ppairs(*expressions)[i]), s)) by { assert(wf(skel(pvals(*expressions)[i]))); } }
    let r = format_punctuated(ctx, expressions, shape, format_expression);
    proof { assert forall|i: int| 0 <= i < ppairs(r).len() implies erase(skel(pair_value(#[trigger] ppairs(r)[i]))) == erase(skel(pair_value(ppairs(*expressions)[i]))) by { assert(by_item_formatter(format_expression, ctx, pair_value(ppairs(*expressions)[i]), pair_value(ppairs(r)[i]))); }
            assert(expr_sig(r) =~= expr_sig(*expressions)); }
    r
}
pub fn format_expressions_multi(ctx: &Context, expressions: &Punctuated<Expression>, shape: Shape) -> (r: Punctuated<Expression>)
    requires exprs_wf(*expressions), ensures expr_sig(r) == expr_sig(*expressions)
{
    proof { assert forall|i: int, s: Shape| 0 <= i < ppairs(*expressions).len() implies #[trigger] call_requires(format_expression, (ctx, &pair_value(ppairs(*expressions)[i]), s)) by { assert(wf(skel(pvals(*expressions)[i]))); } }
    let r = format_punctuated_multiline(
                ctx,
                expressions,
                shape,
                format_expression,
                None,
            );
    proof { assert forall|i: int| 0 <= i < ppairs(r).len() implies erase(skel(pair_value(#[trigger] ppairs(r)[i]))) == erase(skel(pair_value(ppairs(*expressions)[i]))) by { assert(by_item_formatter_modulo_trivia(format_expression, ctx, pair_value(ppairs(*expressions)[i]), pair_value(ppairs(r)[i]))); }
            assert(expr_sig(r) =~= expr_sig(*expressions)); }
    r
}
#[cfg(feature = "luau")] #[verifier::external_body] pub fn format_type_specifiers(ctx: &Context, generic_for: &GenericFor, shape: Shape) -> Vec<Option<full_moon::ast::luau::TypeSpecifier>> { unimplemented!() }
#[cfg(feature = "luau")] #[verifier::external_body] pub fn type_specifiers_width(v: &Vec<Option<full_moon::ast::luau::TypeSpecifier>>) -> (r: usize) ensures r < 0x1000_0000 { unimplemented!() }
#[cfg(feature = "luau")] pub assume_specification [GenericFor::with_type_specifiers] (n: GenericFor, v: Vec<Option<full_moon::ast::luau::TypeSpecifier>>) -> (r: GenericFor)
    ensures n_gfor_names(&r) == n_gfor_names(&n), n_gfor_expressions(&r) == n_gfor_expressions(&n), n_gfor_block(&r) == n_gfor_block(&n);
"""
WF = "wf(skel({}))"

def items():
    its = common_items()
    its += [
        Raw(LISTS.SPEC, module="formatters::general"),
        Fn(GEN, "format_punctuated", mode="stub", proved_in="lists", sig_edits=[Hole("T: std::fmt::Display,", "", kind="proxy", why="the Display bound is only used for a width")], contract="""
    requires forall|i: int, s: Shape| 0 <= i < ppairs(*old).len() ==> #[trigger] value_formatter.requires((ctx, &pair_value(ppairs(*old)[i]), s)),
    ensures ppairs(r).len() == ppairs(*old).len(),
            forall|i: int| 0 <= i < ppairs(*old).len() ==> by_item_formatter(value_formatter, ctx, pair_value(#[trigger] ppairs(*old)[i]), pair_value(ppairs(r)[i])),
"""),
        Fn(GEN, "format_punctuated_multiline", mode="stub", proved_in="lists", sig_edits=[Hole("T: Node + GetLeadingTrivia", "T: VNode + GetLeadingTrivia", kind="proxy", why="proxy trait for the sealed full_moon::node::Node")], contract="""
    requires forall|i: int, s: Shape| 0 <= i < ppairs(*old).len() ==> #[trigger] value_formatter.requires((ctx, &pair_value(ppairs(*old)[i]), s)),
    ensures ppairs(r).len() == ppairs(*old).len(),
            forall|i: int| 0 <= i < ppairs(*old).len() ==> by_item_formatter_modulo_trivia(value_formatter, ctx, pair_value(#[trigger] ppairs(*old)[i]), pair_value(ppairs(r)[i])),
"""),
        Raw(SPEC), Raw(NODES), Raw(LUAU_NFOR),
        Raw("""
impl UpdateTrivia for TokenReference2 { }
""") if False else Raw(""),
        Item(GEN, "enum", "EndTokenType"),
        Fn(GEN, "format_symbol", mode="stub", proved_in="tok", contract="ensures tok_of(r) == tok_of(*wanted_symbol), tok_open(r) ==> tok_open(*current_symbol) || tok_open(*wanted_symbol),", note="the printed symbol is the wanted one; it is followed by a line comment only if the source token (or the wanted symbol) was (proved in tok: C02.symbol_token, C01.symbol_open_only_if_source)"),
        Fn(GEN, "format_token_reference", mode="stub", proved_in="tok", contract="ensures tok_of(r) == tok_of(*token_reference),"),
        Fn(GEN, "format_end_token", mode="stub", proved_in="tok", contract="ensures tok_open(r) ==> tok_open(*current_token),", note="same for a block's closing keyword (tok: C01.tokref_open_only_if_source over its trailing trivia)"),
        Fn(TU, "contains_comments", mode="stub", sig_edits=[VN], contract="ensures r == has_comments(node.key()),"),
        Fn(EX, "format_expression", mode="stub", proved_in="expr", contract="requires wf(skel(*expression)), ensures erase(skel(r)) == erase(skel(*expression)),"),
        Fn(EX, "hang_expression_trailing_newline", mode="stub", proved_in="expr", contract="requires wf(skel(*expression)), ensures erase(skel(r)) == erase(skel(*expression)),"),
        Fn(STM, "remove_condition_parentheses", mode="stub", proved_in="stmt", contract="ensures skel(r) == strip_top(skel(expression)),"),
        Fn(STM, "should_indent_further", mode="stub", proved_in="collapse", sig_edits=[Hole("<'a>(trivia: impl Iterator<Item = &'a Token>, shape: Shape)", "(trivia: Vec<Token>, shape: Shape)", kind="proxy", why="iterator parameter")]),
        Fn(BLK, "format_block", mode="stub", proved_in="block", contract="ensures census(&r) == census(block),"),
        Raw("#[verifier::external_body] pub fn clone_ftt(t: &FormatTriviaType) -> (r: FormatTriviaType) ensures r == *t { unimplemented!() /* t.to_owned() */ }", module="formatters::stmt"),
        Raw("""
impl UpdateTrailingTrivia for FunctionName {
    open spec fn same_sem_t(&self, r: &Self) -> bool { fname_id(*r) == fname_id(*self) }
    open spec fn trail_ok(&self, t: FormatTriviaType, r: &Self) -> bool { t is Append ==> fname_trail(*r) == fname_trail(*self) + t->Append_0@ }
    open spec fn not_open(&self) -> bool { other_closed(*self) }
    #[verifier::external_body] fn update_trailing_trivia(&self, trailing_trivia: FormatTriviaType) -> (r: Self) { unimplemented!() }
}
impl UpdateTrailingTrivia for FunctionBody {
    open spec fn same_sem_t(&self, r: &Self) -> bool { n_fb_block(r) == n_fb_block(self) }
    open spec fn trail_ok(&self, t: FormatTriviaType, r: &Self) -> bool { true }
    open spec fn not_open(&self) -> bool { other_closed(*self) }
    #[verifier::external_body] fn update_trailing_trivia(&self, trailing_trivia: FormatTriviaType) -> (r: Self) { unimplemented!() }
}
""", module="formatters::functions"),
        Fn(CTX, "create_function_definition_trivia", mode="stub", proved_in="ctx", contract="ensures token_type_of(r) == definition_space(ctx.config),"),
        Fn(FUN, "format_function_name", contract="""
    ensures fname_id(r) == fname_id(*function_name), //# C02.function_name_same
""", edits=[
            Hole("for pair in function_name.names().to_owned().into_pairs() {", "let mut vx_it = peekable(function_name.names().to_owned().into_pairs());\n    let ghost mut k: int = 0;\n    while let Some(pair) = vx_it.next() {", kind="desugar", why="for over an owning iterator: written as its definition, through the Peekable wrapper"),
            Loop("while let Some(pair) = vx_it.next()", """
        invariant
            0 <= k <= ppairs(fname_names(*function_name)).len(),
            pk_rest(&vx_it).len() == ppairs(fname_names(*function_name)).len() - k,
            forall|j: int| 0 <= j < pk_rest(&vx_it).len() ==> #[trigger] pk_rest(&vx_it)[j] == ppairs(fname_names(*function_name))[k + j],
            ppairs(formatted_names).len() == k,
            forall|i: int| 0 <= i < k ==> tok_of(pair_value(#[trigger] ppairs(formatted_names)[i])) == tok_of(pair_value(ppairs(fname_names(*function_name))[i])), //# C02.function_name_loop
        ensures k == ppairs(fname_names(*function_name)).len(),
        decreases pk_rest(&vx_it).len(),
""", step="proof { k = k + 1; }"),
            Hole("FunctionName::new(formatted_names).with_method(formatted_method)", "proof { assert(name_sig(formatted_names) =~= name_sig(fname_names(*function_name))); }\n    FunctionName::new(formatted_names).with_method(formatted_method)", kind="ghost-name", why="proof hint: the two name sequences are equal item by item"),
        ]),
        Fn(FUN, "format_function_body", mode="stub", proved_in="collapse", contract="ensures census(&n_fb_block(&r)) == census(&n_fb_block(function_body)),"),
        Fn(FUN, "append_function_definition_trivia", contract="""
    ensures tok_of(r) == tok_of(token),
            tok_has_single_comment(r) == tok_has_single_comment(token), tok_open(r) ==> tok_open(token),
            !tok_has_single_comment(token) ==> tr_trail(r).len() >= 1 && token_type_of(tr_trail(r).last()) == definition_space(ctx.config), //# C11.definition_space
            tok_has_single_comment(token) ==> r == token, //# C10.no_space_behind_line_comment
""", edits=[
            Hole("token.update_trailing_trivia(FormatTriviaType::Append(vec![\n            create_function_definition_trivia(ctx),\n        ]))", "{ let vx_space = create_function_definition_trivia(ctx); proof { axiom_spaces_no_comment(vx_space, ctx.config); } token.update_trailing_trivia(FormatTriviaType::Append(vec![\n            vx_space,\n        ])) }", kind="ghost-name", why="the space gets a name for the proof hint (a space token is no comment)"),
        ]),
        Fn(FUN, "function_body_below_comment", contract="""
    ensures n_fb_block(&r) == n_fb_block(&function_body), //# C02.function_body_below_comment_same
            tok_has_single_comment(*preceding_token) ==> fb_on_new_line(&r), //# C01.function_body_below_comment
            tok_open(*preceding_token) ==> fb_on_new_line(&r), //# C01.function_body_below_comment
"""),
        Fn(FUN, "format_local_function", contract="""
    ensures tok_of(n_lfun_name(&r)) == tok_of(n_lfun_name(local_function)), //# C02.local_function_same
            census(&n_fb_block(&n_lfun_body(&r))) == census(&n_fb_block(&n_lfun_body(local_function))), //# C02.local_function_same
            !tok_has_single_comment(n_lfun_name(&r)) ==> tr_trail(n_lfun_name(&r)).len() >= 1 && token_type_of(tr_trail(n_lfun_name(&r)).last()) == definition_space(ctx.config), //# C11.definition_space
            tok_has_single_comment(n_lfun_name(&r)) ==> fb_on_new_line(&n_lfun_body(&r)), //# C01.function_body_below_comment
            tok_open(n_lfun_name(&r)) ==> fb_on_new_line(&n_lfun_body(&r)), //# C01.function_body_below_comment
""", edits=[Hole("strip_trivia(&formatted_name).to_string().len()", "hole_usize()", why="Display width of the name")]),
        Fn(FUN, "format_function_declaration", contract="""
    ensures fname_id(n_fdecl_name(&r)) == fname_id(n_fdecl_name(function_declaration)), //# C02.function_declaration_same
            census(&n_fb_block(&n_fdecl_body(&r))) == census(&n_fb_block(&n_fdecl_body(function_declaration))), //# C02.function_declaration_same
            fname_trail(n_fdecl_name(&r)).len() >= 1 && token_type_of(fname_trail(n_fdecl_name(&r)).last()) == definition_space(ctx.config), //# C11.definition_space
""", edits=[Hole("strip_trivia(&formatted_function_name).to_string().len()", "hole_usize()", why="Display width of the name")]),
        Fn(FUN, "format_anonymous_function", contract="""
    ensures census(&n_fb_block(&(*r).1)) == census(&n_fb_block(&anonymous_function.1)), //# C02.anonymous_function_same
            !tok_has_single_comment((*r).0) ==> tr_trail((*r).0).len() >= 1 && token_type_of(tr_trail((*r).0).last()) == definition_space(ctx.config), //# C11.definition_space
            tok_has_single_comment((*r).0) ==> fb_on_new_line(&(*r).1), //# C01.function_body_below_comment
            tok_open((*r).0) ==> fb_on_new_line(&(*r).1), //# C01.function_body_below_comment
""", edits=[Hole('const FUNCTION_LEN: usize = "function".len();', "let FUNCTION_LEN: usize = hole_usize();", why="str::len in a const: a width, used for layout only")]),
        Fn(STM, "format_do_block", contract="""
    ensures census(&n_do_block(&r)) == census(&n_do_block(do_block)), //# C02.do_keeps_statements
""", edits=[Hole("leading_trivia.to_owned(), trailing_trivia.to_owned()", "clone_ftt(&leading_trivia), clone_ftt(&trailing_trivia)", kind="wrapper", why="FormatTriviaType: Clone (derive dropped on the extracted enum)")]),
        Fn(STM, "format_while_block", contract="""
    requires wf(skel(n_while_condition(while_block))),
    ensures census(&n_while_block(&r)) == census(&n_while_block(while_block)), //# C02.while_keeps_statements
            same_condition(n_while_condition(while_block), n_while_condition(&r)), //# C02.while_keeps_condition
            !tok_open(n_while_while_token(&r)), //# C01.header_keyword_closed
""", edits=[Hole("strip_trivia(&singleline_condition).to_string().len()", "hole_usize()", why="Display width of the condition")]),
        Fn(STM, "format_repeat_block", contract="""
    requires wf(skel(n_repeat_until(repeat_block))),
    ensures census(&n_repeat_block(&r)) == census(&n_repeat_block(repeat_block)), //# C02.repeat_keeps_statements
            same_condition(n_repeat_until(repeat_block), n_repeat_until(&r)), //# C02.repeat_keeps_condition
""", edits=[Hole("strip_trivia(&condition).to_string().len()", "hole_usize()", why="Display width of the condition"),
            Hole("condition.has_inline_comments()", "hole_bool()", why="trivia_util::HasInlineComments (iterator over the expression's tokens): chooses the layout only")]),
        Fn(STM, "format_else_if", contract="""
    requires wf(skel(n_elseif_condition(else_if_node))),
    ensures census(&n_elseif_block(&r)) == census(&n_elseif_block(else_if_node)), //# C02.elseif_keeps_statements
            same_condition(n_elseif_condition(else_if_node), n_elseif_condition(&r)), //# C02.elseif_keeps_condition
            !tok_open(n_elseif_else_if_token(&r)), //# C01.header_keyword_closed
""", edits=[Hole("strip_trivia(&singleline_condition).to_string().len()", "hole_usize()", why="Display width of the condition"),
            Hole("should_indent_further(else_if_node.else_if_token().leading_trivia(), shape)", "should_indent_further(hole_vec_token(), shape)", why="iterator argument; chooses a comment indentation only")]),
        Fn(STM, "format_numeric_for", contract="""
    requires wf(skel(n_nfor_start(numeric_for))), wf(skel(n_nfor_end(numeric_for))), n_nfor_step(numeric_for) is Some ==> wf(skel(n_nfor_step(numeric_for)->Some_0)),
             (n_nfor_end_step_comma(numeric_for) is Some) == (n_nfor_step(numeric_for) is Some),   // parsed input: the second comma comes with a step
    ensures census(&n_nfor_block(&r)) == census(&n_nfor_block(numeric_for)), //# C02.numeric_for_keeps_statements
            tok_of(n_nfor_index_variable(&r)) == tok_of(n_nfor_index_variable(numeric_for)), //# C02.numeric_for_keeps_bounds
            same_expression(n_nfor_start(numeric_for), n_nfor_start(&r)), //# C02.numeric_for_keeps_bounds
            same_expression(n_nfor_end(numeric_for), n_nfor_end(&r)), //# C02.numeric_for_keeps_bounds
            (n_nfor_step(&r) is Some) == (n_nfor_step(numeric_for) is Some), //# C02.numeric_for_keeps_bounds
            n_nfor_step(numeric_for) is Some ==> same_expression(n_nfor_step(numeric_for)->Some_0, n_nfor_step(&r)->Some_0), //# C02.numeric_for_keeps_bounds
""", edits=[Hole("""numeric_for
        .type_specifier()
        .map(|type_specifier| format_type_specifier(ctx, type_specifier, shape))""", "format_optional_type_specifier(ctx, numeric_for, shape)", kind="wrapper", why="closure over the optional Luau type specifier", optional=True)]),
        Raw(vnode_impls([("Punctuated<TokenReference>", "NodeKey::Other(other_key(*self))", ""), ("Punctuated<Expression>", "NodeKey::Other(other_key(*self))", "")])),
        Raw(GFOR, module="formatters::stmt"),
        Fn(TU, "spans_multiple_lines", mode="stub", sig_edits=[Hole("<T: std::fmt::Display>", "<T>", kind="proxy", why="std::fmt::Display bound dropped on the stub")]),
        Fn(TU, "prepend_newline_indent", mode="stub", contract="ensures node.same_sem(&r),"),
        Raw("""
pub assume_specification<T> [Punctuated::<T>::len] (p: &Punctuated<T>) -> (r: usize) ensures r == ppairs(*p).len();
#[verifier::external_body] pub fn vx_first_value(p: &Punctuated<Expression>) -> (r: Option<&Expression>)
    ensures (r is Some) == (ppairs(*p).len() > 0) { unimplemented!() /* p.iter().next() */ }
""", module="formatters::stmt"),
        Fn(STM, "hug_generic_for", contract="""
    // total (C07): the `unwrap()` of the first expression is an obligation (the list holds exactly one item there)
""", edits=[
            Hole("expressions.iter().next()", "vx_first_value(expressions)", kind="wrapper", why="Punctuated::iter().next(): the first value, present iff the list is not empty"),
            Between("match expression {\n        // Ensure is function call", "        _ => false,\n    }", "hole_bool()", why="nested patterns over the call's suffixes and arguments through two iterators: a layout decision (is the one expression a call with a single table argument)"),
        ]),
        Fn(STM, "format_generic_for", contract="""
    requires exprs_wf(n_gfor_expressions(generic_for)),
    ensures census(&n_gfor_block(&r)) == census(&n_gfor_block(generic_for)), //# C02.generic_for_keeps_statements
            name_sig(n_gfor_names(&r)) == name_sig(n_gfor_names(generic_for)), //# C02.generic_for_keeps_header
            expr_sig(n_gfor_expressions(&r)) == expr_sig(n_gfor_expressions(generic_for)), //# C02.generic_for_keeps_header
""", edits=[
            Hole("format_punctuated(ctx, generic_for.names(), shape, format_token_reference)", "format_names_single(ctx, generic_for.names(), shape)", kind="wrapper", why="generic fn taking a formatter function value"),
            Hole("""format_punctuated_multiline(
                ctx,
                generic_for.names(),
                shape,
                format_token_reference,
                None,
            )""", "format_names_multi(ctx, generic_for.names(), shape)", kind="wrapper", why="generic fn taking a formatter function value"),
            Hole("format_punctuated(ctx, generic_for.expressions(), shape, format_expression)", "format_expressions_single(ctx, generic_for.expressions(), shape)", kind="wrapper", why="generic fn taking a formatter function value"),
            Hole("""format_punctuated_multiline(
                ctx,
                generic_for.expressions(),
                shape,
                format_expression,
                None,
            )""", "format_expressions_multi(ctx, generic_for.expressions(), shape)", kind="wrapper", why="generic fn taking a formatter function value"),
            Between("let type_specifiers: Vec<_> = generic_for", ".collect();", "let type_specifiers = format_type_specifiers(ctx, generic_for, shape);", why="closure chain over the Luau type specifiers of the names"),
            Between("+ type_specifiers.iter().fold(0, |acc, x| {", "});", "+ type_specifiers_width(&type_specifiers);", why="fold over the printed widths of the type specifiers"),
        ]),
    ]
    return its

LABELS = {
    "C10.no_space_behind_line_comment": dict(props=["C10"], text="append_function_definition_trivia: nothing is appended behind a token that a single line comment follows (the separating space would be trailing whitespace on the comment's line)"),
    "C02.function_body_below_comment_same": dict(props=["C02"], text="function_body_below_comment hands back the function body with the same block"),
    "C01.function_body_below_comment": dict(props=["C01", "C03"], text="a function body whose `function` keyword (anonymous function) or name (local function) is followed by a line comment starts a new line: its parameters are not printed into the comment (one call site of the D30 class, repaired)"),
    "C01.header_keyword_closed": dict(props=["C01", "C02"], text="format_while_block / format_else_if: a line comment behind the `while` / `elseif` keyword is always followed by a line break (the header goes multiline), so the condition is never printed inside the comment"),
    "C02.function_name_same": dict(props=["C02"], text="format_function_name: the same dotted names in the same order and the same method name (`function a.b:c`)"),
    "C02.function_name_loop": dict(props=["C02"], text="format_function_name loop invariant: the names pushed so far are the input's, in order"),
    "C02.local_function_same": dict(props=["C02"], text="format_local_function: same name, same statement census in the body"),
    "C02.function_declaration_same": dict(props=["C02"], text="format_function_declaration: same dotted / method name, same statement census in the body"),
    "C02.anonymous_function_same": dict(props=["C02"], text="format_anonymous_function: same statement census in the body"),
    "C11.definition_space": dict(props=["C11"], text="format_local_function / format_function_declaration / format_anonymous_function: what is appended behind the name (behind `function` for an anonymous function) is one space exactly under space_after_function_names = Always / Definitions, nothing otherwise"),
    "C02.do_keeps_statements": dict(props=["C02"], text="format_do_block: the block of the result has the statement census of the input's block"),
    "C02.while_keeps_statements": dict(props=["C02"], text="format_while_block: same statement census in the body"),
    "C02.while_keeps_condition": dict(props=["C02"], text="format_while_block: the condition is the input's, modulo its top-level parentheses and redundant ones (single-line and hanging layout)"),
    "C02.repeat_keeps_statements": dict(props=["C02"], text="format_repeat_block: same statement census in the body"),
    "C02.repeat_keeps_condition": dict(props=["C02"], text="format_repeat_block: the `until` condition is the input's, modulo its top-level parentheses and redundant ones"),
    "C02.elseif_keeps_statements": dict(props=["C02"], text="format_else_if: same statement census in the branch"),
    "C02.elseif_keeps_condition": dict(props=["C02"], text="format_else_if: the condition is the input's, modulo its top-level parentheses and redundant ones"),
    "C02.generic_for_keeps_statements": dict(props=["C02"], text="format_generic_for: same statement census in the body"),
    "C02.generic_for_keeps_header": dict(props=["C02"], text="format_generic_for: the same names in the same order, the same expressions (modulo redundant parentheses) in the same order, on every layout path"),
    "C02.numeric_for_keeps_statements": dict(props=["C02"], text="format_numeric_for: same statement census in the body"),
    "C02.numeric_for_keeps_bounds": dict(props=["C02"], text="format_numeric_for: same index variable, same start / end / step expressions (modulo redundant parentheses), a step exactly where the input has one"),
}

UNIT = Unit("bodies", items() + [VERIF_MOD], LABELS, macros=[(GEN, "fmt_symbol")], header=HEADER + "use full_moon::ast::{ElseIf, FunctionName};\nuse full_moon::ast::punctuated::Pair;\n")
