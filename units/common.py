"""Shared pieces of the formatter units: crate header, configuration/context/shape types (real text),
Shape stubs, prelude files."""
import os
from gen import Unit, Fn, Item, Raw, RawFile, Hole, After, Before, Loop

EX = "src/formatters/expression.rs"
GEN = "src/formatters/general.rs"
FUN = "src/formatters/functions.rs"
TRV = "src/formatters/trivia.rs"
TU = "src/formatters/trivia_util.rs"
SH = "src/shape.rs"
CTX = "src/context.rs"

HEADER = """
use full_moon::ast::{Expression, UnOp, BinOp, FunctionBody, FunctionCall, TableConstructor, Var, VarExpression, Prefix, Suffix, Index, Call, FunctionArgs, MethodCall};
use full_moon::ast::{Stmt, LastStmt, Block, Return, Assignment, Do, FunctionDeclaration, GenericFor, If, LocalAssignment, LocalFunction, NumericFor, Repeat, While};
use full_moon::tokenizer::{Position, TokenKind};
use full_moon::ast::Ast;
use full_moon::ast::span::ContainedSpan;
use full_moon::ast::punctuated::Punctuated;
use full_moon::tokenizer::{TokenReference, Token, TokenType, Symbol, StringLiteralQuoteType};
#[cfg(feature = "luau")]
use full_moon::ast::luau::{IfExpression, InterpolatedString, TypeAssertion, CompoundAssignment, ExportedTypeDeclaration, TypeDeclaration, ExportedTypeFunction, TypeFunction};
#[cfg(any(feature = "lua52", feature = "luajit"))]
use full_moon::ast::lua52::{Goto, Label};
use std::fmt::Display;
"""

MODHDR = None

LEAF_POST = "ensures skel(r) == skel(*{arg}),"

def shape_stubs():
    names = ["reset", "indent", "with_indent", "increment_additional_indent", "increment_block_indent", "over_budget",
             "add_width", "take_first_line", "take_last_line", "using_simple_heuristics", "with_simple_heuristics",
             "with_infinite_width", "used_width", "test_over_budget"]
    nd = [Hole("<T: Display>", "<T>", why="std::fmt::Display cannot be given an external trait specification; bound dropped on the stub", kind="proxy")]
    out = [Fn(SH, n, impl_of="Shape", mode="stub", sig_edits=(nd if n.startswith("take_") else [Hole("<T: Node>", "<T>", why="sealed full_moon::node::Node bound dropped on the stub", kind="proxy")] if n == "test_over_budget" else [])) for n in names]
    out += [Fn(SH, n, impl_of="Indent", mode="stub") for n in
            ["block_indent", "additional_indent", "with_additional_indent", "add_indent_level", "indent_width"]]
    return out

SHAPE_ADD = Raw("""
impl vstd::std_specs::ops::AddSpecImpl<usize> for Shape {
    open spec fn obeys_add_spec() -> bool { false }
    open spec fn add_req(self, rhs: usize) -> bool { true }
    open spec fn add_spec(self, rhs: usize) -> Shape { self }
}
impl core::ops::Add<usize> for Shape {
    type Output = Shape;
    #[verifier::external_body]
    fn add(self, rhs: usize) -> Shape { unimplemented!() }
}
""", module="shape")

def vnode_impls(pairs):
    """VNode proxy impls: (rust type, key expression over `*self`, cfg attr)"""
    out = []
    for ty, key, cfg in pairs:
        lo = "binop_open(*self)" if ty == "BinOp" else "other_line_open(*self)"
        out.append(f"""{cfg}impl VNode for {ty} {{
    open spec fn key(&self) -> NodeKey {{ {key} }}
    open spec fn line_open(&self) -> bool {{ {lo} }}
    #[verifier::external_body] fn start_position(&self) -> (r: Option<Position>) {{ unimplemented!() }}
    #[verifier::external_body] fn end_position(&self) -> (r: Option<Position>) {{ unimplemented!() }}
    #[verifier::external_body] fn leading_trivia_vec(&self) -> (r: Vec<&Token>) {{ unimplemented!() }}
}}""")
    return "\n".join(out)

def common_items():
    """types and stubs shared by the formatter units"""
    return [
        RawFile("prelude/fm_types.rs"),
        RawFile("prelude/fm_specs.rs"),
        RawFile("prelude/skel.rs"),
        RawFile("prelude/lines.rs"),
        RawFile("prelude/fm_stmt_types.rs"),
        Raw(open(os.path.join(os.path.dirname(os.path.dirname(os.path.abspath(__file__))), "prelude/traits.rs")).read().replace("//@@VNODE_IMPLS@@", vnode_impls([
            ("Expression", "NodeKey::Other(other_key(*self))", ""), ("BinOp", "NodeKey::Other(other_key(*self))", ""),
            ("UnOp", "NodeKey::Other(other_key(*self))", ""), ("TokenReference", "NodeKey::Other(other_key(*self))", ""),
            ("Stmt", "NodeKey::Stmt(*self)", ""), ("LastStmt", "NodeKey::Last(*self)", ""), ("(Stmt, Option<TokenReference>)", "NodeKey::Pair(self.0, self.1)", ""),
        ]))),
        # lib.rs configuration types: real text
        Item("src/lib.rs", "enum", "LuaVersion"), Item("src/lib.rs", "enum", "IndentType"),
        Item("src/lib.rs", "enum", "LineEndings"), Item("src/lib.rs", "enum", "QuoteStyle"),
        Item("src/lib.rs", "enum", "CallParenType"), Item("src/lib.rs", "enum", "CollapseSimpleStatement"),
        Item("src/lib.rs", "struct", "Range"), Item("src/lib.rs", "struct", "SortRequiresConfig"),
        Item("src/lib.rs", "enum", "SpaceAfterFunctionNames"), Item("src/lib.rs", "struct", "Config"),
        Raw("pub type FormatRange = Range;   // `use crate::Range as FormatRange` in context.rs", module="context"),
        Item(CTX, "enum", "FormatNode"),
        Raw("""
// derived PartialEq on field-less configuration enums is structural equality (class B assumption)
impl vstd::std_specs::cmp::PartialEqSpecImpl for CallParenType {
    open spec fn obeys_eq_spec() -> bool { true }
    open spec fn eq_spec(&self, other: &Self) -> bool { *self == *other }
}
"""),
        Item(CTX, "struct", "Context"),
        Fn(CTX, "config", impl_of="Context", mode="stub", contract="ensures r == self.config,"),
        Fn(CTX, "create_indent_trivia", mode="stub", proved_in="ctx", contract="ensures is_indent_tok(r), token_type_of(r) is Whitespace,"),
        Fn(CTX, "create_newline_trivia", mode="stub", proved_in="ctx", contract="ensures is_newline_tok(r), token_type_of(r) is Whitespace,"),
        Item(SH, "struct", "Indent"), Item(SH, "struct", "Shape"),
        *shape_stubs(), SHAPE_ADD,
        Item(TRV, "enum", "FormatTriviaType", keep_derives=()),
        Item(TU, "enum", "CommentSearch", keep_derives=("Clone", "Copy")),
    ]

VN = Hole("impl Node", "impl VNode", why="proxy trait for the sealed full_moon::node::Node", kind="proxy")


VERIF_MOD = Raw("""
#[verifier::external_body] pub fn hole_vec_token() -> Vec<Token> { unimplemented!() }
#[verifier::external_body] pub fn extend_vec_token(v: &mut Vec<Token>, more: Vec<Token>) ensures final(v)@ == old(v)@ + more@ { unimplemented!() }
#[verifier::external_body] pub fn hole_usize() -> (r: usize) ensures r < 0x1000_0000 { unimplemented!() }   // a Display width: machine arithmetic assumption (below 2^28; Verus models usize as 32 or 64 bits)
#[verifier::external_body] pub fn hole_bool() -> bool { unimplemented!() }
""", module="verif")

def node_specs(ty, prefix, fields, cfg="", rest=False):
    """assumed specifications for the getters and builders of a full_moon node.
    fields: (name, rust type, kind) with kind in
       'ref'      tracked, getter returns &T            builder takes T
       'opt'      tracked, getter returns Option<&T>    builder takes Option<T>
       '-'        untracked, getter returns &T          builder takes T
       '-opt'     untracked, getter returns Option<&T>  builder takes Option<T>
       'w:<name>' builder only (untracked), named with_<name>"""
    tracked = [(f[0], f[1], f[2]) for f in fields if f[2] in ("ref", "opt")]
    out = []
    if rest:
        # everything the table does not track, as one opaque value: a builder leaves it alone
        out.append(f"{cfg}pub uninterp spec fn {prefix}_rest(n: &{ty}) -> int;")
    for n, t, k in tracked:
        st = t if k == "ref" else f"Option<{t}>"
        out.append(f"{cfg}pub uninterp spec fn {prefix}_{n}(n: &{ty}) -> {st};")
    def same(but=None):
        return ", ".join([f"{prefix}_{n}(&r) == {prefix}_{n}(&n)" for n, _, _ in tracked if n != but] + ([f"{prefix}_rest(&r) == {prefix}_rest(&n)"] if rest else [])) or "true"
    for f in fields:
        n, t, k = f[:3]
        wn = f[3] if len(f) > 3 else "with_" + n        # the builder's name, where it is not with_<getter>
        if k.startswith("w:"):
            out.append(f"{cfg}pub assume_specification [{ty}::with_{k[2:]}] (n: {ty}, v: {t}) -> (r: {ty}) ensures {same()};")
            continue
        if k == "ref":
            out.append(f"{cfg}pub assume_specification [{ty}::{n}] (n: &{ty}) -> (r: &{t}) ensures *r == {prefix}_{n}(n);")
            out.append(f"{cfg}pub assume_specification [{ty}::{wn}] (n: {ty}, v: {t}) -> (r: {ty}) ensures {prefix}_{n}(&r) == v, {same(n)};")
        elif k == "opt":
            out.append(f"{cfg}pub assume_specification [{ty}::{n}] (n: &{ty}) -> (r: Option<&{t}>) ensures (r is Some) == ({prefix}_{n}(n) is Some), r is Some ==> *r->Some_0 == {prefix}_{n}(n)->Some_0;")
            out.append(f"{cfg}pub assume_specification [{ty}::{wn}] (n: {ty}, v: Option<{t}>) -> (r: {ty}) ensures {prefix}_{n}(&r) == v, {same(n)};")
        elif k == "-":
            out.append(f"{cfg}pub assume_specification [{ty}::{n}] (n: &{ty}) -> (r: &{t});")
            out.append(f"{cfg}pub assume_specification [{ty}::{wn}] (n: {ty}, v: {t}) -> (r: {ty}) ensures {same()};")
        elif k == "-opt":
            out.append(f"{cfg}pub assume_specification [{ty}::{n}] (n: &{ty}) -> (r: Option<&{t}>);")
            out.append(f"{cfg}pub assume_specification [{ty}::{wn}] (n: {ty}, v: Option<{t}>) -> (r: {ty}) ensures {same()};")
    out.append(f"{cfg}pub assume_specification [<{ty} as Clone>::clone] (n: &{ty}) -> (r: {ty}) ensures r == *n;")
    return "\n".join(out) + "\n"

