"""Unit `args`: src/formatters/functions.rs format_function_args / format_call — C11 (call_parentheses honoured,
`obscure without parens` exception, Input keeps the form; one space before `(` iff the option says so), C02 (the call
sugar conversion keeps the single argument), C03 (parentheses that carry comments are not dropped)."""
from gen import Unit, Fn, Item, Raw, RawFile, Hole, After, Before, Loop, Between
from common import *
import lists as LISTS
import ctx as C

FUN = "src/formatters/functions.rs"

SPEC = r"""
// ---- spec vocabulary for call arguments ----
pub open spec fn pvals<T>(p: Punctuated<T>) -> Seq<T> { ppairs(p).map_values(|x: Pair<T>| pair_value(x)) }       // the values of a punctuated list, in order
pub open spec fn pexprs(p: Punctuated<Expression>) -> Seq<Expression> { pvals(p) }
pub uninterp spec fn tok_has_comments(t: TokenReference, leading: bool) -> bool;  // CommentSearch::All on one side of a token
pub open spec fn omit_string(c: Config) -> bool { c.no_call_parentheses || c.call_parentheses is None || c.call_parentheses is NoSingleString }
pub open spec fn omit_table(c: Config) -> bool { c.no_call_parentheses || c.call_parentheses is None || c.call_parentheses is NoSingleTable }
// the arguments of a call, modulo the sugar: f"s" == f("s"), f{t} == f({t})
pub open spec fn args_sem(a: FunctionArgs) -> Seq<Skel> {
    match a {
        FunctionArgs::Parentheses { arguments, .. } => pexprs(arguments).map_values(|e: Expression| erase(skel(e))),
        FunctionArgs::String(t) => seq![Skel::Leaf(LeafKind::Str, tok_of(t))],
        FunctionArgs::TableConstructor(tc) => seq![Skel::Leaf(LeafKind::Table, table_id(tc))],
        _ => Seq::empty(),
    }
}
pub open spec fn args_wf(a: FunctionArgs) -> bool {
    match a { FunctionArgs::Parentheses { arguments, .. } => forall|i: int| 0 <= i < pexprs(arguments).len() ==> wf(skel(#[trigger] pexprs(arguments)[i])), _ => true }
}
pub open spec fn paren_comments(a: FunctionArgs) -> bool {
    match a { FunctionArgs::Parentheses { parentheses, .. } => tok_has_comments(span_open(parentheses), true) || tok_has_comments(span_open(parentheses), false) || tok_has_comments(span_close(parentheses), true), _ => false }
}
// a line comment behind the single argument: without the closing parenthesis, which stands on the next line, it would comment out what follows the call
pub uninterp spec fn arg_trailing_line_comment(e: Expression) -> bool;
pub open spec fn inner_comments(a: FunctionArgs) -> bool {
    paren_comments(a) || match a { FunctionArgs::Parentheses { arguments, .. } => pexprs(arguments).len() == 1 && arg_trailing_line_comment(pexprs(arguments)[0]), _ => false }
}
// C11, as a table: which form the result has
pub open spec fn wants_sugar(c: Config, a: FunctionArgs, obscure: bool) -> bool {
    match a {
        FunctionArgs::String(_) => c.call_parentheses is Input || (omit_string(c) && !obscure),
        FunctionArgs::TableConstructor(_) => c.call_parentheses is Input || (omit_table(c) && !obscure),
        FunctionArgs::Parentheses { arguments, .. } => !(c.call_parentheses is Input) && !obscure && !inner_comments(a) && pexprs(arguments).len() == 1 && match pexprs(arguments)[0] {
            Expression::String(_) => omit_string(c),
            Expression::TableConstructor(_) => omit_table(c),
            _ => false },
        _ => false,
    }
}
// the leading trivia of the arguments: that of their first token
pub uninterp spec fn table_lead(t: TableConstructor) -> Seq<Token>;
pub open spec fn args_lead(a: FunctionArgs) -> Seq<Token> {
    match a {
        FunctionArgs::Parentheses { parentheses, .. } => tr_lead(span_open(parentheses)),
        FunctionArgs::String(t) => tr_lead(t),
        FunctionArgs::TableConstructor(tc) => table_lead(tc),
        _ => Seq::empty(),
    }
}
// C10 / C11: what separates a node from the token in front of it. `wanted` is the separator of the style (a space, or nothing);
// behind a line break (comments in front of the node end with one) it is the indent of the new line instead, and nothing at all
// where the line is already indented
pub open spec fn sep_ok(before: Seq<Token>, s: Token, wanted: TokenType) -> bool {
    if before.len() >= 1 && is_newline_tok(before.last()) { is_indent_tok(s) }
    else if before.len() >= 2 && token_type_of(before.last()) is Whitespace && is_newline_tok(before[before.len() - 2]) { token_type_of(s) == spaces_tt(0) }
    else { token_type_of(s) == wanted }
}
pub open spec fn separated(a: FunctionArgs, wanted: TokenType) -> bool {
    args_lead(a).len() >= 1 && sep_ok(args_lead(a).drop_last(), args_lead(a).last(), wanted)
}
"""

FM = r"""
pub assume_specification<T> [Punctuated::<T>::len] (p: &Punctuated<T>) -> (r: usize) ensures r == pvals(*p).len();
pub assume_specification<T> [Punctuated::<T>::is_empty] (p: &Punctuated<T>) -> (r: bool) ensures r == (pvals(*p).len() == 0);
#[verifier::external_body] pub fn first_arg(p: &Punctuated<Expression>) -> (r: &Expression) requires pexprs(*p).len() >= 1 ensures *r == pexprs(*p)[0] { unimplemented!() /* arguments.iter().next().unwrap() */ }
#[verifier::external_body] pub fn push_end(p: &mut Punctuated<Expression>, e: Expression) ensures pexprs(*final(p)) == pexprs(*old(p)).push(e) { unimplemented!() /* arguments.push(Pair::new(e, None)) */ }
impl GetTrailingTrivia for TokenReference { }
"""

ARG_LOOP = """for argument in arguments.pairs_mut() {
                    let expression = argument.value_mut();
                    let trivia = expression
                        .leading_trivia()
                        .iter()
                        .skip_while(|trivia| trivia_util::trivia_is_whitespace(trivia))
                        .map(|x| x.to_owned())
                        .collect();
                    *expression =
                        expression.update_leading_trivia(FormatTriviaType::Replace(trivia));
                }"""

def items():
    its = [x for x in common_items()]
    its += [
        Raw(C.SPEC_WS, module="context"),
        Raw(LISTS.SPEC, module="formatters::general"),
        Fn("src/formatters/general.rs", "format_punctuated", mode="stub", proved_in="lists", sig_edits=[Hole("T: std::fmt::Display,", "", kind="proxy", why="the Display bound is only used for a width")], contract="""
    requires forall|i: int, s: Shape| 0 <= i < ppairs(*old).len() ==> #[trigger] value_formatter.requires((ctx, &pair_value(ppairs(*old)[i]), s)),
    ensures ppairs(r).len() == ppairs(*old).len(),
            forall|i: int| 0 <= i < ppairs(*old).len() ==> by_item_formatter(value_formatter, ctx, pair_value(#[trigger] ppairs(*old)[i]), pair_value(ppairs(r)[i])),
"""),
        Fn("src/formatters/general.rs", "format_contained_punctuated_multiline", mode="stub", proved_in="lists", contract="""
    requires forall|i: int, s: Shape| 0 <= i < ppairs(*arguments).len() ==> #[trigger] argument_formatter.requires((ctx, &pair_value(ppairs(*arguments)[i]), s)),
    ensures ppairs(r.1).len() == ppairs(*arguments).len(),
            forall|i: int| 0 <= i < ppairs(*arguments).len() ==> by_item_formatter_modulo_trivia(argument_formatter, ctx, pair_value(#[trigger] ppairs(*arguments)[i]), pair_value(ppairs(r.1)[i])),
"""),
        Fn(EX, "hang_expression", mode="stub", proved_in="expr", contract="requires wf(skel(*expression)), ensures erase(skel(r)) == erase(skel(*expression)),"),
        Fn(TU, "can_hang_expression", mode="stub"),
        Fn(FUN, "format_argument_multiline", contract="""
    requires wf(skel(*argument)),
    ensures erase(skel(r)) == erase(skel(*argument)), //# C02.argument_multiline_same
""", edits=[
            Hole("argument.has_inline_comments()", "hole_bool()", why="trivia_util::HasInlineComments (iterator over the tokens): chooses the layout only"),
            Hole("strip_trivia(&infinite_width_argument).to_string().len()", "hole_usize()", why="Display width of the argument"),
        ]),
        Raw(SPEC),
        Raw(FM.replace("impl GetTrailingTrivia for TokenReference { }\n", "")),
        Fn(CTX, "should_omit_string_parens", impl_of="Context", mode="stub", proved_in="ctx", contract="ensures r == omit_string(self.config),"),
        Fn(CTX, "should_omit_table_parens", impl_of="Context", mode="stub", proved_in="ctx", contract="ensures r == omit_table(self.config),"),
        Fn(CTX, "create_function_call_trivia", mode="stub", proved_in="ctx",
           contract="ensures token_type_of(r) == spaces_tt(if ctx.config.space_after_function_names is Always || ctx.config.space_after_function_names is Calls { 1 } else { 0 }),"),
        Fn(GEN, "format_token_reference", mode="stub", contract="ensures tok_of(r) == tok_of(*token_reference),"),
        Fn(EX, "format_expression", mode="stub", proved_in="expr", contract="requires wf(skel(*expression)), ensures erase(skel(r)) == erase(skel(*expression)), skel(*expression) is Leaf ==> skel(r) == skel(*expression),"),
        Fn("src/formatters/table.rs", "format_table_constructor", mode="stub", contract="ensures table_id(r) == table_id(*table_constructor),"),
        Fn(TU, "take_trailing_comments", contract="ensures node.same_sem_t(&r.0),"),
        Fn(TU, "trivia_is_whitespace", mode="stub", contract="ensures r == (token_type_of(*trivia) is Whitespace),", note="token_kind() of a token is the kind of its token_type()"),
        Fn(TU, "trivia_is_newline", mode="stub", contract="ensures r == is_newline_tok(*trivia),", note="defines is_newline_tok: a whitespace token whose characters contain a line feed"),
        Fn(TU, "separator_or_indent", contract="""
    ensures sep_ok(leading_trivia@, r, token_type_of(separator)), //# C10.separator_or_indent
"""),
        Item(FUN, "enum", "FunctionCallNextNode"),
        Raw("""
impl UpdateTrailingTrivia for TableConstructor {
    open spec fn same_sem_t(&self, r: &Self) -> bool { table_id(*r) == table_id(*self) }
    open spec fn trail_ok(&self, t: FormatTriviaType, r: &Self) -> bool { true }
    open spec fn not_open(&self) -> bool { other_closed(*self) }
    #[verifier::external_body] fn update_trailing_trivia(&self, trailing_trivia: FormatTriviaType) -> (r: Self) { unimplemented!() }
}
impl UpdateLeadingTrivia for TableConstructor {
    open spec fn same_sem(&self, r: &Self) -> bool { table_id(*r) == table_id(*self) }
    open spec fn lead_ok(&self, t: FormatTriviaType, r: &Self) -> bool { t is Append ==> table_lead(*r) == table_lead(*self) + t->Append_0@ }
    open spec fn on_new_line(&self) -> bool { other_nl(*self) }
    open spec fn rest_same(&self, r: &Self) -> bool { true }
    #[verifier::external_body] fn update_leading_trivia(&self, leading_trivia: FormatTriviaType) -> (r: Self) { unimplemented!() }
}
impl UpdateLeadingTrivia for FunctionArgs {
    open spec fn same_sem(&self, r: &Self) -> bool { args_sem(*r) == args_sem(*self) && (*r is Parentheses) == (*self is Parentheses) && (*r is String) == (*self is String) }
    open spec fn lead_ok(&self, t: FormatTriviaType, r: &Self) -> bool { t is Append ==> args_lead(*r) == args_lead(*self) + t->Append_0@ }
    open spec fn on_new_line(&self) -> bool { other_nl(*self) }
    open spec fn rest_same(&self, r: &Self) -> bool { true }
    #[verifier::external_body] fn update_leading_trivia(&self, leading_trivia: FormatTriviaType) -> (r: Self) { unimplemented!() }
}
#[verifier::external_body] pub fn paren_close_trailing(parentheses: &ContainedSpan) -> (r: Vec<Token>) { unimplemented!() /* parentheses.tokens().1.trailing_trivia().cloned().collect() */ }
#[verifier::external_body] pub fn strip_leading_whitespace_of_arguments(arguments: Punctuated<Expression>) -> (r: Punctuated<Expression>)
    ensures pexprs(r).len() == pexprs(arguments).len(), forall|i: int| 0 <= i < pexprs(r).len() ==> skel(#[trigger] pexprs(r)[i]) == skel(pexprs(arguments)[i]) { unimplemented!() }
// the expression the wrapper stands for, verified against the generic contract of format_punctuated (proved in unit lists) and format_expression's
pub fn format_arguments_single_line(ctx: &Context, arguments: &Punctuated<Expression>, shape: Shape) -> (r: Punctuated<Expression>)
    requires forall|i: int| 0 <= i < pexprs(*arguments).len() ==> wf(skel(#[trigger] pexprs(*arguments)[i])),
    ensures pexprs(r).len() == pexprs(*arguments).len(), forall|i: int| 0 <= i < pexprs(r).len() ==> erase(skel(#[trigger] pexprs(r)[i])) == erase(skel(pexprs(*arguments)[i]))
{
    proof { assert forall|i: int, s: Shape| 0 <= i < ppairs(*arguments).len() implies #[trigger] call_requires(format_expression, (ctx, &pair_value(ppairs(*arguments)[i]), s)) by { assert(wf(skel(pexprs(*arguments)[i]))); } }
    let r = format_punctuated(ctx, arguments, shape, format_expression);
    proof { assert forall|i: int| 0 <= i < pexprs(r).len() implies erase(skel(#[trigger] pexprs(r)[i])) == erase(skel(pexprs(*arguments)[i])) by { assert(by_item_formatter(format_expression, ctx, pair_value(ppairs(*arguments)[i]), pair_value(ppairs(r)[i]))); } }
    r
}
pub fn format_arguments_multiline(ctx: &Context, parentheses: &ContainedSpan, arguments: &Punctuated<Expression>, shape: Shape) -> (r: (ContainedSpan, Punctuated<Expression>))
    requires forall|i: int| 0 <= i < pexprs(*arguments).len() ==> wf(skel(#[trigger] pexprs(*arguments)[i])),
    ensures pexprs(r.1).len() == pexprs(*arguments).len(), forall|i: int| 0 <= i < pexprs(r.1).len() ==> erase(skel(#[trigger] pexprs(r.1)[i])) == erase(skel(pexprs(*arguments)[i]))
{
    proof { assert forall|i: int, s: Shape| 0 <= i < ppairs(*arguments).len() implies #[trigger] call_requires(format_argument_multiline, (ctx, &pair_value(ppairs(*arguments)[i]), s)) by { assert(wf(skel(pexprs(*arguments)[i]))); } }
    let r = format_contained_punctuated_multiline(
                    ctx,
                    parentheses,
                    arguments,
                    format_argument_multiline,
                    shape,
                );
    proof { assert forall|i: int| 0 <= i < pexprs(r.1).len() implies erase(skel(#[trigger] pexprs(r.1)[i])) == erase(skel(pexprs(*arguments)[i])) by { assert(by_item_formatter_modulo_trivia(format_argument_multiline, ctx, pair_value(ppairs(*arguments)[i]), pair_value(ppairs(r.1)[i]))); } }
    r
}
pub assume_specification [<TableConstructor as Clone>::clone] (b: &TableConstructor) -> (r: TableConstructor) ensures r == *b;
""", module="formatters::functions"),
        Raw("""
impl GetLeadingTrivia for TokenReference { }
""") if False else Raw(""),
        Raw("""
#[verifier::external_body] pub fn lead_of_args(a: &FunctionArgs) -> (r: Vec<Token>) ensures r@ == args_lead(*a) { unimplemented!() /* GetLeadingTrivia::leading_trivia(a) */ }
#[verifier::external_body] pub fn lead_of_tok(t: &TokenReference) -> (r: Vec<Token>) ensures r@ == tr_lead(*t) { unimplemented!() /* GetLeadingTrivia::leading_trivia(t) */ }
#[verifier::external_body] pub fn lead_of_table(t: &TableConstructor) -> (r: Vec<Token>) ensures r@ == table_lead(*t) { unimplemented!() /* GetLeadingTrivia::leading_trivia(t.braces().tokens().0) */ }
#[verifier::external_body] pub fn arg_line_comment(e: &Expression) -> (r: bool) ensures r == arg_trailing_line_comment(*e) { unimplemented!() }
#[verifier::external_body] pub fn has_comments(t: &TokenReference, leading: bool) -> (r: bool) ensures r == tok_has_comments(*t, leading) { unimplemented!() }
""", module="verif_args"),
        Fn(FUN, "function_args_contains_comments", mode="stub"),
        Fn(FUN, "function_args_multiline_heuristic", mode="stub"),
        Fn(FUN, "is_table_constructor", mode="verify"),
        Fn(FUN, "format_function_args", contract="""
    requires args_wf(*function_args),
    ensures
        (r is String || r is TableConstructor) == wants_sugar(ctx.config, *function_args, call_next_node is ObscureWithoutParens), //# C11.call_parentheses_table
        !(r is String || r is TableConstructor) ==> r is Parentheses, //# C11.parentheses_otherwise
        ctx.config.call_parentheses is Input ==> (r is Parentheses) == (*function_args is Parentheses) && (r is String) == (*function_args is String), //# C11.input_keeps_form
        args_sem(r) == args_sem(*function_args), //# C02.call_sugar_keeps_argument
        (*function_args is Parentheses) && !(r is Parentheses) ==> !paren_comments(*function_args), //# C03.args_conversion_keeps_comments
        (r is String || r is TableConstructor) ==> separated(r, spaces_tt(1)), //# C10.sugar_argument_separated
    decreases (if *function_args is Parentheses { 1int } else { 0int }),
""", edits=[
            Hole("arguments.iter().next().unwrap().has_trailing_comments(CommentSearch::Single)", "verif_args::arg_line_comment(first_arg(arguments))", kind="wrapper", why="GetTrailingTrivia default method (iterator chain) on the first argument", optional=True),
            Hole("arguments.iter().next().unwrap()", "first_arg(arguments)", kind="wrapper", why="Punctuated::iter().next().unwrap()", count=2),
            Hole("parentheses.tokens().0.has_leading_comments(CommentSearch::All)", "verif_args::has_comments(parentheses.tokens().0, true)", kind="wrapper", why="GetLeadingTrivia default method (iterator chain)"),
            Hole("parentheses.tokens().0.has_trailing_comments(CommentSearch::All)", "verif_args::has_comments(parentheses.tokens().0, false)", kind="wrapper", why="GetTrailingTrivia default method (iterator chain)"),
            Hole("parentheses.tokens().1.has_leading_comments(CommentSearch::All)", "verif_args::has_comments(parentheses.tokens().1, true)", kind="wrapper", why="GetLeadingTrivia default method (iterator chain)"),
            Hole("&GetLeadingTrivia::leading_trivia(&token_reference)", "verif_args::lead_of_tok(&token_reference).as_slice()", kind="wrapper", why="GetLeadingTrivia::leading_trivia of a token (iterator chain)", optional=True),
            Hole("&GetLeadingTrivia::leading_trivia(table_constructor.braces().tokens().0)", "verif_args::lead_of_table(&table_constructor).as_slice()", kind="wrapper", why="GetLeadingTrivia::leading_trivia of the table's opening brace (iterator chain)", optional=True),
            Hole("parentheses.tokens().1.trailing_trivia().cloned().collect()", "paren_close_trailing(parentheses)", why="iterator chain: trailing trivia of `)`"),
            Hole("""format_contained_punctuated_multiline(
                    ctx,
                    parentheses,
                    arguments,
                    format_argument_multiline,
                    shape,
                )""", "format_arguments_multiline(ctx, parentheses, arguments, shape)", kind="wrapper", why="generic fn taking a formatter function pointer"),
            Hole("format_punctuated(ctx, arguments, shape + shape_increment, format_expression)", "format_arguments_single_line(ctx, arguments, shape + shape_increment)", kind="wrapper", why="generic fn taking a formatter function pointer"),
            Hole(ARG_LOOP, "arguments = strip_leading_whitespace_of_arguments(arguments);", kind="mutating-loop-abstraction", why="for over pairs_mut() that only rewrites each argument's leading whitespace (DESIGN §3 rule 4c)"),
            Hole("arguments.push(Pair::new(new_expression, None));", "push_end(&mut arguments, new_expression);", kind="wrapper", why="Punctuated::push(Pair::new(.., None))", count=2),
        ]),
        Raw(node_specs("MethodCall", "n_mc", [("colon_token", "TokenReference", "-"), ("name", "TokenReference", "ref"), ("args", "FunctionArgs", "ref")]) + """
pub assume_specification [MethodCall::new] (name: TokenReference, args: FunctionArgs) -> (r: MethodCall) ensures n_mc_name(&r) == name, n_mc_args(&r) == args;
pub open spec fn mc_wf(m: &MethodCall) -> bool { args_wf(n_mc_args(m)) }
// a method call: the same method name, the arguments in the form format_function_args decides, and — unless a line comment behind the
// name puts them on a new line of their own — separated from the name as space_after_function_names says
pub open spec fn mc_post(c: Config, m: &MethodCall, obscure: bool, r: &MethodCall, name_open: bool) -> bool {
    tok_of(n_mc_name(r)) == tok_of(n_mc_name(m))
    && args_sem(n_mc_args(r)) == args_sem(n_mc_args(m)) && (n_mc_args(r) is Parentheses) == !wants_sugar(c, n_mc_args(m), obscure)
    && (!name_open ==> separated(n_mc_args(r), spaces_tt(if c.space_after_function_names is Always || c.space_after_function_names is Calls { 1 } else { 0 })))
    && (name_open ==> puts_on_new_line(args_lead(n_mc_args(r))))
}
pub uninterp spec fn name_has_line_comment(t: TokenReference) -> bool;    // has_trailing_comments(CommentSearch::Single) on the method name
#[verifier::external_body] pub fn name_trailing_line_comment(t: &TokenReference) -> (r: bool) ensures r == name_has_line_comment(*t) { unimplemented!() }
""", module="formatters::functions"),
        Fn(EX, "process_dot_name", mode="stub", contract="ensures tok_of(r.1) == tok_of(*name),", note="moves comments between `:` and the name in front of the `:`; the name token itself is format_token_reference's"),
        Fn(FUN, "format_method_call", contract="""
    requires mc_wf(method_call),
    ensures mc_post(ctx.config, method_call, call_next_node is ObscureWithoutParens, &r, name_has_line_comment(n_mc_name(method_call))), //# C11.method_call_form
""", edits=[
            Hole("(colon_token.to_string().len() + name.to_string().len())", "hole_usize()", why="Display widths of `:` and the name"),
            Hole("""method_call
        .name()
        .has_trailing_comments(CommentSearch::Single)""", "name_trailing_line_comment(method_call.name())", kind="wrapper", why="GetTrailingTrivia default method (iterator chain)"),
            Hole("&formatted_function_args.leading_trivia()", "verif_args::lead_of_args(&formatted_function_args).as_slice()", kind="wrapper", why="GetLeadingTrivia::leading_trivia of the arguments' first token (iterator chain)", optional=True),
        ]),
        Fn(FUN, "format_call", contract="""
    requires call_wf(*call),
    ensures call_post(ctx.config, *call, call_next_node is ObscureWithoutParens, r), //# C11.call_form
""", edits=[
            Hole("&formatted_function_args.leading_trivia()", "verif_args::lead_of_args(&formatted_function_args).as_slice()", kind="wrapper", why="GetLeadingTrivia::leading_trivia of the arguments' first token (iterator chain)", optional=True),
        ]),
        Raw("""
pub open spec fn call_wf(c: Call) -> bool { match c { Call::AnonymousCall(a) => args_wf(a), Call::MethodCall(m) => mc_wf(&m), _ => true } }
pub open spec fn call_post(c: Config, call: Call, obscure: bool, r: Call) -> bool {
    match call {
        Call::AnonymousCall(a) => match r {
            Call::AnonymousCall(ra) => args_sem(ra) == args_sem(a) && (ra is Parentheses) == !wants_sugar(c, a, obscure)
                // one space between the function name and its arguments exactly in the cases space_after_function_names names
                // (behind comments that end the line, the arguments are indented on their own line instead)
                && separated(ra, spaces_tt(if c.space_after_function_names is Always || c.space_after_function_names is Calls { 1 } else { 0 })),
            _ => false },
        Call::MethodCall(m) => match r { Call::MethodCall(rm) => mc_post(c, &m, obscure, &rm, name_has_line_comment(n_mc_name(&m))), _ => false },
        _ => true,
    }
}
""", module="formatters::functions"),
        # ---- call chains: format_suffix, format_function_call ----
        Raw("""
pub uninterp spec fn index_id(i: Index) -> int;
// what C11 / C02 say about one suffix of a call chain, as a value: the form and the arguments of a call, the identity of an index
pub enum SuffixShape { Call { sem: Seq<Skel>, parens: bool }, Method { name: int, sem: Seq<Skel>, parens: bool }, Index(int), Other }
pub open spec fn suffix_shape(s: Suffix) -> SuffixShape {
    match s {
        Suffix::Call(Call::AnonymousCall(a)) => SuffixShape::Call { sem: args_sem(a), parens: a is Parentheses },
        Suffix::Call(Call::MethodCall(m)) => SuffixShape::Method { name: tok_of(n_mc_name(&m)), sem: args_sem(n_mc_args(&m)), parens: n_mc_args(&m) is Parentheses },
        Suffix::Index(i) => SuffixShape::Index(index_id(i)),
        _ => SuffixShape::Other,
    }
}
// the shape the formatted suffix has to have: `obscure` — an index or a method call follows — keeps the parentheses
pub open spec fn wanted_shape(c: Config, s: Suffix, obscure: bool) -> SuffixShape {
    match s {
        Suffix::Call(Call::AnonymousCall(a)) => SuffixShape::Call { sem: args_sem(a), parens: !wants_sugar(c, a, obscure) },
        Suffix::Call(Call::MethodCall(m)) => SuffixShape::Method { name: tok_of(n_mc_name(&m)), sem: args_sem(n_mc_args(&m)), parens: !wants_sugar(c, n_mc_args(&m), obscure) },
        Suffix::Index(i) => SuffixShape::Index(index_id(i)),
        _ => SuffixShape::Other,
    }
}
pub open spec fn suffix_wf(s: Suffix) -> bool { match s { Suffix::Call(c) => call_wf(c), _ => true } }
pub open spec fn obscured_by(next: Option<Suffix>) -> bool { match next { Some(Suffix::Index(_)) => true, Some(Suffix::Call(Call::MethodCall(_))) => true, _ => false } }
pub uninterp spec fn fc_suffixes(f: FunctionCall) -> Seq<Suffix>;
pub open spec fn next_of(s: Seq<Suffix>, i: int) -> Option<Suffix> { if i + 1 < s.len() { Some(s[i + 1]) } else { None } }
pub assume_specification [FunctionCall::suffixes] (f: &FunctionCall) -> (r: impl Iterator<Item = &Suffix>)
    ensures it_rest(&r).len() == fc_suffixes(*f).len(), forall|i: int| 0 <= i < it_rest(&r).len() ==> *(#[trigger] it_rest(&r)[i]) == fc_suffixes(*f)[i];
pub assume_specification [FunctionCall::prefix] (f: &FunctionCall) -> (r: &Prefix);
pub assume_specification [FunctionCall::new] (p: Prefix) -> (r: FunctionCall) ensures fc_suffixes(r).len() == 0;
pub assume_specification [FunctionCall::with_suffixes] (f: FunctionCall, v: Vec<Suffix>) -> (r: FunctionCall) ensures fc_suffixes(r) == v@;
impl UpdateLeadingTrivia for Suffix {
    open spec fn same_sem(&self, r: &Self) -> bool { suffix_shape(*r) == suffix_shape(*self) }
    open spec fn lead_ok(&self, t: FormatTriviaType, r: &Self) -> bool { true }
    open spec fn on_new_line(&self) -> bool { other_nl(*self) }
    open spec fn rest_same(&self, r: &Self) -> bool { true }
    #[verifier::external_body] fn update_leading_trivia(&self, leading_trivia: FormatTriviaType) -> (r: Self) { unimplemented!() }
}
impl GetLeadingTrivia for Suffix {
    open spec fn leads_with_comment(&self) -> bool { other_lc(*self) }
    #[verifier::external_body] fn leading_trivia(&self) -> Vec<Token> { unimplemented!() }
    #[verifier::external_body] fn has_leading_comments(&self, search: CommentSearch) -> (r: bool) { unimplemented!() }
    #[verifier::external_body] fn leading_comments(&self) -> Vec<Token> { unimplemented!() }
}
impl GetTrailingTrivia for Suffix {
    open spec fn ends_open(&self) -> bool { !other_closed(*self) }
    #[verifier::external_body] fn trailing_trivia(&self) -> Vec<Token> { unimplemented!() }
    #[verifier::external_body] fn has_trailing_comments(&self, search: CommentSearch) -> (r: bool) { unimplemented!() }
    #[verifier::external_body] fn trailing_comments(&self) -> Vec<Token> { unimplemented!() }
}
impl GetTrailingTrivia for Prefix {
    open spec fn ends_open(&self) -> bool { !other_closed(*self) }
    #[verifier::external_body] fn trailing_trivia(&self) -> Vec<Token> { unimplemented!() }
    #[verifier::external_body] fn has_trailing_comments(&self, search: CommentSearch) -> (r: bool) { unimplemented!() }
    #[verifier::external_body] fn trailing_comments(&self) -> Vec<Token> { unimplemented!() }
}
#[verifier::external_body] pub fn peekable<I: Iterator>(it: I) -> (r: std::iter::Peekable<I>) ensures pk_rest(&r) == it_rest(&it) { it.peekable() }
""", module="formatters::functions"),
        Fn(EX, "format_index", mode="stub", proved_in="expr", contract="ensures index_id(r) == index_id(*index),"),
        Fn(EX, "format_prefix", mode="stub", proved_in="expr"),
        Fn(TU, "prepend_newline_indent", mode="stub", contract="ensures node.same_sem(&r),"),
        Fn(EX, "format_suffix", contract="""
    requires suffix_wf(*suffix),
    ensures suffix_shape(r) == wanted_shape(ctx.config, *suffix, call_next_node is ObscureWithoutParens), //# C11.suffix_form
"""),
        Fn(FUN, "format_function_call", contract="""
    requires forall|i: int| 0 <= i < fc_suffixes(*function_call).len() ==> suffix_wf(#[trigger] fc_suffixes(*function_call)[i]),
             fc_suffixes(*function_call).len() < 0x7fff_ffff,   // the suffix counter is an i32 (stated bound: fewer than 2^31 suffixes in one chain)
    ensures
        fc_suffixes(r).len() == fc_suffixes(*function_call).len(), //# C02.call_chain_same
        forall|i: int| 0 <= i < fc_suffixes(r).len() ==> suffix_shape(#[trigger] fc_suffixes(r)[i])
            == wanted_shape(ctx.config, fc_suffixes(*function_call)[i], obscured_by(next_of(fc_suffixes(*function_call), i))), //# C11.call_chain_forms
""", edits=[
            Hole("let num_suffixes = function_call.suffixes().count();", "let num_suffixes = hole_usize();", why="Iterator::count: a capacity hint only"),
            Between("let must_hang = function_call", "            must_hang\n        };", "let must_hang = hole_bool();", why="loop over the suffixes looking for comments: chooses the layout only"),
            Between("let should_hang = {", "            false\n        }\n    };", "let should_hang = hole_bool(); keep_first_call_inlined = hole_bool();", why="trial formatting of the chain against the column width (sets keep_first_call_inlined as well): chooses the layout only"),
            Hole("shape.take_last_line(&strip_leading_trivia(&formatted_prefix))", "shape.take_last_line(&formatted_prefix)", why="strip_leading_trivia only affects the measured width"),
            Hole("let mut suffixes = function_call.suffixes().peekable();", "let mut suffixes = peekable(function_call.suffixes());\n    let ghost mut k: int = 0;", kind="wrapper", why="Iterator::peekable through a wrapper carrying the ghost sequence"),
            Hole("""let mut previous_ends_with_comment = function_call
        .prefix()
        .has_trailing_comments(CommentSearch::Single);""", "let mut previous_ends_with_comment = hole_bool();", why="a comment behind the prefix: chooses the layout only"),
            Loop("while let Some(suffix) = suffixes.next()", """
        invariant
            0 <= k <= fc_suffixes(*function_call).len(),
            pk_rest(&suffixes).len() == fc_suffixes(*function_call).len() - k,
            forall|j: int| 0 <= j < pk_rest(&suffixes).len() ==> *(#[trigger] pk_rest(&suffixes)[j]) == fc_suffixes(*function_call)[k + j],
            forall|i: int| 0 <= i < fc_suffixes(*function_call).len() ==> suffix_wf(#[trigger] fc_suffixes(*function_call)[i]),
            formatted_suffixes@.len() == k,
            idx == k, fc_suffixes(*function_call).len() < 0x7fff_ffff,
            forall|i: int| 0 <= i < k ==> suffix_shape(#[trigger] formatted_suffixes@[i])
                == wanted_shape(ctx.config, fc_suffixes(*function_call)[i], obscured_by(next_of(fc_suffixes(*function_call), i))), //# C11.call_chain_loop
        ensures k == fc_suffixes(*function_call).len(),
        decreases pk_rest(&suffixes).len(),
""", step="proof { k = k + 1; }"),
        ]),
    ]
    return its

LABELS = {
    "C11.call_parentheses_table": dict(props=["C11"], text="format_function_args: the result is written without parentheses exactly when the call_parentheses table says so (Always: never; None/NoSingleString/NoSingleTable: the matching single argument, unless an index/method call follows, the parentheses carry comments or a line comment stands behind the argument; Input: as written)"),
    "C11.parentheses_otherwise": dict(props=["C11"], text="format_function_args: otherwise the result has parentheses"),
    "C11.input_keeps_form": dict(props=["C11"], text="call_parentheses = Input: each call keeps the form it had"),
    "C02.call_sugar_keeps_argument": dict(props=["C02", "C11"], text="format_function_args: the argument list is the same modulo the call sugar f's' / f{t} (same single argument; same number of arguments, each with the same operator tree)"),
    "C03.args_conversion_keeps_comments": dict(props=["C03"], text="parentheses are only dropped when neither parenthesis carries a comment that would disappear with it"),
    "C10.separator_or_indent": dict(props=["C10", "C11"], text="separator_or_indent: behind a line break the separator is the indent of the new line (never a space in front of the indentation), nothing where the line is already indented, and the wanted separator otherwise"),
    "C10.sugar_argument_separated": dict(props=["C10", "C11"], text="format_function_args: a string / table argument written without parentheses is separated from the function name by one space, or indented on its own line behind comments"),
    "C11.method_call_form": dict(props=["C11", "C02", "C10"], text="format_method_call: the same method name and arguments, the arguments in the form format_function_args decides, separated from the name as space_after_function_names says (indented on their own line behind comments; on a new line behind a line comment on the name)"),
    "C02.argument_multiline_same": dict(props=["C02"], text="format_argument_multiline: whichever of the three layouts it picks (infinite width, hanging, plain), the argument keeps its expression tree"),
    "C11.suffix_form": dict(props=["C11", "C02"], text="format_suffix: a call suffix gets the form format_call / format_method_call decide for the `obscure` flag it is given, same arguments; an index stays the same index"),
    "C02.call_chain_same": dict(props=["C02"], text="format_function_call: as many suffixes as the input"),
    "C11.call_chain_forms": dict(props=["C11", "C02"], text="format_function_call: every suffix of the chain has the form the call_parentheses table gives for it, with `an index or a method call follows` computed from the suffix behind it (the exception that keeps f(\"x\").y from becoming f \"x\".y), same arguments, same order"),
    "C11.call_chain_loop": dict(props=["C11", "C02"], text="format_function_call loop invariant: the suffixes pushed so far correspond one to one to the input's, each in the wanted form"),
    "C11.call_form": dict(props=["C11", "C02"], text="format_call: an anonymous call's arguments get the form format_function_args decides, same arguments"),
}

UNIT = Unit("args", items() + [VERIF_MOD], LABELS, header=HEADER + "use full_moon::ast::punctuated::Pair;\n")
