"""Unit `range`: src/formatters/stmt.rs, module stmt_block — the second, partial formatter that C09 names ("out-of-range statements only
have nested blocks visited"): format_stmt_block and format_expression_block, real text.

What "only nested blocks" means is written per node: the result is the same kind of node, built from the input node by replacing
its block (its body's block, its expression list, ...) and nothing else. For every full_moon node the fields this module replaces are
tracked; everything else the node holds (tokens, names, conditions, ...) is one opaque value `<node>_rest` that the builders leave
alone (class A: `with_x` replaces exactly x). A change that re-formats a condition, a token or a name of an out-of-range statement,
or forgets to hand a part through, breaks `<node>_rest` equality or the kind of the result.

The closures that map over lists (expression lists, table fields, call suffixes, elseif branches) sit behind wrappers whose contract
is the recursive one (assumed: the closure hides the recursion from the verifier)."""
from gen import Unit, Fn, Item, Raw, RawFile, Hole, After, Before, Loop, Between
from common import *

STM = "src/formatters/stmt.rs"
TR, EXP, BLKT, FB = "TokenReference", "Expression", "Block", "FunctionBody"
L = '#[cfg(feature = "luau")] '

NODES = (
    node_specs("Do", "r_do", [("block", BLKT, "ref")], rest=True)
    + node_specs("While", "r_while", [("block", BLKT, "ref")], rest=True)
    + node_specs("Repeat", "r_repeat", [("block", BLKT, "ref")], rest=True)
    + node_specs("NumericFor", "r_nfor", [("block", BLKT, "ref")], rest=True)
    + node_specs("GenericFor", "r_gfor", [("block", BLKT, "ref")], rest=True)
    + node_specs("ElseIf", "r_elseif", [("block", BLKT, "ref")], rest=True)
    + node_specs("If", "r_if", [("block", BLKT, "ref"), ("else_if", "Vec<ElseIf>", "opt"), ("else_block", BLKT, "opt", "with_else")], rest=True)
    + node_specs(FB, "r_fb", [("block", BLKT, "ref")], rest=True)
    + node_specs("FunctionDeclaration", "r_fdecl", [("body", FB, "ref")], rest=True)
    + node_specs("LocalFunction", "r_lfun", [("body", FB, "ref")], rest=True)
    + node_specs("Assignment", "r_asg", [("expressions", "Punctuated<Expression>", "ref")], rest=True)
    + node_specs("LocalAssignment", "r_lasg", [("expressions", "Punctuated<Expression>", "ref")], rest=True)
    + node_specs("full_moon::ast::luau::CompoundAssignment", "r_casg", [("rhs", EXP, "ref")], cfg=L, rest=True)
    + node_specs("full_moon::ast::luau::TypeFunction", "r_tf", [("function_body", FB, "ref")], cfg=L, rest=True)
    + node_specs("full_moon::ast::luau::ExportedTypeFunction", "r_etf", [("type_function", "full_moon::ast::luau::TypeFunction", "ref")], cfg=L, rest=True)
)

SPEC = r"""
#[verifier::external_type_specification] #[verifier::external_body] pub struct ExElseIf(ElseIf);
// ---- "only nested blocks may differ", per node ----
// (a block may differ in any way: what happens inside it is format_block's contract, under the same range)
pub open spec fn fb_blocks_only(a: &FunctionBody, r: &FunctionBody) -> bool { r_fb_rest(r) == r_fb_rest(a) }
pub uninterp spec fn exprs_blocks_only(a: Punctuated<Expression>, r: Punctuated<Expression>) -> bool;   // same separators, each expression: expr_blocks_only
pub uninterp spec fn call_blocks_only(a: FunctionCall, r: FunctionCall) -> bool;                       // same prefix / suffix kinds and tokens, arguments and brackets: expr_blocks_only
pub uninterp spec fn table_blocks_only(a: TableConstructor, r: TableConstructor) -> bool;              // same braces, separators, keys; values: expr_blocks_only
pub uninterp spec fn elseifs_blocks_only(a: Option<Vec<ElseIf>>, r: Option<Vec<ElseIf>>) -> bool;      // the same branches, each: r_elseif_rest equal

pub open spec fn expr_blocks_only(e: Expression, r: Expression) -> bool
    decreases e
{
    match e {
        Expression::BinaryOperator { lhs, binop, rhs } => match r {
            Expression::BinaryOperator { lhs: rl, binop: rb, rhs: rr } => rb == binop && expr_blocks_only(*lhs, *rl) && expr_blocks_only(*rhs, *rr), _ => false },
        Expression::Parentheses { contained, expression } => match r {
            Expression::Parentheses { contained: rc, expression: re } => rc == contained && expr_blocks_only(*expression, *re), _ => false },
        Expression::UnaryOperator { unop, expression } => match r {
            Expression::UnaryOperator { unop: ru, expression: re } => ru == unop && expr_blocks_only(*expression, *re), _ => false },
        Expression::Function(f) => match r { Expression::Function(rf) => (*rf).0 == (*f).0 && fb_blocks_only(&(*f).1, &(*rf).1), _ => false },
        Expression::FunctionCall(c) => match r { Expression::FunctionCall(rc) => call_blocks_only(c, rc), _ => false },
        Expression::TableConstructor(t) => match r { Expression::TableConstructor(rt) => table_blocks_only(t, rt), _ => false },
        #[cfg(feature = "luau")]
        Expression::TypeAssertion { expression, type_assertion } => match r {
            Expression::TypeAssertion { expression: re, type_assertion: rt } => rt == type_assertion && expr_blocks_only(*expression, *re), _ => false },
        _ => r == e,
    }
}

pub open spec fn stmt_blocks_only(s: Stmt, r: Stmt) -> bool {
    match s {
        Stmt::Assignment(a) => match r { Stmt::Assignment(x) => r_asg_rest(&x) == r_asg_rest(&a) && exprs_blocks_only(r_asg_expressions(&a), r_asg_expressions(&x)), _ => false },
        Stmt::LocalAssignment(a) => match r { Stmt::LocalAssignment(x) => r_lasg_rest(&x) == r_lasg_rest(&a) && exprs_blocks_only(r_lasg_expressions(&a), r_lasg_expressions(&x)), _ => false },
        Stmt::Do(a) => match r { Stmt::Do(x) => r_do_rest(&x) == r_do_rest(&a), _ => false },
        Stmt::While(a) => match r { Stmt::While(x) => r_while_rest(&x) == r_while_rest(&a), _ => false },
        Stmt::Repeat(a) => match r { Stmt::Repeat(x) => r_repeat_rest(&x) == r_repeat_rest(&a), _ => false },
        Stmt::NumericFor(a) => match r { Stmt::NumericFor(x) => r_nfor_rest(&x) == r_nfor_rest(&a), _ => false },
        Stmt::GenericFor(a) => match r { Stmt::GenericFor(x) => r_gfor_rest(&x) == r_gfor_rest(&a), _ => false },
        Stmt::If(a) => match r { Stmt::If(x) => r_if_rest(&x) == r_if_rest(&a) && elseifs_blocks_only(r_if_else_if(&a), r_if_else_if(&x))
                                                && (r_if_else_block(&x) is Some) == (r_if_else_block(&a) is Some), _ => false },
        Stmt::FunctionCall(a) => match r { Stmt::FunctionCall(x) => call_blocks_only(a, x), _ => false },
        Stmt::FunctionDeclaration(a) => match r { Stmt::FunctionDeclaration(x) => r_fdecl_rest(&x) == r_fdecl_rest(&a) && fb_blocks_only(&r_fdecl_body(&a), &r_fdecl_body(&x)), _ => false },
        Stmt::LocalFunction(a) => match r { Stmt::LocalFunction(x) => r_lfun_rest(&x) == r_lfun_rest(&a) && fb_blocks_only(&r_lfun_body(&a), &r_lfun_body(&x)), _ => false },
        #[cfg(feature = "luau")]
        Stmt::CompoundAssignment(a) => match r { Stmt::CompoundAssignment(x) => r_casg_rest(&x) == r_casg_rest(&a) && expr_blocks_only(r_casg_rhs(&a), r_casg_rhs(&x)), _ => false },
        #[cfg(feature = "luau")]
        Stmt::ExportedTypeFunction(a) => match r { Stmt::ExportedTypeFunction(x) => r_etf_rest(&x) == r_etf_rest(&a) && tf_blocks_only(&r_etf_type_function(&a), &r_etf_type_function(&x)), _ => false },
        #[cfg(feature = "luau")]
        Stmt::TypeFunction(a) => match r { Stmt::TypeFunction(x) => tf_blocks_only(&a, &x), _ => false },
        // type declarations, goto, label: no block inside
        _ => r == s,
    }
}
#[cfg(feature = "luau")]
pub open spec fn tf_blocks_only(a: &full_moon::ast::luau::TypeFunction, r: &full_moon::ast::luau::TypeFunction) -> bool {
    r_tf_rest(r) == r_tf_rest(a) && fb_blocks_only(&r_tf_function_body(a), &r_tf_function_body(r))
}
"""

WRAP = r"""
// the closures of this module that map over lists (each applies format_expression_block / format_block to every item and keeps the rest)
#[verifier::external_body] pub fn map_expressions_block(ctx: &Context, expressions: &Punctuated<Expression>, shape: Shape) -> (r: Punctuated<Expression>)
    ensures exprs_blocks_only(*expressions, r) { unimplemented!() }
#[verifier::external_body] pub fn map_else_ifs_block(ctx: &Context, if_block: &If, shape: Shape) -> (r: Option<Vec<ElseIf>>)
    ensures elseifs_blocks_only(r_if_else_if(if_block), r) { unimplemented!() }
#[verifier::external_body] pub fn map_else_block(ctx: &Context, if_block: &If, shape: Shape) -> (r: Option<Block>)
    ensures (r is Some) == (r_if_else_block(if_block) is Some) { unimplemented!() }
pub assume_specification [<FunctionCall as Clone>::clone] (b: &FunctionCall) -> (r: FunctionCall) ensures r == *b;
pub assume_specification [<UnOp as Clone>::clone] (b: &UnOp) -> (r: UnOp) ensures r == *b;
"""

EXPRS_CLOSURE = """{v}
                    .expressions()
                    .pairs()
                    .map(|pair| {{
                        pair.to_owned().map(|expression| {{
                            format_expression_block(ctx, &expression, block_shape)
                        }})
                    }})
                    .collect()"""

def items():
    its = common_items()
    its += [
        Raw(NODES), Raw(SPEC), Raw(WRAP, module="formatters::stmt"),
        Fn("src/formatters/block.rs", "format_block", mode="stub", proved_in="block"),
        Fn(STM, "format_function_call_block", mode="stub", contract="ensures call_blocks_only(*function_call, r),",
           note="closure over the suffixes: each argument list / bracket expression through format_expression_block, the rest cloned"),
        Fn(STM, "format_table_constructor_block", mode="stub", contract="ensures table_blocks_only(*table_constructor, r),",
           note="closure over the fields: each key / value through format_expression_block, the rest cloned"),
        Fn(STM, "format_type_function_block", contract="ensures tf_blocks_only(type_function, &r), //# C09.type_function_blocks_only", attrs='#[cfg(feature = "luau")]\n'),
        Fn(STM, "format_expression_block", contract="""
    ensures expr_blocks_only(*expression, r), //# C09.expression_blocks_only
    decreases expression,
"""),
        Fn(STM, "format_stmt_block", contract="""
    ensures stmt_blocks_only(*stmt, r), //# C09.stmt_blocks_only
""", edits=[
            Hole(EXPRS_CLOSURE.format(v="assignment"), "map_expressions_block(ctx, assignment.expressions(), block_shape)", count=2, kind="wrapper", why="closure over the expression list: format_expression_block on every item"),
            Hole("""if_block.else_if().map(|else_ifs| {
                    else_ifs
                        .iter()
                        .map(|else_if| {
                            else_if.to_owned().with_block(format_block(
                                ctx,
                                else_if.block(),
                                block_shape,
                            ))
                        })
                        .collect()
                })""", "map_else_ifs_block(ctx, if_block, block_shape)", kind="wrapper", why="closure over the elseif branches: with_block(format_block(..)) on every branch"),
            Hole("""if_block
                    .else_block()
                    .map(|block| format_block(ctx, block, block_shape))""", "map_else_block(ctx, if_block, block_shape)", kind="wrapper", why="closure over the optional else block"),
        ]),
    ]
    return its

LABELS = {
    "C09.stmt_blocks_only": dict(props=["C09", "C02"], text="format_stmt_block (what format_stmt does with a statement that is not wholly inside the range): the result is the same kind of statement built from the input by replacing its block(s) / the blocks inside its expressions, every other part handed through untouched"),
    "C09.expression_blocks_only": dict(props=["C09", "C02"], text="format_expression_block: same operators, parentheses and type assertion, the operands by recursion; a function keeps its `function` token and everything of its body but the block; any other expression is returned as it is"),
    "C09.type_function_blocks_only": dict(props=["C09"], text="format_type_function_block: everything but the block of the function body is handed through"),
}

UNIT = Unit("range", items() + [VERIF_MOD], LABELS, header=HEADER + "use full_moon::ast::ElseIf;\n")
