"""Unit `token`: src/formatters/general.rs token layer — get_quote_to_use (C11/C04), format_token (C02 token
kinds/names, C03 comment text, C04 number / long-bracket rewriting, C10 newline normalisation),
format_token_reference, format_symbol (comments of a replaced symbol survive), format_eof (C10 final newline,
C08/C09 EOF untouched when not formatted), pop_until_no_whitespace."""
from gen import Unit, Fn, Item, Raw, RawFile, Hole, After, Before, Loop, Between
from common import *
import block as B
import ctx as C

SPEC_TOK = r"""
// ---- spec: text-level vocabulary of the token layer ---------------------------------------------
pub uninterp spec fn lead(t: TokenReference) -> Seq<Token>;
pub uninterp spec fn trail(t: TokenReference) -> Seq<Token>;
pub open spec fn count_char(s: Seq<char>, c: char) -> nat
    decreases s.len()
{
    if s.len() == 0 { 0 } else { count_char(s.drop_last(), c) + if s.last() == c { 1nat } else { 0nat } }
}
// the newline convention rewrite: normalise CRLF to LF, then LF to the configured ending
pub uninterp spec fn renl(s: Seq<char>, le: Seq<char>) -> Seq<char>;
pub uninterp spec fn trim_end_spec(s: Seq<char>) -> Seq<char>;
// a quoted string body under a quote character denotes a byte string (Lua escapes); opaque here
pub uninterp spec fn string_value(body: Seq<char>, q: StringLiteralQuoteType) -> Seq<u8>;

// `.5` -> `0.5`, `-.5` -> `-0.5`, everything else unchanged (C04: number rewriting limited to a leading `.`)
pub open spec fn num_rewrite(t: Seq<char>) -> Seq<char> {
    if t.len() > 0 && t[0] == '.' { "0"@ + t }
    else if t.len() >= 2 && t[0] == '-' && t[1] == '.' { "-0"@ + t.skip(1) }
    else { t }
}
// C11: forced styles force; auto styles use the preferred quote unless the other needs strictly fewer escapes
pub open spec fn quote_choice(q: QuoteStyle, body: Seq<char>) -> StringLiteralQuoteType {
    let ns = count_char(body, '\'');
    let nd = count_char(body, '"');
    match q {
        QuoteStyle::ForceDouble => StringLiteralQuoteType::Double,
        QuoteStyle::ForceSingle => StringLiteralQuoteType::Single,
        QuoteStyle::AutoPreferDouble => if ns < nd { StringLiteralQuoteType::Single } else { StringLiteralQuoteType::Double },
        QuoteStyle::AutoPreferSingle => if nd < ns { StringLiteralQuoteType::Double } else { StringLiteralQuoteType::Single },
    }
}
// what format_token may do to a token's own type/text
pub open spec fn fmt_tt(c: Config, t: TokenType, o: TokenType) -> bool {
    match t {
        TokenType::Number { text } => match o {
            TokenType::Number { text: t2 } => ss_view(t2) == num_rewrite(ss_view(text)),
            _ => false },
        TokenType::StringLiteral { literal, multi_line_depth, quote_type } => match o {
            TokenType::StringLiteral { literal: l2, multi_line_depth: d2, quote_type: q2 } => d2 == multi_line_depth && (
                if quote_type is Brackets { q2 is Brackets && ss_view(l2) == renl(ss_view(literal), le_seq(c.line_endings)) }
                else { q2 == quote_choice(c.quote_style, ss_view(literal)) && string_value(ss_view(l2), q2) == string_value(ss_view(literal), quote_type) }),
            _ => false },
        TokenType::Shebang { line } => match o {
            TokenType::Shebang { line: l2 } => ss_view(l2) == trim_end_spec(ss_view(line)),
            _ => false },
        TokenType::SingleLineComment { comment } => match o {
            TokenType::SingleLineComment { comment: c2 } => ss_view(c2) == trim_end_spec(ss_view(comment)),
            _ => false },
        TokenType::MultiLineComment { blocks, comment } => match o {
            TokenType::MultiLineComment { blocks: b2, comment: c2 } => b2 == blocks && ss_view(c2) == renl(ss_view(comment), le_seq(c.line_endings)),
            _ => false },
        _ => o == t,
    }
}
// the identity of a token reference (tok_of, uninterpreted in prelude/fm_specs.rs: what the token denotes, trivia and spelling aside) is that of
// its token, and tokens related by fmt_tt — the only rewrites format_token makes: `.5` -> `0.5`, quotes and escapes, comment text trimmed —
// denote the same (definitional; used by the bridges of tools/bridge_links.py)
pub proof fn axiom_tok_of_same_token(a: TokenReference, b: TokenReference) requires tr_token(a) == tr_token(b) ensures tok_of(a) == tok_of(b) { admit(); }
pub proof fn axiom_tok_of_fmt(c: Config, a: TokenReference, b: TokenReference) requires fmt_tt(c, token_type_of(tr_token(a)), token_type_of(tr_token(b))) ensures tok_of(a) == tok_of(b) { admit(); }
pub open spec fn is_comment_tt(t: TokenType) -> bool { t is SingleLineComment || t is MultiLineComment || t is Shebang }
pub open spec fn is_line_comment_tt(t: TokenType) -> bool { t is SingleLineComment || t is Shebang }
// whitespace the formatter itself creates: configured newline, configured indent, a run of spaces
pub uninterp spec fn is_indent_for(t: Token, c: Config) -> bool;
pub open spec fn is_cfg_ws(t: Token, c: Config) -> bool {
    token_type_of(t) is Whitespace && (is_newline_for(t, c) || is_indent_for(t, c) || exists|n: usize| token_type_of(t) == #[trigger] spaces_tt(n))
}
pub open spec fn is_trivia_tt(t: TokenType) -> bool { t is Whitespace || is_comment_tt(t) }
pub open spec fn all_trivia(s: Seq<Token>) -> bool { forall|i: int| 0 <= i < s.len() ==> is_trivia_tt(token_type_of(#[trigger] s[i])) }
// pairwise: b[i] is a[i] rewritten as format_token may
pub open spec fn cms_match(c: Config, a: Seq<Token>, b: Seq<Token>) -> bool {
    a.len() == b.len() && forall|i: int| 0 <= i < a.len() ==> fmt_tt(c, token_type_of(#[trigger] a[i]), token_type_of(b[i]))
}
pub proof fn lemma_cms_append_noncomment(a: Seq<Token>, b: Seq<Token>)
    requires forall|i: int| 0 <= i < b.len() ==> !is_comment_tt(token_type_of(#[trigger] b[i])),
    ensures cms(a + b) == cms(a),
    decreases b.len(),
{
    if b.len() == 0 { assert(a + b =~= a); }
    else {
        lemma_cms_append_noncomment(a, b.drop_last());
        assert((a + b).drop_last() =~= a + b.drop_last());
        assert((a + b).last() == b.last());
    }
}
pub proof fn lemma_cms_push(a: Seq<Token>, x: Token)
    ensures cms(a.push(x)) == (if is_comment_tt(token_type_of(x)) { cms(a).push(x) } else { cms(a) }),
{
    assert(a.push(x).drop_last() =~= a);
}
pub open spec fn cms_front(s: Seq<Token>) -> Seq<Token>     // cms defined from the front (same sequence, other recursion)
    decreases s.len()
{
    if s.len() == 0 { Seq::empty() } else if is_comment_tt(token_type_of(s[0])) { seq![s[0]] + cms_front(s.skip(1)) } else { cms_front(s.skip(1)) }
}
pub proof fn lemma_cms_front(s: Seq<Token>)
    ensures cms_front(s) == cms(s),
    decreases s.len(),
{
    if s.len() == 0 { }
    else if s.len() == 1 {
        assert(s.skip(1) =~= Seq::<Token>::empty()); assert(s.drop_last() =~= Seq::<Token>::empty());
        assert(cms_front(s.skip(1)) =~= Seq::<Token>::empty()); assert(cms(s.drop_last()) =~= Seq::<Token>::empty());
        assert(s.last() == s[0]);
        assert(cms_front(s) =~= cms(s));
    }
    else {
        lemma_cms_front(s.drop_last()); lemma_cms_front(s.skip(1)); lemma_cms_front(s.skip(1).drop_last());
        assert(s.skip(1).drop_last() =~= s.drop_last().skip(1));
        assert(s.drop_last()[0] == s[0]); assert(s.skip(1).last() == s.last());
        assert(cms_front(s) =~= cms(s));
    }
}
pub proof fn lemma_cms_reverse(s: Seq<Token>)
    ensures cms(s.reverse()) == cms(s).reverse(),
    decreases s.len(),
{
    if s.len() == 0 { assert(s.reverse() =~= s); assert(cms(s).reverse() =~= cms(s)); }
    else {
        let r = s.reverse();
        lemma_cms_reverse(s.drop_last());
        lemma_cms_front(r);
        assert(r[0] == s.last());
        assert(r.skip(1) =~= s.drop_last().reverse());
        lemma_cms_front(r.skip(1));
        if is_comment_tt(token_type_of(s.last())) {
            assert(cms(s) == cms(s.drop_last()).push(s.last()));
            assert(cms(s).reverse() =~= seq![s.last()] + cms(s.drop_last()).reverse());
        }
    }
}
pub proof fn lemma_take_push<T>(s: Seq<T>, k: int)
    requires 0 <= k < s.len(),
    ensures s.take(k + 1) == s.take(k).push(s[k]),
{
    assert(s.take(k + 1) =~= s.take(k).push(s[k]));
}
// comments of a trivia sequence, in order
pub open spec fn cms(s: Seq<Token>) -> Seq<Token>
    decreases s.len()
{
    if s.len() == 0 { Seq::empty() } else if is_comment_tt(token_type_of(s.last())) { cms(s.drop_last()).push(s.last()) } else { cms(s.drop_last()) }
}
pub proof fn lemma_cms_all_ws(s: Seq<Token>)
    requires forall|i: int| 0 <= i < s.len() ==> token_type_of(#[trigger] s[i]) is Whitespace,
    ensures cms(s) == Seq::<Token>::empty(),
    decreases s.len(),
{
    if s.len() > 0 { lemma_cms_all_ws(s.drop_last()); }
}
pub proof fn lemma_cms_ws_suffix(s: Seq<Token>, k: int)
    requires 0 <= k <= s.len(), forall|i: int| k <= i < s.len() ==> token_type_of(#[trigger] s[i]) is Whitespace,
    ensures cms(s.take(k)) == cms(s),
    decreases s.len() - k,
{
    if k < s.len() {
        lemma_cms_ws_suffix(s.drop_last(), k);
        assert(s.drop_last().take(k) =~= s.take(k));
    } else {
        assert(s.take(k) =~= s);
    }
}
pub proof fn lemma_cms_push_ws(s: Seq<Token>, x: Token)
    requires !is_comment_tt(token_type_of(x)),
    ensures cms(s.push(x)) == cms(s),
{
    assert(s.push(x).drop_last() =~= s);
}
pub open spec fn derefs(s: Seq<&Token>) -> Seq<Token> { s.map_values(|t: &Token| *t) }
// what load_token_trivia owes: comments kept in order, each only rewritten as fmt_tt allows; everything else it
// emits is whitespace it created itself; in leading trivia every line comment is followed by a newline
pub open spec fn load_post(c: Config, input: Seq<Token>, mode: FormatTokenType, out: Seq<Token>) -> bool {
    &&& cms_match(c, cms(input), cms(out))
    &&& forall|j: int| 0 <= j < out.len() && !is_comment_tt(token_type_of(#[trigger] out[j])) ==> is_cfg_ws(out[j], c)
    &&& (mode is LeadingTrivia ==> forall|j: int| 0 <= j < out.len() && is_line_comment_tt(token_type_of(#[trigger] out[j])) ==> j + 1 < out.len() && is_newline_for(out[j + 1], c))
}
// ---- a line comment in formatted trivia comes from a line comment in the source trivia (C01 line safety, prelude/lines.rs:
// a formatted token can only be `open` if its source token carried a line comment in its trailing trivia)
pub open spec fn has_line_comment(s: Seq<Token>) -> bool { exists|i: int| 0 <= i < s.len() && token_type_of(#[trigger] s[i]) is SingleLineComment }
pub proof fn lemma_cms_has_line_comment(s: Seq<Token>)
    ensures has_line_comment(cms(s)) == has_line_comment(s),
    decreases s.len(),
{
    if s.len() > 0 {
        let p = s.drop_last();
        lemma_cms_has_line_comment(p);
        assert(s =~= p.push(s.last()));
        if has_line_comment(s) {
            let i = choose|i: int| 0 <= i < s.len() && token_type_of(#[trigger] s[i]) is SingleLineComment;
            if i < s.len() - 1 {
                assert(p[i] == s[i]);
                assert(has_line_comment(p));
                let j = choose|j: int| 0 <= j < cms(p).len() && token_type_of(#[trigger] cms(p)[j]) is SingleLineComment;
                if is_comment_tt(token_type_of(s.last())) { assert(cms(s)[j] == cms(p)[j]); }
                assert(has_line_comment(cms(s)));
            } else {
                assert(is_comment_tt(token_type_of(s.last())));
                assert(cms(s)[cms(s).len() - 1] == s.last());
                assert(has_line_comment(cms(s)));
            }
        }
        if has_line_comment(cms(s)) {
            let j = choose|j: int| 0 <= j < cms(s).len() && token_type_of(#[trigger] cms(s)[j]) is SingleLineComment;
            if is_comment_tt(token_type_of(s.last())) && j == cms(s).len() - 1 {
                assert(s[s.len() - 1] == s.last());
                assert(has_line_comment(s));
            } else {
                assert(cms(p)[j] == cms(s)[j]);
                assert(has_line_comment(cms(p)));
                let i = choose|i: int| 0 <= i < p.len() && token_type_of(#[trigger] p[i]) is SingleLineComment;
                assert(s[i] == p[i]);
                assert(has_line_comment(s));
            }
        }
    }
}
pub proof fn lemma_load_post_line_comment(c: Config, input: Seq<Token>, mode: FormatTokenType, out: Seq<Token>)
    requires load_post(c, input, mode, out),
    ensures has_line_comment(out) ==> has_line_comment(input),
{
    lemma_cms_has_line_comment(out);
    lemma_cms_has_line_comment(input);
    if has_line_comment(out) {
        let j = choose|j: int| 0 <= j < cms(out).len() && token_type_of(#[trigger] cms(out)[j]) is SingleLineComment;
        assert(fmt_tt(c, token_type_of(cms(input)[j]), token_type_of(cms(out)[j])));
        assert(token_type_of(cms(input)[j]) is SingleLineComment);
    }
}
pub proof fn lemma_concat_line_comment(a: Seq<Token>, b: Seq<Token>)
    ensures has_line_comment(a + b) == (has_line_comment(a) || has_line_comment(b)),
{
    if has_line_comment(a + b) {
        let i = choose|i: int| 0 <= i < (a + b).len() && token_type_of(#[trigger] (a + b)[i]) is SingleLineComment;
        if i < a.len() { assert(a[i] == (a + b)[i]); } else { assert(b[i - a.len()] == (a + b)[i]); }
    }
    if has_line_comment(a) { let i = choose|i: int| 0 <= i < a.len() && token_type_of(#[trigger] a[i]) is SingleLineComment; assert((a + b)[i] == a[i]); }
    if has_line_comment(b) { let i = choose|i: int| 0 <= i < b.len() && token_type_of(#[trigger] b[i]) is SingleLineComment; assert((a + b)[i + a.len()] == b[i]); }
}
pub open spec fn opt_all_cfg_ws(v: Option<Vec<Token>>, c: Config) -> bool {
    v is Some ==> forall|i: int| 0 <= i < v->Some_0@.len() ==> is_cfg_ws(#[trigger] v->Some_0@[i], c)
}
"""

FM_TOK_SPECS = r"""
pub assume_specification [full_moon::ShortString::as_str] (s: &full_moon::ShortString) -> (r: &str) ensures r@ == ss_view(*s);
pub assume_specification [<full_moon::ShortString as std::ops::Deref>::deref] (s: &full_moon::ShortString) -> (r: &<full_moon::ShortString as std::ops::Deref>::Target) ensures r@ == ss_view(*s);
pub assume_specification [<full_moon::ShortString as Clone>::clone] (s: &full_moon::ShortString) -> (r: full_moon::ShortString) ensures r == *s;
pub assume_specification [TokenReference::new] (l: Vec<Token>, t: Token, tr: Vec<Token>) -> (r: TokenReference)
    ensures lead(r) == l@, tr_token(r) == t, trail(r) == tr@;
pub assume_specification [<Token as Clone>::clone] (s: &Token) -> (r: Token) ensures r == *s;
pub assume_specification [<TokenType as Clone>::clone] (s: &TokenType) -> (r: TokenType) ensures r == *s;
pub assume_specification [<StringLiteralQuoteType as Clone>::clone] (s: &StringLiteralQuoteType) -> (r: StringLiteralQuoteType) ensures r == *s;
#[cfg(feature = "luau")]
pub assume_specification [<full_moon::tokenizer::InterpolatedStringKind as Clone>::clone] (s: &full_moon::tokenizer::InterpolatedStringKind) -> (r: full_moon::tokenizer::InterpolatedStringKind) ensures r == *s;
#[verifier::external_type_specification] pub struct ExTokenKind(full_moon::tokenizer::TokenKind);
pub open spec fn kind_of(t: TokenType) -> full_moon::tokenizer::TokenKind {
    match t {
        TokenType::Eof => full_moon::tokenizer::TokenKind::Eof,
        TokenType::Identifier { .. } => full_moon::tokenizer::TokenKind::Identifier,
        TokenType::MultiLineComment { .. } => full_moon::tokenizer::TokenKind::MultiLineComment,
        TokenType::Number { .. } => full_moon::tokenizer::TokenKind::Number,
        TokenType::Shebang { .. } => full_moon::tokenizer::TokenKind::Shebang,
        TokenType::SingleLineComment { .. } => full_moon::tokenizer::TokenKind::SingleLineComment,
        TokenType::StringLiteral { .. } => full_moon::tokenizer::TokenKind::StringLiteral,
        TokenType::Symbol { .. } => full_moon::tokenizer::TokenKind::Symbol,
        TokenType::Whitespace { .. } => full_moon::tokenizer::TokenKind::Whitespace,
        #[cfg(feature = "luau")]
        TokenType::InterpolatedString { .. } => full_moon::tokenizer::TokenKind::InterpolatedString,
        _ => full_moon::tokenizer::TokenKind::Eof,
    }
}
pub assume_specification [Token::token_kind] (t: &Token) -> (r: full_moon::tokenizer::TokenKind) ensures r == kind_of(token_type_of(*t));
impl vstd::std_specs::cmp::PartialEqSpecImpl for FormatNode {
    open spec fn obeys_eq_spec() -> bool { true }
    open spec fn eq_spec(&self, other: &Self) -> bool { *self == *other }
}
"""

VERIF_TOK = Raw(r"""
// call-site wrappers for std string methods that cannot be given an assume_specification (class B)
#[verifier::external_body] pub fn str_contains_char(s: &str, c: char) -> (r: bool) ensures r == (count_char(s@, c) > 0) { unimplemented!() }
#[verifier::external_body] pub fn str_count_char(s: &str, c: char) -> (r: usize) ensures r == count_char(s@, c) { unimplemented!() }
#[verifier::external_body] pub fn starts_with_char(s: &str, c: char) -> (r: bool) ensures r == (s@.len() > 0 && s@[0] == c) { unimplemented!() }
#[verifier::external_body] pub fn starts_with_minus_dot(s: &str) -> (r: bool) ensures r == (s@.len() >= 2 && s@[0] == '-' && s@[1] == '.') { unimplemented!() /* s.starts_with("-.") */ }
#[verifier::external_body] pub fn concat(a: &str, b: &str) -> (r: String) ensures r@ == a@ + b@ { unimplemented!() }
#[verifier::external_body] pub fn str_from(s: &str, i: usize) -> (r: Option<&str>)
    ensures (i == 1 && s@.len() >= 1 && s@[0] == '-') ==> r is Some && r->Some_0@ == s@.skip(1) { unimplemented!() }
#[verifier::external_body] pub fn ss_to_string(s: &full_moon::ShortString) -> (r: String) ensures r@ == ss_view(*s) { unimplemented!() }
#[verifier::external_body] pub fn str_into_short(s: &str) -> (r: full_moon::ShortString) ensures ss_view(r) == s@ { unimplemented!() }
#[verifier::external_body] pub fn renl_str(s: &str, le: &String) -> (r: String) ensures r@ == renl(s@, le@) { unimplemented!() }
#[verifier::external_body] pub fn trim_end(s: &str) -> (r: &str) ensures r@ == trim_end_spec(s@) { unimplemented!() }
// the two-regex escape rewriting (RE / UNNECESSARY_ESCAPES and the replacement closure): assumed to preserve the
// denoted byte string — C04's escape clause is NOT decided by this unit (DESIGN.md §5 C04, stretch goal)
#[verifier::external_body] pub fn rewrite_escapes(s: &str, from: &StringLiteralQuoteType, to: &StringLiteralQuoteType) -> (r: full_moon::ShortString)
    ensures string_value(ss_view(r), *to) == string_value(s@, *from) { unimplemented!() }
pub proof fn axiom_trivia_valid(t: TokenReference) ensures all_trivia(lead(t)), all_trivia(trail(t)) { admit(); }   // parser: trivia lists hold whitespace and comments only (class A)
pub proof fn axiom_spaces_ws(n: usize) ensures spaces_tt(n) is Whitespace { admit(); }                              // TokenType::spaces yields the Whitespace variant (class A)
#[verifier::external_body] pub fn peek_refs<'a, 'b>(v: &'b Vec<&'a Token>) -> (r: std::iter::Peekable<std::slice::Iter<'b, &'a Token>>)
    ensures pk_rest(&r).len() == v@.len(), forall|i: int| 0 <= i < v@.len() ==> **(#[trigger] pk_rest(&r)[i]) == *v@[i] { unimplemented!() /* current_trivia.iter().peekable() */ }
#[verifier::external_body] pub fn peek_rev<'b>(v: &'b Vec<Token>) -> (r: std::iter::Peekable<std::iter::Rev<std::slice::Iter<'b, Token>>>)
    ensures pk_rest(&r).len() == v@.len(), forall|i: int| 0 <= i < v@.len() ==> *(#[trigger] pk_rest(&r)[i]) == v@.reverse()[i] { unimplemented!() /* v.iter().rev().peekable() */ }
#[verifier::external_body] pub fn next_is_comment<I: Iterator>(it: &mut std::iter::Peekable<I>) -> (r: bool)
    ensures pk_rest(final(it)) == pk_rest(old(it)) { unimplemented!() /* matches!(iter.peek().map(|x| x.token_kind()), Some(SingleLineComment) | Some(MultiLineComment)) */ }
#[verifier::external_body] pub fn vec_reverse(v: &mut Vec<Token>) ensures final(v)@ == old(v)@.reverse() { unimplemented!() /* v.reverse() */ }
#[verifier::external_body] pub fn ss_contains_char(s: &full_moon::ShortString, c: char) -> (r: bool) { unimplemented!() /* characters.contains(c) */ }
#[verifier::external_body] pub fn lead_refs(t: &TokenReference) -> (r: Vec<&Token>) ensures derefs(r@) == lead(*t), all_trivia(lead(*t)), r@.len() < i32::MAX { unimplemented!() /* t.leading_trivia().collect() */ }
#[verifier::external_body] pub fn trail_refs(t: &TokenReference) -> (r: Vec<&Token>) ensures derefs(r@) == trail(*t), all_trivia(trail(*t)), r@.len() < i32::MAX { unimplemented!() /* t.trailing_trivia().collect() */ }
#[verifier::external_body] pub fn lead_owned(t: &TokenReference) -> (r: Vec<Token>) ensures r@ == lead(*t) { unimplemented!() /* t.leading_trivia().map(|x| x.to_owned()).collect() */ }
#[verifier::external_body] pub fn trail_owned(t: &TokenReference) -> (r: Vec<Token>) ensures r@ == trail(*t) { unimplemented!() /* t.trailing_trivia().map(|x| x.to_owned()).collect() */ }
#[verifier::external_body] pub fn all_whitespace(v: &Vec<Token>) -> (r: bool)
    ensures r == (forall|i: int| 0 <= i < v@.len() ==> token_type_of(#[trigger] v@[i]) is Whitespace) { unimplemented!() }
""", module="verif")

RENL_STR = """let literal = literal
                    .replace("\\r\\n", "\\n")
                    .replace('\\n', &line_ending_character(ctx.config().line_endings));"""
RENL_CMT = """let comment = comment
                .replace("\\r\\n", "\\n")
                .replace('\\n', &line_ending_character(ctx.config().line_endings));"""

LOAD_INV = """
        invariant
            input == derefs(current_trivia@), all_trivia(input), cfg == ctx.config,
            0 <= k <= input.len(), pk_rest(&trivia_iter).len() == input.len() - k,
            forall|j: int| 0 <= j < pk_rest(&trivia_iter).len() ==> **(#[trigger] pk_rest(&trivia_iter)[j]) == input[k + j],
            0 <= newline_count_in_succession <= k, input.len() < i32::MAX,
            cms_match(cfg, cms(input.take(k)), cms(token_trivia@)), //# C03.load_comments_kept
            forall|j: int| 0 <= j < token_trivia@.len() && !is_comment_tt(token_type_of(#[trigger] token_trivia@[j])) ==> is_cfg_ws(token_trivia@[j], cfg), //# C10.load_only_own_whitespace
            format_token_type is LeadingTrivia ==> forall|j: int| 0 <= j < token_trivia@.len() && is_line_comment_tt(token_type_of(#[trigger] token_trivia@[j])) ==> j + 1 < token_trivia@.len() && is_newline_for(token_trivia@[j + 1], cfg), //# C01.load_line_comment_terminated
        ensures k == input.len(),
        decreases pk_rest(&trivia_iter).len(),
"""

def items():
    its = [x for x in common_items() if not (isinstance(x, Fn) and x.file == CTX and x.name in ("create_indent_trivia", "create_newline_trivia"))]
    its += [
        Raw(B.SPEC, module="context"),
        Raw(C.SPEC_WS, module="context"),
        Raw(SPEC_TOK + FM_TOK_SPECS),
        Fn(CTX, "should_format_node", impl_of="Context", mode="stub", sig_edits=[VN], proved_in="ctx", contract="ensures r == decision(*self, node.key()),"),
        Fn(CTX, "line_ending_character", mode="stub", proved_in="ctx", contract="ensures r@ == le_seq(line_endings),"),
        Fn(CTX, "create_newline_trivia", mode="stub", proved_in="ctx", contract="ensures is_newline_for(r, ctx.config),"),
        Fn(CTX, "create_indent_trivia", mode="stub", contract="ensures is_indent_for(r, ctx.config), token_type_of(r) is Whitespace,",
           note="machine arithmetic: the indent computation is assumed not to overflow here (its precondition is stated in unit ctx)"),
        Item(GEN, "enum", "FormatTokenType", keep_derives=("Clone", "Copy")),
        Item(GEN, "enum", "EndTokenType", keep_derives=()),
        Fn(GEN, "get_quote_to_use", contract="""
    ensures r == quote_choice(ctx.config.quote_style, literal@), //# C11.quote_choice
""", edits=[
            Hole("literal.contains('\\'')", "verif::str_contains_char(literal, '\\'')", kind="wrapper", why="str::contains::<char>"),
            Hole("literal.contains('\"')", "verif::str_contains_char(literal, '\"')", kind="wrapper", why="str::contains::<char>"),
            Hole("literal.matches('\\'').count()", "verif::str_count_char(literal, '\\'')", kind="wrapper", why="str::matches(..).count()"),
            Hole("literal.matches('\"').count()", "verif::str_count_char(literal, '\"')", kind="wrapper", why="str::matches(..).count()"),
        ]),
        Fn(GEN, "format_single_line_comment_string", contract="ensures r@ == trim_end_spec(comment@),",
           edits=[Hole("comment.trim_end()", "verif::trim_end(comment)", kind="wrapper", why="str::trim_end")]),
        Fn(GEN, "format_token", contract="""
    ensures
        fmt_tt(ctx.config, token_type_of(*token), token_type_of(r.0)), //# C03.token_text
        opt_all_cfg_ws(r.1, ctx.config) && opt_all_cfg_ws(r.2, ctx.config), //# C03.no_comment_created
        format_type is LeadingTrivia && is_line_comment_tt(token_type_of(*token)) ==> r.2 is Some && r.2->Some_0@.len() == 1 && is_newline_for(r.2->Some_0@[0], ctx.config), //# C01.line_comment_terminated
        !is_comment_tt(token_type_of(*token)) ==> r.1 is None && r.2 is None, //# C10.no_extra_trivia_for_code_tokens
""", edits=[
            Hole("text.starts_with('.')", "verif::starts_with_char(text.as_str(), '.')", kind="wrapper", why="str::starts_with::<char>"),
            Hole('String::from("0") + text.as_str()', 'verif::concat("0", text.as_str())', kind="wrapper", why="<String as Add<&str>>::add"),
            Hole('text.starts_with("-.")', 'verif::starts_with_minus_dot(text.as_str())', kind="wrapper", why="str::starts_with::<&str> with the literal \"-.\" (literal is part of the anchor)"),
            Hole('String::from("-0") + text.get(1..).expect("unknown number literal")', 'verif::concat("-0", verif::str_from(text.as_str(), 1).expect("unknown number literal"))', kind="wrapper", why="str::get(1..), <String as Add<&str>>::add; the expect stays an obligation"),
            Hole("text.to_string()", "verif::ss_to_string(text)", kind="wrapper", why="ToString on ShortString"),
            Hole("""            }
            .into();

            TokenType::Number { text }""", """            };
            let text = verif::into_short(text);

            TokenType::Number { text }""", kind="wrapper", why="<String as Into<ShortString>>::into"),
            Hole(RENL_STR, "let literal = verif::renl_str(literal.as_str(), &line_ending_character(ctx.config().line_endings));", kind="wrapper", why="str::replace x2 (newline convention)"),
            Hole("literal: literal.into(),", "literal: verif::into_short(literal),", kind="wrapper", why="<String as Into<ShortString>>::into"),
            Between("lazy_static::lazy_static! {", """                    })
                    .into();""", "let quote_to_use = get_quote_to_use(ctx, literal.as_str());\n let literal = verif::rewrite_escapes(literal.as_str(), quote_type, &quote_to_use);",
                    why="lazy_static regexes RE / UNNECESSARY_ESCAPES and the replace_all closure: escape rewriting is assumed value-preserving (text pinned by sha256)", pin="01ffed51ad88"),
            Hole("let line = format_single_line_comment_string(line).into();", "let line = verif::str_into_short(format_single_line_comment_string(line.as_str()));", kind="wrapper", why="<&str as Into<ShortString>>::into"),
            Hole("debug_assert!(matches!(format_type, FormatTokenType::LeadingTrivia));", "", why="debug-only assertion dropped (compiled out in release builds)"),
            Hole("let comment = format_single_line_comment_string(comment).into();", "let comment = verif::str_into_short(format_single_line_comment_string(comment.as_str()));", kind="wrapper", why="<&str as Into<ShortString>>::into"),
            Hole(RENL_CMT, "let comment = verif::renl_str(comment.as_str(), &line_ending_character(ctx.config().line_endings));", kind="wrapper", why="str::replace x2 (newline convention)"),
            Hole("comment: comment.into(),", "comment: verif::into_short(comment),", kind="wrapper", why="<String as Into<ShortString>>::into"),
        ]),
        Fn(GEN, "load_token_trivia", contract="""
    requires all_trivia(derefs(current_trivia@)),
             current_trivia@.len() < i32::MAX,   // machine arithmetic: the i32 newline counter cannot overflow (fewer than 2^31 trivia tokens on one token)
    ensures load_post(ctx.config, derefs(current_trivia@), format_token_type, r@), //# C03.load_token_trivia
""", edits=[
            Hole("current_trivia.iter().peekable()", "verif::peek_refs(&current_trivia)", kind="wrapper", why="slice::iter().peekable() through a wrapper carrying the ghost sequence"),
            Hole("characters.contains('\\n')", "verif::ss_contains_char(characters, '\\n')", kind="wrapper", why="str::contains::<char>", count=3),
            After("let mut trivia_iter = verif::peek_refs(&current_trivia);", "let ghost input = derefs(current_trivia@); let ghost cfg = ctx.config; let ghost mut k: int = 0;"),
            Loop("while let Some(trivia) = trivia_iter.next()", LOAD_INV, step=None,
                 enter="proof { lemma_take_push(input, k); lemma_cms_push(input.take(k), input[k]); assert(**trivia == input[k]); k = k + 1; }\n let ghost out0 = token_trivia@; let ghost mut out1 = token_trivia@; let ghost mut out2 = token_trivia@; let ghost mut lead_extra: Option<Vec<Token>> = None; let ghost mut trail_extra: Option<Vec<Token>> = None;"),
            After("token_trivia.push(create_newline_trivia(ctx));", "proof { lemma_cms_push(out0, token_trivia@.last()); }"),
            Before("\n    token_trivia\n}", "proof { assert(input.take(input.len() as int) =~= input); }"),
            After("token_trivia.push(Token::new(TokenType::spaces(1)))", "; proof { lemma_cms_push(out0, token_trivia@.last()); }"),
            After("""                                // Consume iterator once to skip the next iteration
                                trivia_iter.next();""", "proof { lemma_take_push(input, k); lemma_cms_push(input.take(k), input[k]); k = k + 1; }"),
            After("format_token(ctx, trivia.to_owned(), format_token_type, shape);", "proof { lead_extra = leading_trivia; trail_extra = trailing_trivia; }"),
            After("""        if let Some(mut trivia) = leading_trivia {
            token_trivia.append(&mut trivia);
        }""", "proof { out1 = token_trivia@; if lead_extra is Some { lemma_cms_append_noncomment(out0, lead_extra->Some_0@); } assert(cms(out1) == cms(out0)); }"),
            After("token_trivia.push(token);", "proof { out2 = token_trivia@; lemma_cms_push(out1, token); }"),
            After("""        if let Some(mut trivia) = trailing_trivia {
            token_trivia.append(&mut trivia)
        }""", "proof { if trail_extra is Some { lemma_cms_append_noncomment(out2, trail_extra->Some_0@); } assert(cms(token_trivia@) == cms(out2)); }"),
        ]),
        Fn(GEN, "format_end_token", contract="""
    ensures
        token_type_of(tr_token(r)) == token_type_of(tr_token(*current_token)), //# C02.end_token_unchanged
        exists|l: Seq<Token>| #[trigger] load_post(ctx.config, lead(*current_token), FormatTokenType::LeadingTrivia, l) && cms(lead(r)) == cms(l), //# C03.end_token_comments
        forall|j: int| 0 <= j < lead(r).len() && !is_comment_tt(token_type_of(#[trigger] lead(r)[j])) ==> is_cfg_ws(lead(r)[j], ctx.config), //# C10.end_token_whitespace
        load_post(ctx.config, trail(*current_token), FormatTokenType::TrailingTrivia, trail(r)), //# C03.end_token_trailing
""", edits=[
            Hole("current_token.leading_trivia().collect()", "verif::lead_refs(current_token)", kind="wrapper", why="impl Iterator::collect"),
            Hole("current_token.trailing_trivia().collect()", "verif::trail_refs(current_token)", kind="wrapper", why="impl Iterator::collect"),
            Hole("formatted_leading_trivia.iter().rev().peekable()", "verif::peek_rev(&formatted_leading_trivia)", kind="wrapper", why="slice::iter().rev().peekable() through a wrapper carrying the ghost (reversed) sequence"),
            Hole("characters.contains('\\n')", "verif::ss_contains_char(characters, '\\n')", kind="wrapper", why="str::contains::<char>"),
            Hole("""!matches!(
                        iter.peek().map(|x| x.token_kind()),
                        Some(TokenKind::SingleLineComment) | Some(TokenKind::MultiLineComment)
                    )""", "!verif::next_is_comment(&mut iter)", kind="wrapper", why="peek().map(closure) inside matches!"),
            Hole("formatted_leading_trivia.reverse();", "verif::vec_reverse(&mut formatted_leading_trivia);", kind="wrapper", why="<[T]>::reverse through DerefMut"),
            Before("let mut iter = verif::peek_rev(&formatted_leading_trivia);", "let ghost l0 = formatted_leading_trivia@; let ghost rv = l0.reverse(); let ghost cfg = ctx.config; let ghost mut k: int = 0;"),
            Loop("while let Some(x) = iter.next()", """
        invariant
            rv == l0.reverse(), cfg == ctx.config, 0 <= k <= rv.len(), pk_rest(&iter).len() == rv.len() - k,
            forall|j: int| 0 <= j < pk_rest(&iter).len() ==> *(#[trigger] pk_rest(&iter)[j]) == rv[k + j],
            forall|j: int| 0 <= j < l0.len() && !is_comment_tt(token_type_of(#[trigger] l0[j])) ==> is_cfg_ws(l0[j], cfg),
            cms(formatted_leading_trivia@) == cms(rv.take(k)), //# C03.end_token_loop
            forall|j: int| 0 <= j < formatted_leading_trivia@.len() && !is_comment_tt(token_type_of(#[trigger] formatted_leading_trivia@[j])) ==> is_cfg_ws(formatted_leading_trivia@[j], cfg),
        ensures k == rv.len(),
        decreases pk_rest(&iter).len(),
""", enter="proof { lemma_take_push(rv, k); lemma_cms_push(rv.take(k), rv[k]); assert(*x == rv[k]); assert(rv[k] == l0[l0.len() - 1 - k]); k = k + 1; }\n let ghost o0 = formatted_leading_trivia@;"),
            After("formatted_leading_trivia.push(x.to_owned());", "proof { lemma_cms_push(o0, *x); }", count=2),
            Before("verif::vec_reverse(&mut formatted_leading_trivia);", "let ghost ob = formatted_leading_trivia@;"),
            After("verif::vec_reverse(&mut formatted_leading_trivia);", "proof { assert(rv.take(rv.len() as int) =~= rv); lemma_cms_reverse(l0); lemma_cms_reverse(ob); assert(cms(l0).reverse().reverse() =~= cms(l0)); assert(cms(formatted_leading_trivia@) == cms(l0)); assert(forall|j: int| 0 <= j < ob.len() ==> ob.reverse()[j] == ob[ob.len() - 1 - j]); }"),
        ]),
        Fn(GEN, "format_token_reference", contract="""
    ensures
        fmt_tt(ctx.config, token_type_of(tr_token(*token_reference)), token_type_of(tr_token(r))), //# C03.tokref_token
        load_post(ctx.config, lead(*token_reference), FormatTokenType::LeadingTrivia, lead(r)), //# C03.tokref_leading
        load_post(ctx.config, trail(*token_reference), FormatTokenType::TrailingTrivia, trail(r)), //# C03.tokref_trailing
        has_line_comment(trail(r)) ==> has_line_comment(trail(*token_reference)), //# C01.tokref_open_only_if_source
""", edits=[
            Before("TokenReference::new(formatted_leading_trivia, token, formatted_trailing_trivia)", "proof { lemma_load_post_line_comment(ctx.config, trail(*token_reference), FormatTokenType::TrailingTrivia, formatted_trailing_trivia@); }"),
            Hole("token_reference.leading_trivia().collect()", "verif::lead_refs(token_reference)", kind="wrapper", why="impl Iterator::collect"),
            Hole("token_reference.trailing_trivia().collect()", "verif::trail_refs(token_reference)", kind="wrapper", why="impl Iterator::collect"),
        ]),
        Fn(TU, "trivia_is_newline", contract="ensures r == is_nl(*trivia),", edits=[
            Hole("characters.find('\\n').is_some()", "crate::verif::str_contains_char(characters.as_str(), '\\n')", kind="wrapper", why="str::find with a char pattern: does the text contain the character"),
        ]),
        Fn(GEN, "format_symbol", contract="""
    ensures
        tr_token(r) == tr_token(*wanted_symbol), //# C02.symbol_token
        // (a symbol that comments have put onto a new line is indented instead of getting the wanted symbol's own leading whitespace)
        exists|l: Seq<Token>| #[trigger] load_post(ctx.config, lead(*current_symbol), FormatTokenType::LeadingTrivia, l)
            && (lead(r) == l + lead(*wanted_symbol) || (lead(r).len() == l.len() + 1 && lead(r).take(l.len() as int) == l && is_indent_for(lead(r).last(), ctx.config) && token_type_of(lead(r).last()) is Whitespace)), //# C03.symbol_leading
        exists|t: Seq<Token>| #[trigger] load_post(ctx.config, trail(*current_symbol), FormatTokenType::TrailingTrivia, t) && trail(r) == trail(*wanted_symbol) + t, //# C03.symbol_trailing
        has_line_comment(trail(r)) ==> has_line_comment(trail(*current_symbol)) || has_line_comment(trail(*wanted_symbol)), //# C01.symbol_open_only_if_source
""", edits=[
            Before("wanted_trailing_trivia.append(&mut formatted_trailing_trivia);", "let ghost ft = formatted_trailing_trivia@; let ghost wt = wanted_trailing_trivia@; proof { lemma_load_post_line_comment(ctx.config, trail(*current_symbol), FormatTokenType::TrailingTrivia, ft); lemma_concat_line_comment(wt, ft); }"),
            Hole("current_symbol.leading_trivia().collect()", "verif::lead_refs(current_symbol)", kind="wrapper", why="impl Iterator::collect"),
            Hole("current_symbol.trailing_trivia().collect()", "verif::trail_refs(current_symbol)", kind="wrapper", why="impl Iterator::collect"),
            Hole("""wanted_symbol
        .leading_trivia()
        .map(|x| x.to_owned())
        .collect()""", "verif::lead_owned(wanted_symbol)", kind="wrapper", why="iterator map/collect"),
            Hole("""wanted_symbol
        .trailing_trivia()
        .map(|x| x.to_owned())
        .collect()""", "verif::trail_owned(wanted_symbol)", kind="wrapper", why="iterator map/collect"),
        ]),
        Fn(GEN, "pop_until_no_whitespace", contract="""
    ensures
        final(trivia)@.len() <= old(trivia)@.len(),
        final(trivia)@ == old(trivia)@.take(final(trivia)@.len() as int), //# C10.pop_prefix
        final(trivia)@.len() > 0 ==> !(token_type_of(final(trivia)@.last()) is Whitespace), //# C10.pop_no_trailing_ws
        forall|i: int| final(trivia)@.len() <= i < old(trivia)@.len() ==> token_type_of(#[trigger] old(trivia)@[i]) is Whitespace, //# C03.pop_only_whitespace
    decreases old(trivia)@.len(),
""", edits=[
            Before("if let Some(t) = trivia.pop() {", "let ghost pre = trivia@;"),
            After("if let Some(t) = trivia.pop() {", "proof { assert(forall|i: int| #![trigger pre[i]] 0 <= i < trivia@.len() ==> trivia@[i] == pre[i]); }"),
        ]),
        Fn(GEN, "format_eof", contract="""
    ensures
        !(decision(*ctx, eof.key()) is Normal) ==> r == *eof, //# C09.eof_untouched
        decision(*ctx, eof.key()) is Normal ==> token_type_of(tr_token(r)) is Eof && trail(r).len() == 0, //# C10.eof_token
        decision(*ctx, eof.key()) is Normal && lead(r).len() > 0 ==> is_newline_for(lead(r).last(), ctx.config)
            && lead(r).len() >= 2 && !(token_type_of(lead(r)[lead(r).len() - 2]) is Whitespace), //# C10.eof_single_newline
        decision(*ctx, eof.key()) is Normal ==> exists|l: Seq<Token>| #[trigger] load_post(ctx.config, lead(*eof), FormatTokenType::LeadingTrivia, l)
            && cms(lead(r)) == cms(l), //# C03.eof_comments
""", edits=[
            Hole("eof.leading_trivia().collect()", "verif::lead_refs(eof)", kind="wrapper", why="impl Iterator::collect"),
            Hole("""formatted_leading_trivia
        .iter()
        .all(|x| x.token_kind() == TokenKind::Whitespace)""", "verif::all_whitespace(&formatted_leading_trivia)", kind="wrapper", why="iter().all(closure)"),
            # proof hints (ghost only): the comment subsequence is unchanged by removing/adding whitespace
            After("if only_whitespace {", "proof { lemma_cms_all_ws(formatted_leading_trivia@); }"),
            Before("pop_until_no_whitespace(&mut formatted_leading_trivia);", "let ghost l0 = formatted_leading_trivia@;"),
            After("pop_until_no_whitespace(&mut formatted_leading_trivia);", "proof { lemma_cms_ws_suffix(l0, formatted_leading_trivia@.len() as int); assert(l0.take(formatted_leading_trivia@.len() as int) == formatted_leading_trivia@); }\n let ghost l1 = formatted_leading_trivia@;"),
            After("formatted_leading_trivia.push(create_newline_trivia(ctx));", "proof { lemma_cms_push_ws(l1, formatted_leading_trivia@.last()); assert(formatted_leading_trivia@ =~= l1.push(formatted_leading_trivia@.last())); }"),
        ]),
        # ---- join_trailing_trivia (trivia_util.rs, written for the D28 repair): comments that end up on one line
        Raw("""
pub open spec fn is_nl(t: Token) -> bool { match token_type_of(t) { TokenType::Whitespace { characters } => count_char(ss_view(characters), '\\n') > 0, _ => false } }
pub open spec fn is_lc(t: Token) -> bool { token_type_of(t) is SingleLineComment }
pub open spec fn is_cmt(t: Token) -> bool { token_type_of(t) is SingleLineComment || token_type_of(t) is MultiLineComment }
// no comment stands behind a single line comment on the same line
pub open spec fn line_ok(v: Seq<Token>) -> bool { forall|i: int, j: int| 0 <= i < j < v.len() && is_lc(#[trigger] v[i]) && is_cmt(#[trigger] v[j]) ==> nl_between(v, i, j) }
pub open spec fn nl_between(v: Seq<Token>, i: int, j: int) -> bool { exists|k: int| i < k < j && is_nl(#[trigger] v[k]) }
// the list ends on a line that a single line comment has taken over
pub open spec fn open_at_end(v: Seq<Token>) -> bool { exists|i: int| 0 <= i < v.len() && is_lc(#[trigger] v[i]) && !nl_between(v, i, v.len() as int) }
pub proof fn lemma_newline_for_is_nl(t: Token, c: Config)
    requires is_newline_for(t, c), ensures is_nl(t), token_type_of(t) is Whitespace,
{
    match token_type_of(t) {
        TokenType::Whitespace { characters } => {
            let s = ss_view(characters);
            match c.line_endings {
                LineEndings::Unix => { reveal_strlit("\\n"); assert(s.len() == 1 && s.last() == '\\n'); },
                LineEndings::Windows => { reveal_strlit("\\r\\n"); assert(s.len() == 2 && s.last() == '\\n'); },
            }
        },
        _ => {}
    }
}
""", module="formatters::trivia_util"),
        Fn(TU, "trivia_is_whitespace", contract="ensures r == (token_type_of(*trivia) is Whitespace),"),
        Fn(TU, "trivia_is_singleline_comment", contract="ensures r == is_lc(*trivia),"),
        Fn(TU, "trivia_is_comment", contract="ensures r == is_cmt(*trivia),"),
        Fn(TU, "join_trailing_trivia", contract="""
    ensures cms(r@) == cms(first@ + second@), //# C03.join_keeps_comments
            line_ok(r@), //# C03.join_line_comments_end_their_line
""", edits=[
            Hole("trivia.extend(second);", "crate::verif::extend_vec_token(&mut trivia, second);\n    let ghost all = trivia@;", kind="wrapper", why="Vec::extend with a Vec: appends (class B); the joined list gets a ghost name"),
            Hole("for token in trivia {", "for token in gi: trivia {", kind="ghost-name", why="names Verus' ghost iterator of the loop (no executable effect)"),
            Hole("joined.last().map_or(false, trivia_is_whitespace)", "crate::verif::last_is_whitespace(&joined)", kind="wrapper", why="Option::map_or with a function value", optional=True),
            After("for token in gi: trivia {", "proof { lemma_take_push(all, gi.index@ as int); lemma_cms_push(all.take(gi.index@ as int), token); }\n        let ghost j0 = joined@;"),
            Loop("for token in gi: trivia", """
        invariant
            gi.seq() == all, all == first@ + second@,
            cms(joined@) == cms(all.take(gi.index@ as int)), //# C03.join_loop
            line_ok(joined@), //# C03.join_loop
            behind_singleline_comment == open_at_end(joined@), //# C03.join_loop
"""),
            Loop("while crate::verif::last_is_whitespace(&joined)", """
            invariant
                cms(joined@) == cms(j0), line_ok(joined@), open_at_end(joined@),
                joined@.len() <= j0.len(), joined@ == j0.take(joined@.len() as int),
            decreases joined@.len(),
""", enter="proof { lemma_cms_push_ws(joined@.drop_last(), joined@.last()); assert(joined@.drop_last().push(joined@.last()) =~= joined@); lemma_open_drop_ws(joined@); lemma_line_ok_prefix(joined@, joined@.len() - 1); }\n let ghost j1 = joined@;", step="proof { assert(joined@ =~= j1.drop_last()); assert(joined@ =~= j0.take(joined@.len() as int)); }"),
            Before("joined.push(create_newline_trivia(ctx));", "let ghost ja = joined@;", optional=True),
            After("joined.push(create_newline_trivia(ctx));", "proof { let x = joined@.last(); assert(joined@ =~= ja.push(x)); lemma_newline_for_is_nl(x, ctx.config); lemma_cms_push_ws(ja, x); lemma_push_nl(ja, x); }", optional=True),
            Before("joined.push(create_indent_trivia(ctx, shape));", "let ghost jb = joined@;", optional=True),
            After("joined.push(create_indent_trivia(ctx, shape));", "proof { let x = joined@.last(); assert(joined@ =~= jb.push(x)); lemma_cms_push_ws(jb, x); lemma_push_plain_ws(jb, x); }", optional=True),
            Before("joined.push(token);", "let ghost j2 = joined@;"),
            After("joined.push(token);", "proof { assert(joined@ =~= j2.push(token)); lemma_cms_push(j2, token); lemma_push_token(j2, token); }"),
            Hole("    }\n\n    joined\n", "    }\n    proof { assert(all.take(all.len() as int) =~= all); }\n    joined\n", kind="ghost-insert", why="proof hint: the whole list is its own prefix"),
        ]),
        Raw("""
#[verifier::external_body] pub fn last_is_whitespace(v: &Vec<Token>) -> (r: bool) ensures r == (v@.len() > 0 && token_type_of(v@.last()) is Whitespace) { unimplemented!() /* v.last().map_or(false, trivia_is_whitespace) */ }
""", module="verif"),
        Raw("""
// a prefix of a list in which no comment stands behind a single line comment is such a list
pub proof fn lemma_line_ok_prefix(v: Seq<Token>, n: int)
    requires line_ok(v), 0 <= n <= v.len(), ensures line_ok(v.take(n)),
{
    let p = v.take(n);
    assert forall|i: int, j: int| 0 <= i < j < p.len() && is_lc(#[trigger] p[i]) && is_cmt(#[trigger] p[j]) implies nl_between(p, i, j) by {
        assert(is_lc(v[i]) && is_cmt(v[j]));
        let k = choose|k: int| i < k < j && is_nl(#[trigger] v[k]);
        assert(is_nl(p[k]));
    }
}
// dropping a whitespace token that is no newline... or any whitespace at the end of an open list: the list stays open (a newline cannot stand there)
pub proof fn lemma_open_drop_ws(v: Seq<Token>)
    requires open_at_end(v), v.len() > 0, token_type_of(v.last()) is Whitespace, ensures open_at_end(v.drop_last()),
{
    let i = choose|i: int| 0 <= i < v.len() && is_lc(#[trigger] v[i]) && !nl_between(v, i, v.len() as int);
    let d = v.drop_last();
    assert(i < v.len() - 1);
    assert(is_lc(d[i]));
    if nl_between(d, i, d.len() as int) { let k = choose|k: int| i < k < d.len() && is_nl(#[trigger] d[k]); assert(is_nl(v[k])); assert(nl_between(v, i, v.len() as int)); }
}
pub proof fn lemma_push_nl(v: Seq<Token>, x: Token)
    requires line_ok(v), is_nl(x), token_type_of(x) is Whitespace, ensures line_ok(v.push(x)), !open_at_end(v.push(x)),
{
    let w = v.push(x);
    assert forall|i: int, j: int| 0 <= i < j < w.len() && is_lc(#[trigger] w[i]) && is_cmt(#[trigger] w[j]) implies nl_between(w, i, j) by {
        assert(j < v.len()); assert(is_lc(v[i]) && is_cmt(v[j]));
        let k = choose|k: int| i < k < j && is_nl(#[trigger] v[k]); assert(is_nl(w[k]));
    }
    if open_at_end(w) {
        let i = choose|i: int| 0 <= i < w.len() && is_lc(#[trigger] w[i]) && !nl_between(w, i, w.len() as int);
        assert(i < v.len()); assert(is_nl(w[v.len() as int])); assert(nl_between(w, i, w.len() as int));
    }
}
pub proof fn lemma_push_plain_ws(v: Seq<Token>, x: Token)
    requires line_ok(v), token_type_of(x) is Whitespace, ensures line_ok(v.push(x)), !open_at_end(v) ==> !open_at_end(v.push(x)),
{
    let w = v.push(x);
    assert forall|i: int, j: int| 0 <= i < j < w.len() && is_lc(#[trigger] w[i]) && is_cmt(#[trigger] w[j]) implies nl_between(w, i, j) by {
        assert(j < v.len()); assert(is_lc(v[i]) && is_cmt(v[j]));
        let k = choose|k: int| i < k < j && is_nl(#[trigger] v[k]); assert(is_nl(w[k]));
    }
    if open_at_end(w) && !open_at_end(v) {
        let i = choose|i: int| 0 <= i < w.len() && is_lc(#[trigger] w[i]) && !nl_between(w, i, w.len() as int);
        assert(i < v.len()); assert(is_lc(v[i]));
        assert(nl_between(v, i, v.len() as int));
        let k = choose|k: int| i < k < v.len() && is_nl(#[trigger] v[k]); assert(is_nl(w[k]));
    }
}
// pushing any token behind a list: a comment may only be pushed when the list is not open
pub proof fn lemma_push_token(v: Seq<Token>, x: Token)
    requires line_ok(v),
    ensures (is_cmt(x) ==> !open_at_end(v)) ==> line_ok(v.push(x)),      // (stated as an implication so that code which pushes a comment behind an open line fails the loop invariant, not this call)
            open_at_end(v.push(x)) == (if is_lc(x) { true } else if is_nl(x) { false } else { open_at_end(v) }),
{
    let w = v.push(x);
    let n = v.len() as int;
    if is_cmt(x) ==> !open_at_end(v) {
    assert forall|i: int, j: int| 0 <= i < j < w.len() && is_lc(#[trigger] w[i]) && is_cmt(#[trigger] w[j]) implies nl_between(w, i, j) by {
        assert(is_lc(v[i]));
        if j < n { assert(is_cmt(v[j])); let k = choose|k: int| i < k < j && is_nl(#[trigger] v[k]); assert(is_nl(w[k])); }
        else { assert(is_cmt(x)); assert(nl_between(v, i, n)); let k = choose|k: int| i < k < n && is_nl(#[trigger] v[k]); assert(is_nl(w[k])); }
    }
    }
    if is_lc(x) {
        assert(is_lc(w[n]));
        if nl_between(w, n, w.len() as int) { let k = choose|k: int| n < k < w.len() && is_nl(#[trigger] w[k]); assert(false); }
    } else if is_nl(x) {
        if open_at_end(w) { let i = choose|i: int| 0 <= i < w.len() && is_lc(#[trigger] w[i]) && !nl_between(w, i, w.len() as int); assert(i < n); assert(is_nl(w[n])); assert(nl_between(w, i, w.len() as int)); }
    } else {
        if open_at_end(v) {
            let i = choose|i: int| 0 <= i < v.len() && is_lc(#[trigger] v[i]) && !nl_between(v, i, n);
            assert(is_lc(w[i]));
            if nl_between(w, i, w.len() as int) { let k = choose|k: int| i < k < w.len() && is_nl(#[trigger] w[k]); if k < n { assert(is_nl(v[k])); assert(nl_between(v, i, n)); } }
        }
        if open_at_end(w) {
            let i = choose|i: int| 0 <= i < w.len() && is_lc(#[trigger] w[i]) && !nl_between(w, i, w.len() as int);
            assert(i < n); assert(is_lc(v[i]));
            if nl_between(v, i, n) { let k = choose|k: int| i < k < n && is_nl(#[trigger] v[k]); assert(is_nl(w[k])); assert(nl_between(w, i, w.len() as int)); }
        }
    }
}
""", module="formatters::trivia_util"),
    ]
    return its

LABELS = {
    "C03.join_keeps_comments": dict(props=["C03"], text="join_trailing_trivia: the comments of the two lists come out in order, none dropped, none added (only whitespace is removed or created)"),
    "C03.join_line_comments_end_their_line": dict(props=["C03", "C01"], text="join_trailing_trivia: in the joined list no comment stands behind a single line comment on the same line (it would become part of that comment: D28)"),
    "C03.join_loop": dict(props=["C03", "C01"], text="join_trailing_trivia loop invariant: the comments so far are kept, no comment behind a single line comment, and the flag says whether the list ends on a line a single line comment has taken over"),
    "C11.quote_choice": dict(props=["C11", "C04"], text="get_quote_to_use: forced styles force; AutoPrefer* use the preferred quote unless the other quote character occurs strictly less often in the body"),
    "C03.token_text": dict(props=["C03", "C02", "C04", "C10"], text="format_token: token kind kept; identifiers/symbols/whitespace/interpolated strings unchanged; line comment/shebang text only right-trimmed; block comment and long string only newline-normalised (level kept); number only gets a 0 before a leading `.`; quoted string re-quoted per quote_choice with the same value (escape rewriting assumed)"),
    "C03.no_comment_created": dict(props=["C03", "C10"], text="format_token: the extra leading/trailing trivia it asks for are configured newline / indent / space tokens only"),
    "C01.line_comment_terminated": dict(props=["C01", "C03"], text="format_token: a line comment or shebang in leading trivia is followed by exactly one configured newline"),
    "C10.no_extra_trivia_for_code_tokens": dict(props=["C10", "C03"], text="format_token adds no trivia around non-comment tokens"),
    "C03.load_token_trivia": dict(props=["C03", "C10", "C01"], text="load_token_trivia: comments kept in order, each only rewritten as format_token allows; every other token it emits is whitespace it created; in leading trivia every line comment/shebang is followed by a configured newline"),
    "C03.load_comments_kept": dict(props=["C03"], text="load_token_trivia loop invariant: the comments emitted so far are exactly the comments consumed so far (pairwise fmt_tt)"),
    "C10.load_only_own_whitespace": dict(props=["C10", "C03"], text="load_token_trivia loop invariant: input whitespace is never copied; only configured newline / indent / space tokens are emitted"),
    "C01.load_line_comment_terminated": dict(props=["C01", "C03"], text="load_token_trivia loop invariant (leading trivia): each line comment is immediately followed by a newline token"),
    "C02.end_token_unchanged": dict(props=["C02"], text="format_end_token: the token itself (`end`, `}`, `)`, `until` ...) is returned unchanged"),
    "C03.end_token_comments": dict(props=["C03"], text="format_end_token: the reverse pass that drops trailing blank lines before a block-closing token drops whitespace tokens only; the comment sequence is that of load_token_trivia"),
    "C10.end_token_whitespace": dict(props=["C10"], text="format_end_token: every non-comment token left in the leading trivia is whitespace the formatter created"),
    "C03.end_token_trailing": dict(props=["C03"], text="format_end_token: trailing trivia = load_token_trivia of the input's"),
    "C03.end_token_loop": dict(props=["C03"], text="format_end_token loop invariant (reverse pass): comments kept so far = comments consumed so far"),
    "C03.tokref_token": dict(props=["C03", "C02", "C04"], text="format_token_reference: the token itself is only rewritten as format_token allows"),
    "C03.tokref_leading": dict(props=["C03", "C10", "C01"], text="format_token_reference: leading trivia = load_token_trivia of the input's leading trivia (comments kept in order)"),
    "C03.tokref_trailing": dict(props=["C03", "C10"], text="format_token_reference: trailing trivia = load_token_trivia of the input's trailing trivia"),
    "C01.tokref_open_only_if_source": dict(props=["C01"], text="format_token_reference: the formatted trailing trivia hold a line comment only if the source token's trailing trivia do (so a formatted token is open only if its source carried a line comment: the assumption format_binop / format_unop rest on in unit expr)"),
    "C01.symbol_open_only_if_source": dict(props=["C01"], text="format_symbol: same, for the replaced symbol (or the wanted symbol's own trivia)"),
    "C02.symbol_token": dict(props=["C02"], text="format_symbol: the resulting token is exactly the wanted symbol's token"),
    "C03.symbol_leading": dict(props=["C03"], text="format_symbol: comments leading the replaced symbol survive, followed by the wanted symbol's own leading trivia"),
    "C03.symbol_trailing": dict(props=["C03"], text="format_symbol: comments trailing the replaced symbol survive, after the wanted symbol's own trailing trivia"),
    "C10.pop_prefix": dict(props=["C10", "C03"], text="pop_until_no_whitespace only removes a suffix"),
    "C10.pop_no_trailing_ws": dict(props=["C10"], text="pop_until_no_whitespace leaves no trailing whitespace token"),
    "C03.pop_only_whitespace": dict(props=["C03"], text="pop_until_no_whitespace removes whitespace tokens only"),
    "C09.eof_untouched": dict(props=["C09", "C08"], text="format_eof returns the EOF token unchanged when it is ignored or out of range"),
    "C10.eof_token": dict(props=["C10"], text="format_eof: the token is EOF with no trailing trivia"),
    "C10.eof_single_newline": dict(props=["C10"], text="format_eof: when comments remain, the leading trivia ends with exactly one configured newline preceded by a non-whitespace token"),
    "C03.eof_comments": dict(props=["C03"], text="format_eof keeps the end-of-file comments (same comment sequence as load_token_trivia produced)"),
}

UNIT = Unit("tok", items() + [VERIF_MOD, C.VERIF_CTX, VERIF_TOK], LABELS, header=HEADER)
