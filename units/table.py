"""Unit `table`: src/formatters/table.rs format_field — C08 (an ignored table field is returned unchanged, nothing moved
out of it), C01 (a bracketed key printing with a leading long-bracket string is padded), C02 (field kind and key/value
trees preserved), C07 (its unreachable!/panic! arms)."""
from gen import Unit, Fn, Item, Raw, RawFile, Hole, After, Before, Loop, Between
from common import *
import block as B

TB = "src/formatters/table.rs"

SPEC = r"""
#[verifier::external_type_specification] pub struct ExField(Field);
pub open spec fn field_wf(f: Field) -> bool {
    match f {
        Field::ExpressionKey { key, value, .. } => wf(skel(key)) && wf(skel(value)),
        Field::NameKey { value, .. } => wf(skel(value)),
        Field::NoKey(e) => wf(skel(e)),
        _ => true,
    }
}
pub open spec fn same_value(e: Expression, r: Expression) -> bool { erase(skel(r)) == erase(skel(e)) }
pub open spec fn field_post(f: Field, r: Field) -> bool {
    match f {
        Field::ExpressionKey { key, value, .. } => match r {
            Field::ExpressionKey { key: rk, value: rv, .. } => same_value(key, rk) && same_value(value, rv)
                // `[ [[k]] ] = v`: a key that prints with a leading long-bracket string is separated from `[`
                && (begins_with_bracket_string(rk) ==> expr_padded_left(rk)),
            _ => false },
        Field::NameKey { key, value, .. } => match r {
            Field::NameKey { key: rk, value: rv, .. } => tok_of(rk) == tok_of(key) && same_value(value, rv),
            _ => false },
        Field::NoKey(e) => match r { Field::NoKey(re) => same_value(e, re), _ => false },
        _ => true,
    }
}
impl VNode for Field {
    open spec fn key(&self) -> NodeKey { NodeKey::Field(other_key(*self)) }
    open spec fn line_open(&self) -> bool { other_line_open(*self) }
    #[verifier::external_body] fn start_position(&self) -> (r: Option<Position>) { unimplemented!() }
    #[verifier::external_body] fn end_position(&self) -> (r: Option<Position>) { unimplemented!() }
    #[verifier::external_body] fn leading_trivia_vec(&self) -> (r: Vec<&Token>) { unimplemented!() }
}
impl VNode for ContainedSpan {
    open spec fn key(&self) -> NodeKey { NodeKey::Other(other_key(*self)) }
    open spec fn line_open(&self) -> bool { other_line_open(*self) }
    #[verifier::external_body] fn start_position(&self) -> (r: Option<Position>) { unimplemented!() }
    #[verifier::external_body] fn end_position(&self) -> (r: Option<Position>) { unimplemented!() }
    #[verifier::external_body] fn leading_trivia_vec(&self) -> (r: Vec<&Token>) { unimplemented!() }
}
pub assume_specification [<Field as Clone>::clone] (b: &Field) -> (r: Field) ensures r == *b;
#[verifier::external_body] pub fn trailing_single_comments(e: &Expression) -> (r: Vec<Token>) { unimplemented!() /* value.trailing_comments_search(CommentSearch::Single) */ }
"""

VALUE_SPEC = r"""
pub trait HasInlineComments { fn has_inline_comments(&self) -> bool; }
impl HasInlineComments for Expression { #[verifier::external_body] fn has_inline_comments(&self) -> bool { unimplemented!() } }
// the comments a trailing-trivia list holds, by kind, each with the space trailing_comments_search puts in front (class B: iterator chain)
pub uninterp spec fn expr_trailing_comments(e: Expression, single: bool) -> Seq<Token>;
#[verifier::external_body] pub fn trailing_comments_of(e: &Expression, search: CommentSearch) -> (r: Vec<Token>)
    ensures search is Single ==> r@ == expr_trailing_comments(*e, true), search is Multiline ==> r@ == expr_trailing_comments(*e, false) { unimplemented!() }
// what update_trailing_trivia(Replace(v)) leaves behind the expression
pub uninterp spec fn expr_trailing_is(e: Expression, v: Seq<Token>) -> bool;
#[verifier::external_body] pub fn replace_trailing(e: Expression, v: Vec<Token>) -> (r: Expression)
    ensures skel(r) == skel(e), expr_trailing_is(r, v@) { unimplemented!() }
#[verifier::external_body] pub fn lines_fewer(a: &Expression, b: &Expression) -> bool { unimplemented!() }
"""

def items():
    its = common_items()
    its += [
        Raw(B.SPEC, module="context"),
        Raw(SPEC),
        Fn(CTX, "should_format_node", impl_of="Context", mode="stub", sig_edits=[VN], proved_in="ctx", contract="ensures r == decision(*self, node.key()),"),
        Item(TB, "enum", "TableType", keep_derives=("Clone", "Copy")),
        Fn(GEN, "format_contained_span", mode="stub"),
        Fn(GEN, "format_token_reference", mode="stub", contract="ensures tok_of(r) == tok_of(*token_reference),"),
        Fn(EX, "format_expression", mode="stub", proved_in="expr", contract="""
    requires wf(skel(*expression)),
    ensures erase(skel(r)) == erase(skel(*expression)), begins_with_bracket_string(r) ==> may_begin_with_bracket_string(*expression),"""),
        Fn(EX, "is_brackets_string", mode="stub", proved_in="expr", contract="ensures r == may_begin_with_bracket_string(*expression),"),
        Fn(EX, "hang_expression", mode="stub", proved_in="expr", contract="""
    requires wf(skel(*expression)),
    ensures erase(skel(r)) == erase(skel(*expression)),"""),
        Fn(TU, "can_hang_expression", mode="stub"),
        Fn(TU, "join_trailing_trivia", mode="stub", proved_in="tok"),
        Raw(VALUE_SPEC, module="formatters::table"),
        Fn(TB, "take_singleline_trailing_comments", contract="""
    ensures skel(r.0) == skel(value),
        r.1@ == expr_trailing_comments(value, true), expr_trailing_is(r.0, expr_trailing_comments(value, false)), //# C03.field_value_comments
""", edits=[
            Hole("value.trailing_comments_search(CommentSearch::Single)", "trailing_comments_of(&value, CommentSearch::Single)", kind="wrapper", why="GetTrailingTrivia default method (iterator chain)"),
            Hole("value.trailing_comments_search(CommentSearch::Multiline)", "trailing_comments_of(&value, CommentSearch::Multiline)", kind="wrapper", why="GetTrailingTrivia default method (iterator chain)"),
            Hole("value.update_trailing_trivia(FormatTriviaType::Replace(multiline_comments))", "replace_trailing(value, multiline_comments)", kind="wrapper", why="update_trailing_trivia(Replace(..)) as a call that records what is left behind the value"),
        ]),
        Fn(TB, "format_field_expression_value", contract="""
    requires wf(skel(*expression)),
    ensures erase(skel(r.0)) == erase(skel(*expression)), //# C02.field_value_same
        exists|f: Expression| erase(skel(f)) == erase(skel(*expression)) && r.1@ == expr_trailing_comments(f, true) && expr_trailing_is(r.0, expr_trailing_comments(f, false)), //# C03.field_value_comments_of_formatted
""", edits=[
            Hole('''format!("{hanging_value}").lines().count()
                    < format!("{singleline_value}").lines().count()''', "lines_fewer(&hanging_value, &singleline_value)", kind="wrapper", why="Display line count of two nodes (layout choice)"),
        ]),
        Fn(TB, "handle_field_key_equals_comments", mode="stub", sig_edits=[Hole("<T: Node>", "<T: VNode>", kind="proxy", why="proxy trait for the sealed full_moon::node::Node")]),
        Fn(TB, "format_field", contract="""
    requires field_wf(*field), !(decision(*ctx, field.key()) is NotInRange),   // callers only pass fields of a table that is being formatted
    ensures
        decision(*ctx, field.key()) is Skip ==> r.0 == *field && r.1@.len() == 0, //# C08.field_skip
        !(decision(*ctx, field.key()) is Skip) ==> field_post(*field, r.0), //# C02.field_same
""", edits=[
            Hole("expression.trailing_comments_search(CommentSearch::Single)", "trailing_single_comments(expression)", kind="wrapper", why="GetTrailingTrivia default method (iterator chain)"),
            Hole("strip_trivia(&key).to_string().len()", "verif::hole_usize()", why="Display width of a node"),
        ]),
        # ---- the table loops: one formatted field per field, each by the formatter it is handed, under the ignore state folded over the fields in front of it ----
        Raw("""
#[verifier::external_type_specification] #[verifier::reject_recursive_types(T)] pub struct ExPair<T>(Pair<T>);
pub uninterp spec fn ppairs<T>(p: Punctuated<T>) -> Seq<Pair<T>>;
pub open spec fn pair_value<T>(p: Pair<T>) -> T { match p { Pair::End(v) => v, Pair::Punctuated(v, _) => v } }
pub assume_specification<T> [Punctuated::<T>::pairs] (p: &Punctuated<T>) -> (r: impl Iterator<Item = &Pair<T>>)
    ensures it_rest(&r).len() == ppairs(*p).len(), forall|i: int| 0 <= i < it_rest(&r).len() ==> *(#[trigger] it_rest(&r)[i]) == ppairs(*p)[i];
pub assume_specification<T> [Punctuated::<T>::new] () -> (r: Punctuated<T>) ensures ppairs(r).len() == 0;
pub assume_specification<T> [Punctuated::<T>::push] (p: &mut Punctuated<T>, pair: Pair<T>) ensures ppairs(*final(p)) == ppairs(*old(p)).push(pair);
pub assume_specification<T> [Pair::<T>::new] (v: T, p: Option<TokenReference>) -> (r: Pair<T>) ensures pair_value(r) == v;
pub assume_specification<T> [Pair::<T>::value] (p: &Pair<T>) -> (r: &T) ensures *r == pair_value(*p);
pub assume_specification<T> [Pair::<T>::punctuation] (p: &Pair<T>) -> (r: Option<&TokenReference>);
#[verifier::external_body] pub fn peekable<I: Iterator>(it: I) -> (r: std::iter::Peekable<I>) ensures pk_rest(&r) == it_rest(&it) { it.peekable() }
// the ignore state after the first n fields: check_toggle_formatting folded over them (field i is formatted under field_ctx(.., i + 1): the toggle of its own comments included)
pub open spec fn field_ctx<T: VNode>(c: Context, fields: Seq<Pair<T>>, n: nat) -> Context
    decreases n
{
    if n == 0 { c } else { toggle(field_ctx(c, fields, (n - 1) as nat), pair_value(fields[n - 1]).key()) }
}
// `out` is what the field formatter returns for field `f` under the ignore state `c` (for some shape, with some trailing trivia)
pub open spec fn by_formatter<T, U: Fn(&Context, &T, TableType, Shape) -> (T, Vec<Token>)>(formatter: U, c: Context, f: T, tt: TableType, out: T) -> bool {
    exists|s: Shape, v: Vec<Token>| #[trigger] formatter.ensures((&c, &f, tt, s), (out, v))
}
""", module="formatters::table"),
        Fn(CTX, "check_toggle_formatting", impl_of="Context", mode="stub", sig_edits=[VN], contract="ensures r == toggle(*self, node.key()),"),
        Fn(TB, "create_table_braces", mode="stub"),
        Fn(GEN, "format_symbol", mode="stub"),
        Fn(TB, "format_multiline_table", sig_edits=[Hole("T: std::fmt::Display + Node,", "T: VNode,", kind="proxy", why="proxy trait for the sealed Node; the Display bound is not used by the verified text")], contract="""
    requires forall|i: int, s: Shape| 0 <= i < ppairs(*fields).len() ==> #[trigger] formatter.requires((&field_ctx(*ctx, ppairs(*fields), (i + 1) as nat), &pair_value(ppairs(*fields)[i]), TableType::MultiLine, s)),
    ensures
        ppairs(r.1).len() == ppairs(*fields).len(), //# C02.table_field_count
        forall|i: int| 0 <= i < ppairs(*fields).len() ==> by_formatter(formatter, field_ctx(*ctx, ppairs(*fields), (i + 1) as nat), pair_value(#[trigger] ppairs(*fields)[i]), TableType::MultiLine, pair_value(ppairs(r.1)[i])), //# C08.table_fields_each_by_the_formatter
""", edits=[
            Hole("let current_fields = fields.pairs();", "let ghost fields0 = *fields; let ghost ctx0 = *ctx; let ghost mut k: int = 0;\n    let mut current_fields = peekable(fields.pairs());", kind="wrapper", why="the pairs of the list through the Peekable wrapper carrying the ghost sequence"),
            Hole("for pair in current_fields {", "while let Some(pair) = current_fields.next() {", kind="desugar", why="for over an iterator: written as its definition"),
            Loop("while let Some(pair) = current_fields.next()", """
        invariant
            0 <= k <= ppairs(fields0).len(),
            pk_rest(&current_fields).len() == ppairs(fields0).len() - k,
            forall|j: int| 0 <= j < pk_rest(&current_fields).len() ==> *(#[trigger] pk_rest(&current_fields)[j]) == ppairs(fields0)[k + j],
            forall|i: int, s: Shape| 0 <= i < ppairs(fields0).len() ==> #[trigger] formatter.requires((&field_ctx(ctx0, ppairs(fields0), (i + 1) as nat), &pair_value(ppairs(fields0)[i]), TableType::MultiLine, s)),
            ppairs(fields).len() == k, //# C08.table_loop
            ctx == field_ctx(ctx0, ppairs(fields0), k as nat), table_type is MultiLine,
            forall|i: int| 0 <= i < k ==> by_formatter(formatter, field_ctx(ctx0, ppairs(fields0), (i + 1) as nat), pair_value(#[trigger] ppairs(fields0)[i]), TableType::MultiLine, pair_value(ppairs(fields)[i])), //# C08.table_loop
        ensures k == ppairs(fields0).len(),
        decreases pk_rest(&current_fields).len(),
""", step="proof { k = k + 1; }"),
            After("let (formatted_field, mut trailing_trivia) = formatter(&ctx, field, table_type, shape);", "proof { assert(by_formatter(formatter, ctx, *field, table_type, formatted_field)); }"),
            Between("if trailing_trivia\n            .iter()\n            .all(trivia_util::trivia_is_whitespace)", "                .collect();\n        }", "trailing_trivia = hole_vec_token();", why="iterator chains over the trailing trivia the formatter handed back (whitespace dropped, comments re-formatted): comment handling, see C03"),
            Hole("symbol.trailing_trivia().cloned().collect(),", "hole_vec_token(),", why="iterator chain: the trailing trivia of the formatted comma; joined in front of the field's comments by join_trailing_trivia (verified in unit tok)"),
        ]),
        Fn(TB, "format_singleline_table", sig_edits=[Hole("T: std::fmt::Display,", "T: VNode,", kind="proxy", why="the Display bound is only used for a width; the proxy trait names the fields in the contract")], contract="""
    requires forall|i: int, s: Shape| 0 <= i < ppairs(*fields).len() ==> #[trigger] formatter.requires((ctx, &pair_value(ppairs(*fields)[i]), TableType::SingleLine, s)),
    ensures
        ppairs(r.1).len() == ppairs(*fields).len(), //# C02.table_field_count
        forall|i: int| 0 <= i < ppairs(*fields).len() ==> by_formatter(formatter, *ctx, pair_value(#[trigger] ppairs(*fields)[i]), TableType::SingleLine, pair_value(ppairs(r.1)[i])), //# C08.table_fields_each_by_the_formatter
""", edits=[
            Hole("let mut current_fields = fields.pairs().peekable();", "let ghost fields0 = *fields; let ghost mut k: int = 0;\n    let mut current_fields = peekable(fields.pairs());", kind="wrapper", why="Iterator::peekable through the wrapper carrying the ghost sequence"),
            Hole("assert!(trailing_trivia.is_empty());", "", why="C07 (table.rs:312): the assertion rests on the caller's invariant that a table with comments is never laid out on one line (should_expand) and on the field formatter handing back only comments — not derivable here; assumed, exercised by the panic oracle of the sweeps"),
            Hole("shape = shape + (formatted_field.to_string().len() + 2); // 2 = \", \"", "shape = shape + hole_usize();", why="Display width of the field"),
            After("let (formatted_field, trailing_trivia) = formatter(ctx, field, table_type, shape);", "proof { assert(by_formatter(formatter, *ctx, *field, table_type, formatted_field)); }"),
            Loop("while let Some(pair) = current_fields.next()", """
        invariant
            0 <= k <= ppairs(fields0).len(),
            pk_rest(&current_fields).len() == ppairs(fields0).len() - k,
            forall|j: int| 0 <= j < pk_rest(&current_fields).len() ==> *(#[trigger] pk_rest(&current_fields)[j]) == ppairs(fields0)[k + j],
            forall|i: int, s: Shape| 0 <= i < ppairs(fields0).len() ==> #[trigger] formatter.requires((ctx, &pair_value(ppairs(fields0)[i]), TableType::SingleLine, s)),
            table_type is SingleLine,
            ppairs(fields).len() == k, //# C08.table_loop
            forall|i: int| 0 <= i < k ==> by_formatter(formatter, *ctx, pair_value(#[trigger] ppairs(fields0)[i]), TableType::SingleLine, pair_value(ppairs(fields)[i])), //# C08.table_loop
        ensures k == ppairs(fields0).len(),
        decreases pk_rest(&current_fields).len(),
""", step="proof { k = k + 1; }"),
        ]),
        Raw("""
pub uninterp spec fn tc_fields(t: TableConstructor) -> Punctuated<Field>;
pub assume_specification [TableConstructor::fields] (t: &TableConstructor) -> (r: &Punctuated<Field>) ensures *r == tc_fields(*t);
pub assume_specification [TableConstructor::braces] (t: &TableConstructor) -> (r: &ContainedSpan);
pub assume_specification [TableConstructor::new] () -> (r: TableConstructor);
pub assume_specification [TableConstructor::with_braces] (t: TableConstructor, b: ContainedSpan) -> (r: TableConstructor) ensures tc_fields(r) == tc_fields(t);
pub assume_specification [TableConstructor::with_fields] (t: TableConstructor, f: Punctuated<Field>) -> (r: TableConstructor) ensures tc_fields(r) == f;
#[verifier::external_body] pub fn first_field(fields: &Punctuated<Field>) -> (r: Option<&Field>) ensures (r is Some) == (ppairs(*fields).len() > 0) { unimplemented!() /* fields.iter().next() */ }
#[verifier::external_body] pub fn choose_nonempty_layout() -> (r: TableType) ensures !(r is Empty) { unimplemented!() }
// a field of a table, under the ignore state it is formatted with: ignored => returned as it is; otherwise the same field (kind, key, value trees)
pub open spec fn field_ok(c: Context, f: Field, out: Field) -> bool {
    (decision(c, f.key()) is Skip ==> out == f) && (!(decision(c, f.key()) is Skip) ==> field_post(f, out))
}
""", module="formatters::table"),
        Fn(TB, "expression_is_multiline_function", mode="stub"),
        Fn(TB, "should_expand", contract="""
    // total (C07): the `unknown node` arm is an obligation over every kind of table field the feature set knows; the loop ends with the fields
""", edits=[
            Between("let (start_brace, end_brace) = table_constructor.braces().tokens();", "|| trivia_util::table_fields_contains_comments(table_constructor);", "let contains_comments = hole_bool();", why="iterator chains over the trivia of the braces and the fields: are there comments (layout decision only)"),
            Hole("for field in table_constructor.fields() {", "let mut vx_it = peekable(table_constructor.fields().pairs());\n        while let Some(vx_pair) = vx_it.next() {\n            let field = vx_pair.value();", kind="desugar", why="for over `&Punctuated` (its values in order): written as the loop over its pairs, through the Peekable wrapper"),
            Loop("while let Some(vx_pair) = vx_it.next()", """
            decreases pk_rest(&vx_it).len(),
"""),
        ]),
        Fn(TB, "format_table_constructor", contract="""
    requires
        forall|i: int| 0 <= i < ppairs(tc_fields(*table_constructor)).len() ==> field_wf(pair_value(#[trigger] ppairs(tc_fields(*table_constructor))[i])),
        // a table that is formatted lies inside the range, and so do its fields (whatever the ignore state)
        forall|i: int, c: Context| 0 <= i < ppairs(tc_fields(*table_constructor)).len() ==> !(#[trigger] decision(c, pair_value(ppairs(tc_fields(*table_constructor))[i]).key()) is NotInRange),
    ensures
        ppairs(tc_fields(r)).len() == ppairs(tc_fields(*table_constructor)).len(), //# C02.table_constructor_fields
        (forall|i: int| 0 <= i < ppairs(tc_fields(*table_constructor)).len() ==> field_ok(field_ctx(*ctx, ppairs(tc_fields(*table_constructor)), (i + 1) as nat), pair_value(#[trigger] ppairs(tc_fields(*table_constructor))[i]), pair_value(ppairs(tc_fields(r))[i])))
        || (forall|i: int| 0 <= i < ppairs(tc_fields(*table_constructor)).len() ==> field_ok(*ctx, pair_value(#[trigger] ppairs(tc_fields(*table_constructor))[i]), pair_value(ppairs(tc_fields(r))[i]))), //# C08.table_constructor_fields
""", edits=[
            Hole('const BRACE_LEN: usize = "{".len();', "", why="a width used inside the layout choice only"),
            Between("match table_constructor.fields().iter().next() {\n        Some(_) => {", "                }\n            }\n        }\n",
                    "match first_field(table_constructor.fields()) {\n        Some(_) => { choose_nonempty_layout() }\n",
                    why="the layout choice for a table that has fields (positions of the braces in the input, column width, should_expand): one line or several, never `Empty`"),
        ]),
    ]
    return its

LABELS = {
    "C08.field_skip": dict(props=["C08"], text="format_field returns a table field carrying `-- stylua: ignore` (or inside an ignore region) unchanged, and moves no trailing comment out of it"),
    "C03.field_value_comments": dict(props=["C03"], text="take_singleline_trailing_comments: the line comments trailing the value are returned (to be printed behind the comma) and exactly its block comments stay behind it — both read from the same value, so none is dropped"),
    "C03.field_value_comments_of_formatted": dict(props=["C03"], text="format_field_expression_value: the comments it hands on are those trailing the formatted value (after redundant parentheses are removed), not those of the original expression"),
    "C02.field_value_same": dict(props=["C02"], text="format_field_expression_value keeps the value's expression tree whichever layout it picks"),
    "C02.table_field_count": dict(props=["C02", "C08"], text="format_multiline_table: as many fields as the input"),
    "C08.table_fields_each_by_the_formatter": dict(props=["C08", "C02"], text="format_multiline_table: field i of the result is what the field formatter returns for field i of the input under the ignore state folded over the fields up to it (so an ignored field, which the formatter returns unchanged, stays unchanged, in its place)"),
    "C08.table_loop": dict(props=["C08", "C02"], text="format_multiline_table loop invariant: the fields pushed so far correspond one to one to the input's, each the formatter's result under the folded ignore state"),
    "C02.table_constructor_fields": dict(props=["C02", "C08"], text="format_table_constructor: as many fields as the input (the `Empty` layout, which drops the field list, is only chosen for a table without fields)"),
    "C08.table_constructor_fields": dict(props=["C08", "C02"], text="format_table_constructor: every field is format_field's result for the field in the same place, under the ignore state folded over the fields up to it (multi-line layout) or the table's own (one-line layout): an ignored field is returned as it is, any other keeps kind, key and value trees"),
    "C02.field_same": dict(props=["C02", "C01"], text="format_field keeps the field kind, the key token / key expression tree and the value's expression tree; a bracketed key that prints with a leading long-bracket string is padded with a space"),
}

UNIT = Unit("table", items() + [VERIF_MOD], LABELS, macros=[(GEN, "fmt_symbol")], header=HEADER.replace("use full_moon::ast::{Expression,", "use full_moon::ast::{Field, Expression,") + "use full_moon::ast::punctuated::Pair;\n")
