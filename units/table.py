"""Unit `table`: src/formatters/table.rs format_field — C08 (an ignored table field is returned unchanged, nothing moved
out of it), C01 (a bracketed key printing with a leading long-bracket string is padded), C02 (field kind and key/value
trees preserved), C07 (its unreachable!/panic! arms)."""
from gen import Unit, Fn, Item, Raw, RawFile, Hole, After, Before, Loop, Between
from common import *
import block as B

TB = "src/formatters/table.rs"

SPEC = r"""
#[verifier::external_type_specification] pub struct ExField(Field);
pub open spec fn field_wf(f: Field) -> bool {
    match f {
        Field::ExpressionKey { key, value, .. } => wf(skel(key)) && wf(skel(value)),
        Field::NameKey { value, .. } => wf(skel(value)),
        Field::NoKey(e) => wf(skel(e)),
        _ => true,
    }
}
pub open spec fn same_value(e: Expression, r: Expression) -> bool { erase(skel(r)) == erase(skel(e)) }
pub open spec fn field_post(f: Field, r: Field) -> bool {
    match f {
        Field::ExpressionKey { key, value, .. } => match r {
            Field::ExpressionKey { key: rk, value: rv, .. } => same_value(key, rk) && same_value(value, rv)
                // `[ [[k]] ] = v`: a key that prints with a leading long-bracket string is separated from `[`
                && (begins_with_bracket_string(rk) ==> expr_padded_left(rk)),
            _ => false },
        Field::NameKey { key, value, .. } => match r {
            Field::NameKey { key: rk, value: rv, .. } => tok_of(rk) == tok_of(key) && same_value(value, rv),
            _ => false },
        Field::NoKey(e) => match r { Field::NoKey(re) => same_value(e, re), _ => false },
        _ => true,
    }
}
impl VNode for Field {
    open spec fn key(&self) -> NodeKey { NodeKey::Field(other_key(*self)) }
    open spec fn line_open(&self) -> bool { other_line_open(*self) }
    #[verifier::external_body] fn start_position(&self) -> (r: Option<Position>) { unimplemented!() }
    #[verifier::external_body] fn end_position(&self) -> (r: Option<Position>) { unimplemented!() }
    #[verifier::external_body] fn leading_trivia_vec(&self) -> (r: Vec<&Token>) { unimplemented!() }
}
impl VNode for ContainedSpan {
    open spec fn key(&self) -> NodeKey { NodeKey::Other(other_key(*self)) }
    open spec fn line_open(&self) -> bool { other_line_open(*self) }
    #[verifier::external_body] fn start_position(&self) -> (r: Option<Position>) { unimplemented!() }
    #[verifier::external_body] fn end_position(&self) -> (r: Option<Position>) { unimplemented!() }
    #[verifier::external_body] fn leading_trivia_vec(&self) -> (r: Vec<&Token>) { unimplemented!() }
}
pub assume_specification [<Field as Clone>::clone] (b: &Field) -> (r: Field) ensures r == *b;
#[verifier::external_body] pub fn trailing_single_comments(e: &Expression) -> (r: Vec<Token>) { unimplemented!() /* value.trailing_comments_search(CommentSearch::Single) */ }
"""

VALUE_SPEC = r"""
pub trait HasInlineComments { fn has_inline_comments(&self) -> bool; }
impl HasInlineComments for Expression { #[verifier::external_body] fn has_inline_comments(&self) -> bool { unimplemented!() } }
// the comments a trailing-trivia list holds, by kind, each with the space trailing_comments_search puts in front (class B: iterator chain)
pub uninterp spec fn expr_trailing_comments(e: Expression, single: bool) -> Seq<Token>;
#[verifier::external_body] pub fn trailing_comments_of(e: &Expression, search: CommentSearch) -> (r: Vec<Token>)
    ensures search is Single ==> r@ == expr_trailing_comments(*e, true), search is Multiline ==> r@ == expr_trailing_comments(*e, false) { unimplemented!() }
// what update_trailing_trivia(Replace(v)) leaves behind the expression
pub uninterp spec fn expr_trailing_is(e: Expression, v: Seq<Token>) -> bool;
#[verifier::external_body] pub fn replace_trailing(e: Expression, v: Vec<Token>) -> (r: Expression)
    ensures skel(r) == skel(e), expr_trailing_is(r, v@) { unimplemented!() }
#[verifier::external_body] pub fn lines_fewer(a: &Expression, b: &Expression) -> bool { unimplemented!() }
"""

def items():
    its = common_items()
    its += [
        Raw(B.SPEC, module="context"),
        Raw(SPEC),
        Fn(CTX, "should_format_node", impl_of="Context", mode="stub", sig_edits=[VN], proved_in="ctx", contract="ensures r == decision(*self, node.key()),"),
        Item(TB, "enum", "TableType", keep_derives=("Clone", "Copy")),
        Fn(GEN, "format_contained_span", mode="stub"),
        Fn(GEN, "format_token_reference", mode="stub", contract="ensures tok_of(r) == tok_of(*token_reference),"),
        Fn(EX, "format_expression", mode="stub", proved_in="expr", contract="""
    requires wf(skel(*expression)),
    ensures erase(skel(r)) == erase(skel(*expression)), begins_with_bracket_string(r) ==> may_begin_with_bracket_string(*expression),"""),
        Fn(EX, "is_brackets_string", mode="stub", proved_in="expr", contract="ensures r == may_begin_with_bracket_string(*expression),"),
        Fn(EX, "hang_expression", mode="stub", proved_in="expr", contract="""
    requires wf(skel(*expression)),
    ensures erase(skel(r)) == erase(skel(*expression)),"""),
        Fn(TU, "can_hang_expression", mode="stub"),
        Raw(VALUE_SPEC, module="formatters::table"),
        Fn(TB, "take_singleline_trailing_comments", contract="""
    ensures skel(r.0) == skel(value),
        r.1@ == expr_trailing_comments(value, true), expr_trailing_is(r.0, expr_trailing_comments(value, false)), //# C03.field_value_comments
""", edits=[
            Hole("value.trailing_comments_search(CommentSearch::Single)", "trailing_comments_of(&value, CommentSearch::Single)", kind="wrapper", why="GetTrailingTrivia default method (iterator chain)"),
            Hole("value.trailing_comments_search(CommentSearch::Multiline)", "trailing_comments_of(&value, CommentSearch::Multiline)", kind="wrapper", why="GetTrailingTrivia default method (iterator chain)"),
            Hole("value.update_trailing_trivia(FormatTriviaType::Replace(multiline_comments))", "replace_trailing(value, multiline_comments)", kind="wrapper", why="update_trailing_trivia(Replace(..)) as a call that records what is left behind the value"),
        ]),
        Fn(TB, "format_field_expression_value", contract="""
    requires wf(skel(*expression)),
    ensures erase(skel(r.0)) == erase(skel(*expression)), //# C02.field_value_same
        exists|f: Expression| erase(skel(f)) == erase(skel(*expression)) && r.1@ == expr_trailing_comments(f, true) && expr_trailing_is(r.0, expr_trailing_comments(f, false)), //# C03.field_value_comments_of_formatted
""", edits=[
            Hole('''format!("{hanging_value}").lines().count()
                    < format!("{singleline_value}").lines().count()''', "lines_fewer(&hanging_value, &singleline_value)", kind="wrapper", why="Display line count of two nodes (layout choice)"),
        ]),
        Fn(TB, "handle_field_key_equals_comments", mode="stub", sig_edits=[Hole("<T: Node>", "<T: VNode>", kind="proxy", why="proxy trait for the sealed full_moon::node::Node")]),
        Fn(TB, "format_field", contract="""
    requires field_wf(*field), !(decision(*ctx, field.key()) is NotInRange),   // callers only pass fields of a table that is being formatted
    ensures
        decision(*ctx, field.key()) is Skip ==> r.0 == *field && r.1@.len() == 0, //# C08.field_skip
        !(decision(*ctx, field.key()) is Skip) ==> field_post(*field, r.0), //# C02.field_same
""", edits=[
            Hole("expression.trailing_comments_search(CommentSearch::Single)", "trailing_single_comments(expression)", kind="wrapper", why="GetTrailingTrivia default method (iterator chain)"),
            Hole("strip_trivia(&key).to_string().len()", "verif::hole_usize()", why="Display width of a node"),
        ]),
    ]
    return its

LABELS = {
    "C08.field_skip": dict(props=["C08"], text="format_field returns a table field carrying `-- stylua: ignore` (or inside an ignore region) unchanged, and moves no trailing comment out of it"),
    "C03.field_value_comments": dict(props=["C03"], text="take_singleline_trailing_comments: the line comments trailing the value are returned (to be printed behind the comma) and exactly its block comments stay behind it — both read from the same value, so none is dropped"),
    "C03.field_value_comments_of_formatted": dict(props=["C03"], text="format_field_expression_value: the comments it hands on are those trailing the formatted value (after redundant parentheses are removed), not those of the original expression"),
    "C02.field_value_same": dict(props=["C02"], text="format_field_expression_value keeps the value's expression tree whichever layout it picks"),
    "C02.field_same": dict(props=["C02", "C01"], text="format_field keeps the field kind, the key token / key expression tree and the value's expression tree; a bracketed key that prints with a leading long-bracket string is padded with a space"),
}

UNIT = Unit("table", items() + [VERIF_MOD], LABELS, macros=[(GEN, "fmt_symbol")], header=HEADER.replace("use full_moon::ast::{Expression,", "use full_moon::ast::{Field, Expression,"))
