"""Unit `diff`: src/cli/output_diff.rs output_diff_json (C18: None iff no change; line ranges of every
mismatch computed from the similar::DiffOp without underflow and covering exactly the op's old lines)."""
from gen import Unit, Fn, Item, Raw, RawFile, Hole, After, Before, Loop, Between

OD = "src/cli/output_diff.rs"
HEADER = """
use similar::DiffOp;
"""

PRELUDE = r"""
#[verifier::external_type_specification] pub struct ExDiffOp(DiffOp);

// ---- spec of the part of `similar` this function relies on (class B, assumed) ----
// ops of TextDiff::from_lines(old, new).grouped_ops(0): no op is empty, and there is no op iff the texts are equal
pub uninterp spec fn line_ops(old: Seq<char>, new: Seq<char>) -> Seq<Seq<DiffOp>>;
pub open spec fn op_nonempty(op: DiffOp) -> bool {
    match op {
        DiffOp::Equal { len, .. } => len >= 1,
        DiffOp::Delete { old_len, old_index, .. } => old_len >= 1 && old_index + old_len <= usize::MAX,
        DiffOp::Insert { new_len, new_index, .. } => new_len >= 1 && new_index + new_len <= usize::MAX,
        DiffOp::Replace { old_len, new_len, old_index, new_index } => old_len >= 1 && new_len >= 1 && old_index + old_len <= usize::MAX && new_index + new_len <= usize::MAX,
    }
}
pub struct Diffed { pub ghost old: Seq<char>, pub ghost new: Seq<char> }
#[verifier::external_body]
pub fn text_diff_grouped_ops(old: &str, new: &str) -> (r: Vec<Vec<DiffOp>>)
    ensures r@.len() == line_ops(old@, new@).len(),
            forall|i: int| 0 <= i < r@.len() ==> (#[trigger] r@[i])@ == line_ops(old@, new@)[i],
            forall|i: int, j: int| 0 <= i < r@.len() && 0 <= j < r@[i]@.len() ==> op_nonempty(#[trigger] r@[i]@[j]),
            (r@.len() == 0) == (old@ == new@),
{ unimplemented!() }
// iterator chains over text_diff.iter_changes(&op): the text they collect is not constrained here
#[verifier::external_body] pub fn changes_text(old: &str, new: &str, op: &DiffOp, which: u8) -> (r: String) { unimplemented!() }

// what each mismatch must say about the op it was made from (0-based inclusive line ranges)
pub open spec fn mismatch_for(op: DiffOp, m: DiffMismatch) -> bool {
    match op {
        DiffOp::Replace { old_index, old_len, new_index, new_len } =>
            m.original_start_line == old_index && m.original_end_line == old_index + old_len - 1
            && m.expected_start_line == new_index && m.expected_end_line == new_index + new_len - 1,
        DiffOp::Delete { old_index, old_len, new_index } =>
            m.original_start_line == old_index && m.original_end_line == old_index + old_len - 1 && m.expected@.len() == 0,
        DiffOp::Insert { old_index, new_index, new_len } =>
            m.original_start_line == old_index && m.original@.len() == 0
            && m.expected_start_line == new_index && m.expected_end_line == new_index + new_len - 1,
        DiffOp::Equal { .. } => false,
    }
}
pub open spec fn explained(ops: Seq<Seq<DiffOp>>, m: DiffMismatch) -> bool {
    exists|i: int, j: int| 0 <= i < ops.len() && 0 <= j < ops[i].len() && #[trigger] mismatch_for(ops[i][j], m)
}
"""

VERIF = r"""
#[verifier::external_body] pub fn empty_string() -> (r: String) ensures r@.len() == 0 { unimplemented!() }
"""

REPL_ORIG = """text_diff
                        .iter_changes(&op)
                        .filter(|change| matches!(change.tag(), ChangeTag::Delete))
                        .map(|change| change.value())
                        .collect()"""
REPL_EXP = """text_diff
                        .iter_changes(&op)
                        .filter(|change| matches!(change.tag(), ChangeTag::Insert))
                        .map(|change| change.value())
                        .collect()"""
DEL_ACTUAL = """let actual = text_diff
                        .iter_changes(&op)
                        .next()
                        .expect("no actual change present in diff/delete");"""
INS_EXPECTED = """let expected = text_diff
                        .iter_changes(&op)
                        .next()
                        .expect("no actual change present in diff/insert");"""

def items():
    return [
        Raw(PRELUDE),
        Raw(VERIF, module="verif"),
        Item(OD, "struct", "DiffMismatch", keep_derives=()),
        Fn(OD, "output_diff_json", contract="""
    ensures
        (r is None) == (old@ == new@), //# C18.json_none_iff_equal
        r is Some ==> forall|k: int| 0 <= k < r->Some_0@.len() ==> explained(line_ops(old@, new@), #[trigger] r->Some_0@[k]), //# C18.json_ranges
""", edits=[
            Hole("let text_diff = TextDiff::from_lines(old, new);", "", why="similar::TextDiff is used through text_diff_grouped_ops (assumed spec)"),
            Hole("text_diff.grouped_ops(0)", "text_diff_grouped_ops(old, new)", kind="wrapper", why="similar::TextDiff::from_lines(..).grouped_ops(0)"),
            Hole(REPL_ORIG, "changes_text(old, new, &op, 0)", why="iterator chain collecting the deleted lines"),
            Hole(REPL_EXP, "changes_text(old, new, &op, 1)", why="iterator chain collecting the inserted lines"),
            Hole(DEL_ACTUAL, "let actual = changes_text(old, new, &op, 2);", why="first change of a Delete op (text only)"),
            Hole(INS_EXPECTED, "let expected = changes_text(old, new, &op, 3);", why="first change of an Insert op (text only)"),
            Hole('original: actual.to_string(),', 'original: actual,', why="to_string of the change"),
            Hole('expected: expected.to_string(),', 'expected: expected,', why="to_string of the change"),
            Hole('expected: "".to_string(),', 'expected: verif::empty_string(),', kind="wrapper", why='"".to_string()'),
            Hole('original: "".to_string(),', 'original: verif::empty_string(),', kind="wrapper", why='"".to_string()'),
            After("let mut mismatches = Vec::with_capacity(grouped_ops.len());", "let ghost all = grouped_ops@;"),
            # proof hints after each push (ghost only): the witness of `explained` is the op at hand
            Hole("""                        original,
                        expected,
                    });""", """                        original,
                        expected,
                    });
                    proof { let ghost ops = line_ops(old@, new@); assert(ops[gi.index@ as int][oi.index@ as int] == op); assert(mismatch_for(ops[gi.index@ as int][oi.index@ as int], mismatches@.last())); assert(explained(ops, mismatches@.last())); }""", kind="ghost-insert"),
            Hole("""                        expected: verif::empty_string(),
                    })""", """                        expected: verif::empty_string(),
                    });
                    proof { let ghost ops = line_ops(old@, new@); assert(ops[gi.index@ as int][oi.index@ as int] == op); assert(mismatch_for(ops[gi.index@ as int][oi.index@ as int], mismatches@.last())); assert(explained(ops, mismatches@.last())); }""", kind="ghost-insert"),
            Hole("""                        expected: expected,
                    })""", """                        expected: expected,
                    });
                    proof { let ghost ops = line_ops(old@, new@); assert(ops[gi.index@ as int][oi.index@ as int] == op); assert(mismatch_for(ops[gi.index@ as int][oi.index@ as int], mismatches@.last())); assert(explained(ops, mismatches@.last())); }""", kind="ghost-insert"),
            Hole("for group in grouped_ops {", "for group in gi: grouped_ops {", kind="ghost-name", why="names Verus' ghost iterator of the loop (no executable effect)"),
            Hole("for op in group {", "for op in oi: group {", kind="ghost-name", why="names Verus' ghost iterator of the loop (no executable effect)"),
            Loop("for group in gi: grouped_ops", """
        invariant
            gi.seq() == all,
            all.len() == line_ops(old@, new@).len(),
            forall|i: int| 0 <= i < all.len() ==> (#[trigger] all[i])@ == line_ops(old@, new@)[i],
            forall|i: int, j: int| 0 <= i < all.len() && 0 <= j < all[i]@.len() ==> op_nonempty(#[trigger] all[i]@[j]),
            forall|k: int| 0 <= k < mismatches@.len() ==> explained(line_ops(old@, new@), #[trigger] mismatches@[k]), //# C18.json_loop
"""),
            Loop("for op in oi: group", """
            invariant
                0 <= gi.index@ < all.len(), oi.seq() == all[gi.index@ as int]@,
                all.len() == line_ops(old@, new@).len(),
                forall|i: int| 0 <= i < all.len() ==> (#[trigger] all[i])@ == line_ops(old@, new@)[i],
                forall|i: int, j: int| 0 <= i < all.len() && 0 <= j < all[i]@.len() ==> op_nonempty(#[trigger] all[i]@[j]),
                forall|k: int| 0 <= k < mismatches@.len() ==> explained(line_ops(old@, new@), #[trigger] mismatches@[k]), //# C18.json_inner_loop
"""),
        ]),
    ]

LABELS = {
    "C18.json_none_iff_equal": dict(props=["C18", "C13"], text="output_diff_json returns None exactly when the two texts are equal"),
    "C18.json_ranges": dict(props=["C18"], text="every JSON mismatch carries the 0-based inclusive line ranges of the diff op it was made from (old_index .. old_index+old_len-1, new_index .. new_index+new_len-1), computed without underflow"),
    "C18.json_loop": dict(props=["C18"], text="outer loop invariant of output_diff_json"),
    "C18.json_inner_loop": dict(props=["C18"], text="inner loop invariant of output_diff_json"),
}

UNIT = Unit("diff", items(), LABELS, header=HEADER, externs=("similar",), feature_sets=("default",))
