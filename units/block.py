"""Unit `block`: format_block / format_stmt / format_last_stmt / check_stmt_requires_semicolon.
C08 (ignored statements verbatim, with their semicolon), C09 (out-of-range statements untouched),
C01.4 (statement separator kept where the next statement starts with `(`), C02 (statement order/kind)."""
from gen import Unit, Fn, Item, Raw, RawFile, Hole, After, Before, Loop, Between
from common import *

BLK = "src/formatters/block.rs"
STM = "src/formatters/stmt.rs"

SPEC = r"""
// ---- spec: the decision should_format_node takes (proved against the real text in unit `ctx`) ----
pub uninterp spec fn has_ignore(k: NodeKey) -> bool;          // leading comments contain a `stylua: ignore` line
pub uninterp spec fn toggled(disabled: bool, k: NodeKey) -> bool; // fold of `ignore start` / `ignore end` lines
pub open spec fn range_decision(range: Option<Range>, k: NodeKey) -> FormatNode {
    match range {
        Some(range) => {
            if range.start is Some && node_start(k) is Some && pos_bytes(node_start(k)->Some_0) < range.start->Some_0 { FormatNode::NotInRange }
            else if range.end is Some && node_end(k) is Some && pos_bytes(node_end(k)->Some_0) > range.end->Some_0 { FormatNode::NotInRange }
            else { FormatNode::Normal }
        }
        None => FormatNode::Normal,
    }
}
pub open spec fn decision(c: Context, k: NodeKey) -> FormatNode {
    if c.formatting_disabled { FormatNode::Skip } else if has_ignore(k) { FormatNode::Skip } else { range_decision(c.range, k) }
}
pub open spec fn toggle(c: Context, k: NodeKey) -> Context {
    Context { formatting_disabled: toggled(c.formatting_disabled, k), ..c }
}
"""

SPEC_STMT = r"""
// ---- spec: meaning of a statement modulo trivia (uninterpreted per payload), statement shape facts ----
pub uninterp spec fn last_sem(s: LastStmt) -> int;
// `r` differs from `s` at most inside nested blocks (what range formatting may still touch)
pub uninterp spec fn blocks_only(s: Stmt, r: Stmt) -> bool;
pub uninterp spec fn last_blocks_only(s: LastStmt, r: LastStmt) -> bool;

// accessors of full_moon nodes used by the separator rule (class A)
pub uninterp spec fn fc_prefix(f: FunctionCall) -> Prefix;
pub uninterp spec fn asg_first_var(a: Assignment) -> Option<Var>;
pub uninterp spec fn ve_prefix(v: VarExpression) -> Prefix;
#[cfg(feature = "luau")] pub uninterp spec fn ca_lhs(c: full_moon::ast::luau::CompoundAssignment) -> Var;

pub open spec fn prefix_is_paren(p: Prefix) -> bool {
    match p { Prefix::Expression(e) => *e is Parentheses, _ => false }
}
pub open spec fn var_starts_with_paren(v: Var) -> bool {
    match v { Var::Expression(ve) => prefix_is_paren(ve_prefix(*ve)), _ => false }
}
// written from the Lua manual §3.3.1: a statement begins with `(` iff it is a call / assignment (/ Luau
// compound assignment) whose first prefix expression is parenthesised
pub open spec fn starts_with_paren(s: Stmt) -> bool {
    match s {
        Stmt::FunctionCall(fc) => prefix_is_paren(fc_prefix(fc)),
        Stmt::Assignment(a) => asg_first_var(a) is Some && var_starts_with_paren(asg_first_var(a)->Some_0),
        #[cfg(feature = "luau")]
        Stmt::CompoundAssignment(c) => var_starts_with_paren(ca_lhs(c)),
        _ => false,
    }
}
// ... and a statement can be continued by a call suffix iff it ends with an expression
pub open spec fn ends_with_expression(s: Stmt) -> bool {
    match s {
        Stmt::Assignment(_) => true, Stmt::LocalAssignment(_) => true, Stmt::FunctionCall(_) => true, Stmt::Repeat(_) => true,
        #[cfg(feature = "luau")]
        Stmt::CompoundAssignment(_) => true,
        _ => false,
    }
}
pub open spec fn ambiguous(s: Stmt, next: Option<Stmt>) -> bool {
    ends_with_expression(s) && next is Some && starts_with_paren(next->Some_0)
}
// the context in force at statement i of a block (ignore start/end toggles folded from the left)
pub open spec fn ctx_at(c: Context, s: Seq<StmtSemi>, i: int) -> Context
    decreases i
{
    if i <= 0 { toggle(c, NodeKey::Stmt(s[0].0)) } else { toggle(ctx_at(c, s, i - 1), NodeKey::Stmt(s[i].0)) }
}
pub open spec fn ctx_end(c: Context, s: Seq<StmtSemi>) -> Context {
    if s.len() == 0 { c } else { ctx_at(c, s, s.len() - 1) }
}
"""

FM_STMT_SPECS = r"""
pub assume_specification [FunctionCall::prefix] (f: &FunctionCall) -> (r: &Prefix) ensures *r == fc_prefix(*f);
pub assume_specification [VarExpression::prefix] (f: &VarExpression) -> (r: &Prefix) ensures *r == ve_prefix(*f);
#[cfg(feature = "luau")]
pub assume_specification [full_moon::ast::luau::CompoundAssignment::lhs] (f: &full_moon::ast::luau::CompoundAssignment) -> (r: &Var) ensures *r == ca_lhs(*f);
pub assume_specification [<Stmt as Clone>::clone] (b: &Stmt) -> (r: Stmt) ensures r == *b;
pub assume_specification [<LastStmt as Clone>::clone] (b: &LastStmt) -> (r: LastStmt) ensures r == *b;
#[verifier::external_body]
pub fn first_var(a: &Assignment) -> (r: Option<&Var>) ensures (r is Some) == (asg_first_var(*a) is Some), r is Some ==> *r->Some_0 == asg_first_var(*a)->Some_0 { a.variables().iter().next() }
"""

STMT_TRAITS = r"""
impl UpdateTrailingTrivia for Stmt {
    open spec fn same_sem_t(&self, r: &Self) -> bool { stmt_sem(*r) == stmt_sem(*self) && ends_with_expression(*r) == ends_with_expression(*self) }
    open spec fn trail_ok(&self, t: FormatTriviaType, r: &Self) -> bool { true }
    open spec fn not_open(&self) -> bool { other_closed(*self) }
    #[verifier::external_body] fn update_trailing_trivia(&self, trailing_trivia: FormatTriviaType) -> (r: Self) { unimplemented!() }
}
impl UpdateTrailingTrivia for LastStmt {
    open spec fn same_sem_t(&self, r: &Self) -> bool { last_sem(*r) == last_sem(*self) }
    open spec fn trail_ok(&self, t: FormatTriviaType, r: &Self) -> bool { true }
    open spec fn not_open(&self) -> bool { other_closed(*self) }
    #[verifier::external_body] fn update_trailing_trivia(&self, trailing_trivia: FormatTriviaType) -> (r: Self) { unimplemented!() }
}
impl GetTrailingTrivia for LastStmt {
    open spec fn ends_open(&self) -> bool { false }
    #[verifier::external_body] fn trailing_trivia(&self) -> Vec<Token> { unimplemented!() }
    #[verifier::external_body] fn has_trailing_comments(&self, search: CommentSearch) -> (r: bool) { unimplemented!() }
    #[verifier::external_body] fn trailing_comments(&self) -> Vec<Token> { unimplemented!() }
}
impl UpdateTrivia for LastStmt {
    open spec fn same_sem_u(&self, r: &Self) -> bool { last_sem(*r) == last_sem(*self) }
    open spec fn trivia_ok(&self, l: FormatTriviaType, t: FormatTriviaType, r: &Self) -> bool { true }
    #[verifier::external_body] fn update_trivia(&self, leading_trivia: FormatTriviaType, trailing_trivia: FormatTriviaType) -> (r: Self) { unimplemented!() }
}
"""

SEMI_COMMENTS = """let semicolon_comments: Vec<Token> = semi
                        .leading_trivia()
                        .chain(semi.trailing_trivia())
                        .filter(|token| trivia_util::trivia_is_comment(token))
                        .flat_map(|x| {
                            // Prepend a single space beforehand
                            // The comment itself is formatted like any other (trailing whitespace, line endings)
                            vec![
                                Token::new(TokenType::spaces(1)),
                                format_token(&ctx, x, FormatTokenType::Token, shape).0,
                            ]
                        })
                        .collect();"""

BLOCK_INV = """
        invariant
            0 <= k <= block_stmts(block).len(),
            pk_rest(&stmt_iterator).len() == block_stmts(block).len() - k,
            forall|j: int| 0 <= j < pk_rest(&stmt_iterator).len() ==> *(#[trigger] pk_rest(&stmt_iterator)[j]) == block_stmts(block)[k + j],
            formatted_statements@.len() == k,
            k > 0 ==> ctx == ctx_at(ctx0, block_stmts(block), k - 1),
            k == 0 ==> ctx == ctx0,
            forall|i: int| 0 <= i < k ==> #[trigger] stmt_ok(ctx_at(ctx0, block_stmts(block), i), block_stmts(block), i, formatted_statements@[i]), //# C08.block_loop
        ensures k == block_stmts(block).len(),
        decreases pk_rest(&stmt_iterator).len(),
"""

SPEC_BLOCK = r"""
// what format_block owes for statement i of the input, given the context in force there
pub open spec fn stmt_ok(c: Context, ins: Seq<StmtSemi>, i: int, out: StmtSemi) -> bool {
    let d = decision(c, NodeKey::Stmt(ins[i].0));
    let next = if i + 1 < ins.len() { Some(ins[i + 1].0) } else { None };
    &&& (d is Skip ==> out == ins[i])
    &&& (d is NotInRange ==> out.1 == ins[i].1 && blocks_only(ins[i].0, out.0))
    &&& stmt_sem(out.0) == stmt_sem(ins[i].0)
    &&& (d is Normal && ambiguous(out.0, next) ==> out.1 is Some)
}
pub open spec fn last_ok(c: Context, i: (LastStmt, Option<TokenReference>), out: (LastStmt, Option<TokenReference>)) -> bool {
    let d = decision(c, NodeKey::Last(i.0));
    &&& (d is Skip ==> out == i)
    &&& (d is NotInRange ==> out.1 == i.1 && last_blocks_only(i.0, out.0))
    &&& last_sem(out.0) == last_sem(i.0)
}
"""

def items():
    its = common_items()
    its = [x for x in its if not (isinstance(x, Fn) and x.name in ())]
    its += [
        Raw(SPEC, module="context"),
        Fn(CTX, "should_format_node", impl_of="Context", mode="stub", sig_edits=[VN], proved_in="ctx",
           contract="ensures r == decision(*self, node.key()),"),
        Fn(CTX, "check_toggle_formatting", impl_of="Context", mode="stub", sig_edits=[VN],
           contract="ensures r == toggle(*self, node.key()),"),
        Raw(SPEC_STMT + FM_STMT_SPECS + STMT_TRAITS),
        Fn(GEN, "format_symbol", mode="stub"),
        Fn(TU, "join_trailing_trivia", mode="stub", proved_in="tok"),
        Fn(TU, "get_stmt_trailing_trivia", mode="stub",
           contract="ensures stmt_sem(r.0) == stmt_sem(stmt), ends_with_expression(r.0) == ends_with_expression(stmt),"),
        Fn(STM, "format_stmt_block", mode="stub", module="formatters::stmt::stmt_block",
           contract="ensures blocks_only(*stmt, r), stmt_sem(r) == stmt_sem(*stmt),"),
        # statement formatters: class C stubs (frame contract: same statement modulo trivia)
        *[Fn(f, n, mode="stub", contract=f"ensures {sem}(r) == {sem}(*{arg}),", attrs=attrs) for f, n, sem, arg, attrs in STMT_FORMATTERS],
        Raw(SEM_SPECS, module="formatters::stmt"),
        Fn(STM, "format_stmt", contract="""
    ensures
        decision(*ctx, NodeKey::Stmt(*stmt)) is Skip ==> r == *stmt, //# C08.stmt_skip
        decision(*ctx, NodeKey::Stmt(*stmt)) is NotInRange ==> blocks_only(*stmt, r), //# C09.stmt_not_in_range
        stmt_sem(r) == stmt_sem(*stmt), //# C02.stmt_same
""", edits=[]),
        Fn("src/formatters/assignment.rs", "format_local_assignment_no_trivia", mode="stub", contract="ensures lasg_sem(r) == lasg_sem(*assignment),"),
        Fn("src/formatters/assignment.rs", "format_assignment_no_trivia", mode="stub", contract="ensures asg_sem(r) == asg_sem(*assignment),"),
        Fn("src/formatters/functions.rs", "format_function_call", mode="stub", contract="ensures call_id(r) == call_id(*function_call),"),
        Fn("src/formatters/lua52.rs", "format_goto_no_trivia", mode="stub", attrs='#[cfg(any(feature = "lua52", feature = "luajit"))]\n', contract="ensures goto_sem(r) == goto_sem(*goto),"),
        Fn(STM, "format_stmt_no_trivia", contract="""
    requires
        decision(*ctx, NodeKey::Stmt(*stmt)) is Normal,   // callers (collapsed if-guards / function bodies) must only pass statements that are formatted normally
        simple_stmt_kind(*stmt),
    ensures stmt_sem(r) == stmt_sem(*stmt), //# C02.stmt_no_trivia_same
"""),
        Raw("""
pub open spec fn simple_stmt_kind(s: Stmt) -> bool {
    match s { Stmt::LocalAssignment(_) => true, Stmt::Assignment(_) => true, Stmt::FunctionCall(_) => true,
              #[cfg(any(feature = "lua52", feature = "luajit"))] Stmt::Goto(_) => true, _ => false }
}
""", module="formatters::stmt"),
        Fn(BLK, "format_last_stmt_block", mode="stub", contract="ensures last_blocks_only(*last_stmt, r), last_sem(r) == last_sem(*last_stmt),"),
        Fn(BLK, "format_last_stmt_no_trivia", mode="stub", contract="ensures last_sem(r) == last_sem(*last_stmt),"),
        Fn(BLK, "format_last_stmt", contract="""
    ensures
        decision(*ctx, NodeKey::Last(*last_stmt)) is Skip ==> r == *last_stmt, //# C08.last_stmt_skip
        decision(*ctx, NodeKey::Last(*last_stmt)) is NotInRange ==> last_blocks_only(*last_stmt, r), //# C09.last_stmt_not_in_range
        last_sem(r) == last_sem(*last_stmt), //# C02.last_stmt_same
"""),
        Fn(BLK, "stmt_remove_leading_newlines", mode="stub", contract="ensures stmt_sem(r) == stmt_sem(stmt), ends_with_expression(r) == ends_with_expression(stmt),"),
        Fn(BLK, "last_stmt_remove_leading_newlines", mode="stub", contract="ensures last_sem(r) == last_sem(last_stmt),"),
        Fn(BLK, "var_has_parentheses", ret="b", contract="ensures b == var_starts_with_paren(*var),"),
        Fn(BLK, "next_stmt_starts_with_parentheses", ret="b", contract="""
    ensures (next_stmt is Some && starts_with_paren((**(next_stmt->Some_0)).0)) ==> b, //# C01.next_starts_with_paren
""", edits=[Hole("assignment.variables().iter().next()", "first_var(assignment)", kind="wrapper", why="Punctuated::iter().next(): iterator")]),
        Fn(BLK, "check_stmt_requires_semicolon", ret="b", contract="""
    ensures ambiguous(*stmt, if next_stmt is Some { Some((**(next_stmt->Some_0)).0) } else { None }) ==> b, //# C01.semicolon_rule
"""),
        Raw(SPEC_BLOCK, module="formatters::block"),
        Fn(BLK, "format_block", contract="""
    ensures
        block_stmts(&r).len() == block_stmts(block).len(), //# C02.block_len
        forall|i: int| 0 <= i < block_stmts(block).len() ==> #[trigger] stmt_ok(ctx_at(*ctx, block_stmts(block), i), block_stmts(block), i, block_stmts(&r)[i]), //# C08.block_stmt
        (block_last(block) is Some) == (block_last(&r) is Some), //# C02.block_last_present
        block_last(block) is Some ==> last_ok(toggle(ctx_end(*ctx, block_stmts(block)), NodeKey::Last(block_last(block)->Some_0.0)), block_last(block)->Some_0, block_last(&r)->Some_0), //# C08.block_last
""", edits=[
            Hole("block.stmts_with_semicolon().peekable()", "verif::peekable(block.stmts_with_semicolon())", kind="wrapper", why="Iterator::peekable through a prelude wrapper carrying the ghost sequence"),
            Between("let trivia: Vec<Token> = trivia_util::get_stmt_trailing_trivia(stmt.to_owned())", ".collect();", "let trivia: Vec<Token> = verif::hole_vec_token();", why="iterator-adapter chain: the statement's trailing trivia without its final newline (comment transplant, see C03)"),
            Between("let trivia: Vec<Token> = last_stmt\n                        .trailing_trivia()", ".collect();", "let trivia: Vec<Token> = verif::hole_vec_token();", why="iterator-adapter chain: the last statement's trailing trivia without its final newline (comment transplant, see C03)"),
            Hole(SEMI_COMMENTS, "let semicolon_comments: Vec<Token> = verif::hole_vec_token();", count=2, why="iterator-adapter chain with closures: the comments of the removed semicolon, formatted (comment transplant, see C03; the two lists are joined by join_trailing_trivia, verified in unit tok)"),
            After("let mut stmt_iterator = verif::peekable(block.stmts_with_semicolon());", "let ghost ctx0 = ctx; let ghost mut k: int = 0;"),
            Loop("while let Some((stmt, semi)) = stmt_iterator.next()", BLOCK_INV, step="proof { k = k + 1; }"),
        ]),
    ]
    return its

STMT_FORMATTERS = [
    ("src/formatters/assignment.rs", "format_assignment", "asg_sem", "assignment", ""),
    ("src/formatters/assignment.rs", "format_local_assignment", "lasg_sem", "assignment", ""),
    (STM, "format_do_block", "do_sem", "do_block", ""),
    (STM, "format_function_call_stmt", "call_id", "function_call", ""),
    ("src/formatters/functions.rs", "format_function_declaration", "fdecl_sem", "function_declaration", ""),
    (STM, "format_generic_for", "gfor_sem", "generic_for", ""),
    (STM, "format_if", "if_sem", "if_node", ""),
    ("src/formatters/functions.rs", "format_local_function", "lfun_sem", "local_function", ""),
    (STM, "format_numeric_for", "nfor_sem", "numeric_for", ""),
    (STM, "format_repeat_block", "repeat_sem", "repeat_block", ""),
    (STM, "format_while_block", "while_sem", "while_block", ""),
    ("src/formatters/luau.rs", "format_compound_assignment", "casg_sem", "compound_assignment", '#[cfg(feature = "luau")]\n'),
    ("src/formatters/luau.rs", "format_exported_type_declaration", "etd_sem", "exported_type_declaration", '#[cfg(feature = "luau")]\n'),
    ("src/formatters/luau.rs", "format_type_declaration_stmt", "td_sem", "type_declaration", '#[cfg(feature = "luau")]\n'),
    ("src/formatters/luau.rs", "format_exported_type_function", "etf_sem", "exported_type_function", '#[cfg(feature = "luau")]\n'),
    ("src/formatters/luau.rs", "format_type_function_stmt", "tf_sem", "type_function", '#[cfg(feature = "luau")]\n'),
    ("src/formatters/lua52.rs", "format_goto", "goto_sem", "goto", '#[cfg(any(feature = "lua52", feature = "luajit"))]\n'),
    ("src/formatters/lua52.rs", "format_label", "label_sem", "label", '#[cfg(any(feature = "lua52", feature = "luajit"))]\n'),
]

SEM_SPECS = r"""
pub uninterp spec fn asg_sem(x: Assignment) -> int;
pub uninterp spec fn lasg_sem(x: LocalAssignment) -> int;
pub uninterp spec fn do_sem(x: Do) -> int;
pub uninterp spec fn fdecl_sem(x: FunctionDeclaration) -> int;
pub uninterp spec fn gfor_sem(x: GenericFor) -> int;
pub uninterp spec fn if_sem(x: If) -> int;
pub uninterp spec fn lfun_sem(x: LocalFunction) -> int;
pub uninterp spec fn nfor_sem(x: NumericFor) -> int;
pub uninterp spec fn repeat_sem(x: Repeat) -> int;
pub uninterp spec fn while_sem(x: While) -> int;
#[cfg(feature = "luau")] pub uninterp spec fn casg_sem(x: full_moon::ast::luau::CompoundAssignment) -> int;
#[cfg(feature = "luau")] pub uninterp spec fn etd_sem(x: full_moon::ast::luau::ExportedTypeDeclaration) -> int;
#[cfg(feature = "luau")] pub uninterp spec fn td_sem(x: full_moon::ast::luau::TypeDeclaration) -> int;
#[cfg(feature = "luau")] pub uninterp spec fn etf_sem(x: full_moon::ast::luau::ExportedTypeFunction) -> int;
#[cfg(feature = "luau")] pub uninterp spec fn tf_sem(x: full_moon::ast::luau::TypeFunction) -> int;
#[cfg(any(feature = "lua52", feature = "luajit"))] pub uninterp spec fn goto_sem(x: full_moon::ast::lua52::Goto) -> int;
#[cfg(any(feature = "lua52", feature = "luajit"))] pub uninterp spec fn label_sem(x: full_moon::ast::lua52::Label) -> int;
// a statement's meaning: its kind and the meaning of its payload
pub open spec fn stmt_sem(s: Stmt) -> (int, int) {
    match s {
        Stmt::Assignment(x) => (1, asg_sem(x)), Stmt::Do(x) => (2, do_sem(x)), Stmt::FunctionCall(x) => (3, call_id(x)),
        Stmt::FunctionDeclaration(x) => (4, fdecl_sem(x)), Stmt::GenericFor(x) => (5, gfor_sem(x)), Stmt::If(x) => (6, if_sem(x)),
        Stmt::LocalAssignment(x) => (7, lasg_sem(x)), Stmt::LocalFunction(x) => (8, lfun_sem(x)), Stmt::NumericFor(x) => (9, nfor_sem(x)),
        Stmt::Repeat(x) => (10, repeat_sem(x)), Stmt::While(x) => (11, while_sem(x)),
        #[cfg(feature = "luau")] Stmt::CompoundAssignment(x) => (12, casg_sem(x)),
        #[cfg(feature = "luau")] Stmt::ExportedTypeDeclaration(x) => (13, etd_sem(x)),
        #[cfg(feature = "luau")] Stmt::TypeDeclaration(x) => (14, td_sem(x)),
        #[cfg(feature = "luau")] Stmt::ExportedTypeFunction(x) => (15, etf_sem(x)),
        #[cfg(feature = "luau")] Stmt::TypeFunction(x) => (16, tf_sem(x)),
        #[cfg(any(feature = "lua52", feature = "luajit"))] Stmt::Goto(x) => (17, goto_sem(x)),
        #[cfg(any(feature = "lua52", feature = "luajit"))] Stmt::Label(x) => (18, label_sem(x)),
        _ => (0, 0),
    }
}
"""

LABELS = {
    "C08.stmt_skip": dict(props=["C08"], text="format_stmt returns an ignored statement unchanged"),
    "C09.stmt_not_in_range": dict(props=["C09"], text="format_stmt touches only nested blocks of an out-of-range statement"),
    "C02.stmt_same": dict(props=["C02"], text="format_stmt returns the same kind of statement with the same payload meaning (per-kind formatters assumed)"),
    "C02.stmt_no_trivia_same": dict(props=["C02", "C07"], text="format_stmt_no_trivia: same statement; its assert!/unreachable! cannot fire when the caller passes a normally-formatted assignment / call / goto (callers are not under contract: the precondition is an assumption about them)"),
    "C08.last_stmt_skip": dict(props=["C08"], text="format_last_stmt returns an ignored return/break unchanged"),
    "C09.last_stmt_not_in_range": dict(props=["C09"], text="format_last_stmt touches only nested blocks of an out-of-range last statement"),
    "C02.last_stmt_same": dict(props=["C02"], text="format_last_stmt keeps the last statement's meaning"),
    "C01.semicolon_rule": dict(props=["C01", "C02"], text="check_stmt_requires_semicolon is true whenever the statement ends with an expression and the next one starts with `(` (Lua manual §3.3.1, incl. Luau compound assignment)"),
    "C01.next_starts_with_paren": dict(props=["C01", "C02"], text="next_stmt_starts_with_parentheses recognises every statement that begins with `(` (call, assignment, Luau compound assignment with a parenthesised first prefix)"),
    "C02.block_len": dict(props=["C02", "C12"], text="format_block keeps the number of statements"),
    "C08.block_stmt": dict(props=["C08", "C09", "C02", "C01"], text="format_block, per statement: ignored => identical pair (statement, semicolon); out of range => semicolon untouched, only nested blocks change; same meaning in the same position; separator kept where the next statement starts with `(`"),
    "C08.block_loop": dict(props=["C08", "C09", "C02", "C01"], text="format_block loop invariant: every statement pushed so far satisfies the per-statement obligation (ignored => identical pair; out of range => semicolon untouched; same meaning; separator kept)"),
    "C02.block_last_present": dict(props=["C02"], text="format_block keeps the presence of the last statement"),
    "C08.block_last": dict(props=["C08", "C09", "C02"], text="format_block, last statement: ignored => identical incl. semicolon; out of range => semicolon untouched; same meaning"),
}

VERIF_BLOCK = Raw("""
#[verifier::external_body]
pub fn peekable<I: Iterator>(it: I) -> (r: std::iter::Peekable<I>) ensures pk_rest(&r) == it_rest(&it) { it.peekable() }
""", module="verif")

UNIT = Unit("block", items() + [VERIF_MOD, VERIF_BLOCK], LABELS, macros=[(GEN, "fmt_symbol"), (STM, "fmt_stmt")], header=HEADER, feature_sets=("default", "all", "luajit"))
