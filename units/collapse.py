"""Unit `collapse`: the single-line forms of `collapse_simple_statement` — C02 (no statement is dropped), C03 (a body that carries
comments is not collapsed: the collapsed form replaces the statement's trivia), C07 (the collapsed path only meets statement kinds
it can print).

  trivia_util.rs  is_block_empty, is_block_simple          the body has no / exactly one statement, of a kind the one-line path prints
  stmt.rs         is_if_guard                               + no elseif / else, no comments in the body or on `then`
  functions.rs    should_collapse_function_body             + no comments behind `)` / in front of `end` / in the body
  stmt.rs         format_if                                 statement census of the result == that of the input (collapsed or not)

The iterator idioms `block.stmts().next()` / `block.stmts().count()` are replaced, wherever they occur in these functions, by wrappers
with a sequence contract (class A: Block::stmts yields the statements of the block in order)."""
from gen import Unit, Fn, Item, Raw, RawFile, Hole, After, Before, Loop, Between, DebugAsserts, InlineClosure
from common import *
import lists as LISTS

TU = "src/formatters/trivia_util.rs"
GEN = "src/formatters/general.rs"
EX = "src/formatters/expression.rs"
BLK = "src/formatters/block.rs"
STM = "src/formatters/stmt.rs"
FUN = "src/formatters/functions.rs"

SPEC_A = r"""
// ---- the statements of a block ----
pub open spec fn block_len(b: &Block) -> nat { block_stmts(b).len() + if block_last(b) is Some { 1nat } else { 0nat } }
// the statement kinds format_stmt_no_trivia prints (the others are a panic there)
pub open spec fn simple_stmt_kind(s: Stmt) -> bool {
    match s { Stmt::LocalAssignment(_) => true, Stmt::Assignment(_) => true, Stmt::FunctionCall(_) => true,
              #[cfg(any(feature = "lua52", feature = "luajit"))] Stmt::Goto(_) => true, _ => false }
}
pub uninterp spec fn has_comments(k: NodeKey) -> bool;     // trivia_util::contains_comments: some token of the node carries a comment
// one statement of a printable kind and nothing else
pub open spec fn one_simple_statement(b: &Block) -> bool {
    block_len(b) == 1 && (block_stmts(b).len() == 1 ==> simple_stmt_kind(block_stmts(b)[0].0))
}

pub assume_specification [Block::last_stmt] (b: &Block) -> (r: Option<&LastStmt>)
    ensures r is Some == block_last(b) is Some, r is Some ==> *r->Some_0 == block_last(b)->Some_0.0;
pub assume_specification [LocalAssignment::names] (a: &LocalAssignment) -> (r: &Punctuated<TokenReference>);
pub assume_specification [LocalAssignment::expressions] (a: &LocalAssignment) -> (r: &Punctuated<Expression>);
pub assume_specification [Assignment::variables] (a: &Assignment) -> (r: &Punctuated<Var>);
pub assume_specification [Assignment::expressions] (a: &Assignment) -> (r: &Punctuated<Expression>);
pub assume_specification<T> [Punctuated::<T>::len] (p: &Punctuated<T>) -> (r: usize);

// ---- if statements: the blocks they carry ----
#[verifier::external_type_specification] #[verifier::external_body] pub struct ExElseIf(ElseIf);
pub open spec fn census(b: &Block) -> (nat, bool) { (block_stmts(b).len(), block_last(b) is Some) }
pub open spec fn strip_top(s: Skel) -> Skel { match s { Skel::Paren(i) => *i, _ => s } }
// a condition loses at most its one top-level pair of parentheses (remove_condition_parentheses), then only redundant ones
pub open spec fn same_condition(e: Expression, r: Expression) -> bool { erase(skel(r)) == erase(strip_top(skel(e))) || erase(skel(r)) == erase(skel(e)) }
// C02 at the level of statements: the same number of statements in every block of the `if`, the same branches
pub open spec fn same_census(a: &If, r: &If) -> bool {
    census(&n_if_block(a)) == census(&n_if_block(r))
    && (n_if_else_if(a) is Some) == (n_if_else_if(r) is Some) && (n_if_else_if(a) is Some ==> n_if_else_if(a)->Some_0@.len() == n_if_else_if(r)->Some_0@.len())
    && (n_if_else_block(a) is Some) == (n_if_else_block(r) is Some) && (n_if_else_block(a) is Some ==> census(&n_if_else_block(a)->Some_0) == census(&n_if_else_block(r)->Some_0))
    && (n_if_else_token(a) is Some) == (n_if_else_token(r) is Some)
}
@@IFSPECS@@
// ---- function bodies ----
pub open spec fn fb_block(f: &FunctionBody) -> Block { n_fb_block(f) }
#[verifier::external_type_specification] pub struct ExParameter(full_moon::ast::Parameter);
#[cfg(feature = "luau")] #[verifier::external_type_specification] #[verifier::external_body] pub struct ExTypeSpecifier(full_moon::ast::luau::TypeSpecifier);
#[cfg(feature = "luau")] #[verifier::external_type_specification] #[verifier::external_body] pub struct ExGenericDeclaration(full_moon::ast::luau::GenericDeclaration);
@@FBSPECS@@
pub uninterp spec fn fb_paren_trail_comments(f: &FunctionBody) -> bool;   // a comment behind the `)` of the parameters
pub uninterp spec fn fb_end_lead_comments(f: &FunctionBody) -> bool;      // a comment in front of `end`
#[cfg(feature = "luau")] pub uninterp spec fn fb_return_type_trail_comments(f: &FunctionBody) -> bool;   // a comment behind the Luau return type (there is none without Luau)
#[cfg(not(feature = "luau"))] pub open spec fn fb_return_type_trail_comments(f: &FunctionBody) -> bool { false }
"""

FB_SPECS = node_specs("FunctionBody", "n_fb", [("parameters_parentheses", "ContainedSpan", "-"), ("parameters", "Punctuated<full_moon::ast::Parameter>", "ref"), ("block", "Block", "ref"), ("end_token", "TokenReference", "-")]) + """
#[cfg(feature = "luau")] pub assume_specification [FunctionBody::with_generics] (n: FunctionBody, v: Option<full_moon::ast::luau::GenericDeclaration>) -> (r: FunctionBody) ensures n_fb_block(&r) == n_fb_block(&n), n_fb_parameters(&r) == n_fb_parameters(&n);
#[cfg(feature = "luau")] pub assume_specification [FunctionBody::with_type_specifiers] (n: FunctionBody, v: Vec<Option<full_moon::ast::luau::TypeSpecifier>>) -> (r: FunctionBody) ensures n_fb_block(&r) == n_fb_block(&n), n_fb_parameters(&r) == n_fb_parameters(&n);
#[cfg(feature = "luau")] pub assume_specification [FunctionBody::with_return_type] (n: FunctionBody, v: Option<full_moon::ast::luau::TypeSpecifier>) -> (r: FunctionBody) ensures n_fb_block(&r) == n_fb_block(&n), n_fb_parameters(&r) == n_fb_parameters(&n);
"""
SPEC = SPEC_A.replace("@@FBSPECS@@", FB_SPECS).replace("@@IFSPECS@@", node_specs("If", "n_if", [("if_token", "TokenReference", "ref"), ("condition", "Expression", "ref"), ("then_token", "TokenReference", "ref"), ("block", "Block", "ref"),
    ("else_if", "Vec<ElseIf>", "opt"), ("else_token", "TokenReference", "opt"), ("else_block", "Block", "opt", "with_else"), ("end_token", "TokenReference", "-")]))

WRAP = r"""
#[verifier::external_body] pub fn first_stmt(b: &Block) -> (r: Option<&Stmt>)
    ensures r is Some == (block_stmts(b).len() > 0), r is Some ==> *r->Some_0 == block_stmts(b)[0].0 { unimplemented!() /* b.stmts().next() */ }
#[verifier::external_body] pub fn paren_close_trailing_comments(f: &FunctionBody) -> (r: bool) ensures r == fb_paren_trail_comments(f) { unimplemented!() }
#[verifier::external_body] pub fn end_leading_comments(f: &FunctionBody) -> (r: bool) ensures r == fb_end_lead_comments(f) { unimplemented!() }
#[cfg(feature = "luau")] #[verifier::external_body] pub fn return_type_trailing_comments(f: &FunctionBody) -> (r: bool) ensures r == fb_return_type_trail_comments(f) { unimplemented!() /* f.return_type().map_or(false, |t| t.has_trailing_comments(CommentSearch::All)) */ }
#[verifier::external_body] pub fn format_else_ifs(ctx: &Context, if_node: &If, shape: Shape) -> (r: Option<Vec<ElseIf>>)
    ensures (r is Some) == (n_if_else_if(if_node) is Some), r is Some ==> r->Some_0@.len() == n_if_else_if(if_node)->Some_0@.len() { unimplemented!() /* if_node.else_if().map(|l| l.iter().map(|e| format_else_if(ctx, e, shape)).collect()) */ }
// format_function_body: the parts that are closures / iterator chains over parameters and Luau annotations (none of them touches the block)
#[cfg(feature = "luau")] #[verifier::external_body] pub fn format_optional_generics(ctx: &Context, function_body: &FunctionBody, shape: Shape) -> Option<full_moon::ast::luau::GenericDeclaration> { unimplemented!() }
#[cfg(feature = "luau")] #[verifier::external_body] pub fn format_specifiers(ctx: &Context, function_body: &FunctionBody, shape: Shape, multiline_params: bool) -> (Vec<Option<full_moon::ast::luau::TypeSpecifier>>, Option<full_moon::ast::luau::TypeSpecifier>) { unimplemented!() }
#[verifier::external_body] pub fn first_line_trailing<R>(ctx: &Context, function_body: &FunctionBody, parameters_parentheses: ContainedSpan, return_type: R, singleline_function: bool) -> (ContainedSpan, R) { unimplemented!() }
#[verifier::external_body] pub fn stmt_count(b: &Block) -> (r: usize) ensures r == block_stmts(b).len() { unimplemented!() /* b.stmts().count() */ }
"""

# wherever they occur (any number of times, none included): a rewrite of these functions keeps being read through the wrappers
def stmts_holes(var="block"):
    return [Hole(f"{var}.stmts().next()", f"verif_collapse::first_stmt({var})", count=None, kind="wrapper", why="Block::stmts() is an iterator: its first item"),
            Hole(f"{var}.stmts().count()", f"verif_collapse::stmt_count({var})", count=None, kind="wrapper", why="Block::stmts() is an iterator: the number of items")]

def items():
    its = common_items()
    its += [
        Raw(vnode_impls([("Block", "NodeKey::Other(other_key(*self))", "")])),
        Raw(SPEC),
        Raw(WRAP, module="verif_collapse"),
        Fn(TU, "contains_comments", mode="stub", sig_edits=[VN], contract="ensures r == has_comments(node.key()),",
           note="Node::tokens().any(token_contains_comments): defines has_comments"),
        Fn(TU, "contains_singleline_comments", mode="stub", sig_edits=[VN], contract="ensures r ==> has_comments(node.key()),",
           note="the same search restricted to line comments: finding one means there is a comment (the converse does not hold)"),
        Fn(TU, "is_last_stmt_simple", contract="""
    // total (C07): the `unreachable!` arm is an obligation over every kind of last statement the feature set knows
""", edits=[Hole("""LastStmt::Return(r#return) => {
            r#return.returns().is_empty() || r#return.returns().iter().all(is_expression_simple)
        }""", "LastStmt::Return(vx_return) => { hole_bool() }", why="iterator chain over the returned values: decides on their kind only (the raw identifier r#return is not named: this Verus panics while encoding it)")]),
        Fn(TU, "is_block_empty", contract="""
    ensures r == (block_len(block) == 0), //# C02.empty_block_is_empty
""", edits=stmts_holes()),
        Fn(TU, "is_block_simple", contract="""
    ensures r ==> one_simple_statement(block), //# C02.simple_block_is_one_statement
""", edits=stmts_holes()),
        Fn(STM, "is_if_guard", contract="""
    ensures r ==> n_if_else_if(if_node) is None && n_if_else_block(if_node) is None && one_simple_statement(&n_if_block(if_node)), //# C02.if_guard_is_one_statement
            r ==> !has_comments(NodeKey::Other(other_key(n_if_block(if_node)))) && !has_comments(NodeKey::Other(other_key(n_if_then_token(if_node)))), //# C03.if_guard_has_no_comments
"""),
        Fn(CTX, "should_collapse_simple_functions", impl_of="Context", mode="stub", proved_in="ctx"),
        Fn(CTX, "should_collapse_simple_conditionals", impl_of="Context", mode="stub", proved_in="ctx"),
        Fn(FUN, "function_call_contains_nested_function", mode="stub", note="iterator over the suffixes of a call: layout only"),
        Fn(FUN, "block_contains_nested_function", contract="""
    requires block_len(block) == 0 || one_simple_statement(block),   // its callers ask is_block_empty / is_block_simple first (short-circuit): proved at the call site
""", edits=[DebugAsserts()] + stmts_holes() + [
            Hole("assignment.variables().iter().any(var_contains_nested_function) || assignment.expressions().iter().any(contains_nested_function)", "hole_bool()", why="iterator chains over the variables and values of the assignment: layout only"),
            Hole("assignment.expressions().iter().any(contains_nested_function)", "hole_bool()", why="iterator chain over the values of the local assignment: layout only"),
            Hole("Some(LastStmt::Return(r#return)) => r#return.returns().iter().any(contains_nested_function),", "Some(LastStmt::Return(vx_return)) => hole_bool(),", why="iterator chain over the returned values: layout only (the raw identifier r#return is not named: this Verus panics while encoding it)"),
        ], note="every statement kind is_block_simple accepts has an arm: the `unreachable!` arm is an obligation (D48, seed C07-4)"),
        Fn(FUN, "should_collapse_function_body", contract="""
    ensures r ==> block_len(&fb_block(function_body)) == 0 || one_simple_statement(&fb_block(function_body)), //# C02.collapsed_function_is_one_statement
            r ==> !has_comments(NodeKey::Other(other_key(fb_block(function_body)))) && !fb_paren_trail_comments(function_body) && !fb_end_lead_comments(function_body), //# C03.collapsed_function_has_no_comments
            r ==> !fb_return_type_trail_comments(function_body), //# C01.collapsed_function_return_type_closed
""", edits=[
            Hole("""function_body
            .return_type()
            .map_or(false, |return_type| {
                return_type.has_trailing_comments(CommentSearch::All)
            })""", "verif_collapse::return_type_trailing_comments(function_body)", kind="wrapper", why="Option::map_or with a closure: is there a comment behind the Luau return type (D44 repair)", optional=True),
            Hole("""function_body
        .parameters_parentheses()
        .tokens()
        .1
        .trailing_trivia()
        .any(trivia_util::trivia_is_comment)""", "verif_collapse::paren_close_trailing_comments(function_body)", kind="wrapper", why="iterator over the trailing trivia of `)`", optional=True),
            Hole("""function_body
            .end_token()
            .leading_trivia()
            .any(trivia_util::trivia_is_comment)""", "verif_collapse::end_leading_comments(function_body)", kind="wrapper", why="iterator over the leading trivia of `end`", optional=True),
        ]),
        # ---- format_if ----
        Raw("""
impl UpdateTrivia for Stmt {
    open spec fn same_sem_u(&self, r: &Self) -> bool { true }
    open spec fn trivia_ok(&self, l: FormatTriviaType, t: FormatTriviaType, r: &Self) -> bool { true }
    #[verifier::external_body] fn update_trivia(&self, leading_trivia: FormatTriviaType, trailing_trivia: FormatTriviaType) -> (r: Self) { unimplemented!() }
}
impl UpdateTrivia for LastStmt {
    open spec fn same_sem_u(&self, r: &Self) -> bool { true }
    open spec fn trivia_ok(&self, l: FormatTriviaType, t: FormatTriviaType, r: &Self) -> bool { true }
    #[verifier::external_body] fn update_trivia(&self, leading_trivia: FormatTriviaType, trailing_trivia: FormatTriviaType) -> (r: Self) { unimplemented!() }
}
"""),
        Item(GEN, "enum", "EndTokenType"),
        Fn(GEN, "format_symbol", mode="stub", proved_in="tok", contract="ensures tok_open(r) ==> tok_open(*current_symbol) || tok_open(*wanted_symbol),",
           note="a formatted symbol is followed by a line comment only if the source token (or the wanted symbol) was (tok: C01.symbol_open_only_if_source)"),
        Fn(GEN, "format_end_token", mode="stub"),
        Fn(EX, "format_expression", mode="stub", proved_in="expr", contract="requires wf(skel(*expression)), ensures erase(skel(r)) == erase(skel(*expression)),"),
        Fn(EX, "hang_expression_trailing_newline", mode="stub", proved_in="expr", contract="requires wf(skel(*expression)), ensures erase(skel(r)) == erase(skel(*expression)),"),
        Fn(STM, "remove_condition_parentheses", mode="stub", proved_in="stmt", contract="ensures skel(r) == strip_top(skel(expression)),"),
        Raw("""
#[verifier::external_body] pub fn peek_tokens<'b>(v: &'b Vec<Token>) -> (r: std::iter::Peekable<std::slice::Iter<'b, Token>>)
    ensures pk_rest(&r).len() == v@.len() { unimplemented!() /* v.iter().peekable() */ }
#[verifier::external_body] pub fn nesting_depth(shape: Shape) -> (r: usize) { unimplemented!() /* shape.indent().block_indent() + shape.indent().additional_indent() */ }
#[verifier::external_body] pub fn followed_by_comment(t: &Token) -> (r: bool) { unimplemented!() /* matches!(t.token_kind(), SingleLineComment | MultiLineComment) */ }
#[verifier::external_body] pub fn usize_max(a: usize, b: usize) -> (r: usize) ensures r == (if a >= b { a } else { b }) { a.max(b) }   // std: <usize as Ord>::max (a provided trait method: no assume_specification in this Verus)
""", module="verif_collapse"),
        Fn(SH, "configured_indent_width", impl_of="Indent", contract="ensures r == self.indent_width,"),
        Fn(STM, "should_indent_further", contract="""
    // total for every trivia list and every shape (C07): no arithmetic underflow / overflow, no division by zero (an indent width of 0 is a
    // configuration the CLI accepts: D49), the loop ends with the list
""", sig_edits=[Hole("<'a>(trivia: impl Iterator<Item = &'a Token>, shape: Shape)", "(trivia: Vec<Token>, shape: Shape)", kind="proxy", why="iterator parameter")],
           edits=[
            Hole("shape.indent().block_indent() + shape.indent().additional_indent()", "verif_collapse::nesting_depth(shape)", kind="wrapper", why="machine arithmetic: the sum of the two nesting depths fits a usize (the stated assumption of every unit but ctx / Kani shape)"),
            Hole("shape.indent().configured_indent_width().max(1)", "verif_collapse::usize_max(shape.indent().configured_indent_width(), 1)", kind="wrapper", optional=True, why="<usize as Ord>::max through a wrapper with the std function's meaning (optional: without the call the bare division stays and its divisor is not known to be positive)"),
            Hole("trivia.peekable()", "verif_collapse::peek_tokens(&trivia)", kind="wrapper", why="Iterator::peekable through a wrapper carrying the ghost sequence"),
            Hole("""matches!(
                    next_trivia.token_kind(),
                    TokenKind::SingleLineComment | TokenKind::MultiLineComment
                )""", "verif_collapse::followed_by_comment(next_trivia)", kind="wrapper", why="matches! over Token::token_kind()"),
            Hole("""let last_line = characters
                        .chars()
                        .rev()
                        .take_while(|c| !matches!(c, '\\n' | '\\r'));""", "", why="char iterator adapters over the whitespace text (its last line): the three counts taken from it are arbitrary numbers here"),
            Hole("last_line.clone().any(|c| matches!(c, '\\t'))", "hole_bool()", why="char iterator: does the last line hold a tab"),
            Hole("last_line.filter(|c| matches!(c, '\\t')).count()", "hole_usize()", why="char iterator: number of tabs"),
            Hole("last_line.filter(|c| matches!(c, ' ')).count()", "hole_usize()", why="char iterator: number of spaces"),
            Loop("while let Some(trivia) = iter.next()", """
        decreases pk_rest(&iter).len(),
"""),
        ]),
        Fn(STM, "format_stmt_no_trivia", mode="stub", proved_in="block", contract="requires simple_stmt_kind(*stmt),",
           note="its second precondition (the statement is formatted normally: not ignored, in range) is not carried here: an `if` that reaches format_if is itself formatted normally and an ignore comment in its body makes is_if_guard false (argued, not proved)"),
        Fn(BLK, "format_last_stmt_no_trivia", mode="stub"),
        Fn(BLK, "format_block", mode="stub", proved_in="block", contract="ensures census(&r) == census(block),"),
        Fn(STM, "format_if", contract="""
    requires (n_if_else_token(if_node) is Some) == (n_if_else_block(if_node) is Some),   // parsed input: an `else` token comes with an else block
             wf(skel(n_if_condition(if_node))),
    ensures same_census(if_node, &r), //# C02.format_if_keeps_statements
            same_condition(n_if_condition(if_node), n_if_condition(&r)), //# C02.format_if_keeps_condition
            !tok_open(n_if_if_token(&r)), //# C01.if_keyword_closed
""", edits=[
            DebugAsserts(),
            Hole('const IF_LEN: usize = "if ".len();', "let IF_LEN: usize = hole_usize();", why="str::len in a const: a width, used for layout only"),
            Hole('const THEN_LEN: usize = " then".len();', "let THEN_LEN: usize = hole_usize();", why="str::len in a const: a width, used for layout only"),
            Hole("strip_trivia(&singleline_condition).to_string().len()", "hole_usize()", why="Display width of the condition"),
            Hole("strip_trivia(&singleline_if).to_string().len()", "hole_usize()", why="Display width of the one-line form"),
            Hole("""if_node.else_if().map(|else_if| {
        else_if
            .iter()
            .map(|else_if| format_else_if(ctx, else_if, shape))
            .collect()
    })""", "verif_collapse::format_else_ifs(ctx, if_node, shape)", kind="wrapper", why="closure over the elseif branches: one formatted branch per branch"),
            Hole("should_indent_further(else_token.leading_trivia(), shape)", "should_indent_further(hole_vec_token(), shape)", why="iterator argument; chooses a comment indentation only"),
            Hole("if_node.block().stmts().next()", "verif_collapse::first_stmt(if_node.block())", count=None, kind="wrapper", why="Block::stmts() is an iterator: its first item"),
        ]),
        Raw("""
impl UpdateTrailingTrivia for Stmt {
    open spec fn same_sem_t(&self, r: &Self) -> bool { true }
    open spec fn trail_ok(&self, t: FormatTriviaType, r: &Self) -> bool { true }
    open spec fn not_open(&self) -> bool { other_closed(*self) }
    #[verifier::external_body] fn update_trailing_trivia(&self, trailing_trivia: FormatTriviaType) -> (r: Self) { unimplemented!() }
}
impl UpdateTrailingTrivia for LastStmt {
    open spec fn same_sem_t(&self, r: &Self) -> bool { true }
    open spec fn trail_ok(&self, t: FormatTriviaType, r: &Self) -> bool { true }
    open spec fn not_open(&self) -> bool { other_closed(*self) }
    #[verifier::external_body] fn update_trailing_trivia(&self, trailing_trivia: FormatTriviaType) -> (r: Self) { unimplemented!() }
}
"""),
        # ---- the parameters of a function: format_parameter, format_singleline_parameters (real text), and the choice between the two list layouts
        Raw(LISTS.SPEC, module="formatters::general"),
        Fn(GEN, "format_contained_punctuated_multiline", mode="stub", proved_in="lists", contract="""
    requires forall|i: int, s: Shape| 0 <= i < ppairs(*arguments).len() ==> #[trigger] argument_formatter.requires((ctx, &pair_value(ppairs(*arguments)[i]), s)),
    ensures ppairs(r.1).len() == ppairs(*arguments).len(),
            forall|i: int| 0 <= i < ppairs(*arguments).len() ==> by_item_formatter_modulo_trivia(argument_formatter, ctx, pair_value(#[trigger] ppairs(*arguments)[i]), pair_value(ppairs(r.1)[i])),
"""),
        Fn(GEN, "format_contained_span", mode="stub"),
        Fn(GEN, "format_token_reference", mode="stub", proved_in="tok", contract="ensures tok_of(r) == tok_of(*token_reference),"),
        Raw("""
// what a parameter is, trivia aside: a name or `...`
pub open spec fn param_sem(p: Parameter) -> (int, int) { match p { Parameter::Ellipsis(t) => (0, 0), Parameter::Name(t) => (1, tok_of(t)), _ => (2, 0) } }
pub open spec fn param_sig(p: Punctuated<Parameter>) -> Seq<(int, int)> { ppairs(p).map_values(|x: Pair<Parameter>| param_sem(pair_value(x))) }
impl UpdateLeadingTrivia for Parameter {
    open spec fn same_sem(&self, r: &Self) -> bool { param_sem(*r) == param_sem(*self) }
    open spec fn lead_ok(&self, t: FormatTriviaType, r: &Self) -> bool { true }
    open spec fn on_new_line(&self) -> bool { other_nl(*self) }
    open spec fn rest_same(&self, r: &Self) -> bool { true }
    #[verifier::external_body] fn update_leading_trivia(&self, leading_trivia: FormatTriviaType) -> (r: Self) { unimplemented!() }
}
impl UpdateTrailingTrivia for Parameter {
    open spec fn same_sem_t(&self, r: &Self) -> bool { param_sem(*r) == param_sem(*self) }
    open spec fn trail_ok(&self, t: FormatTriviaType, r: &Self) -> bool { true }
    open spec fn not_open(&self) -> bool { other_closed(*self) }
    #[verifier::external_body] fn update_trailing_trivia(&self, trailing_trivia: FormatTriviaType) -> (r: Self) { unimplemented!() }
}
impl GetTrailingTrivia for Parameter {
    open spec fn ends_open(&self) -> bool { other_line_open(*self) }
    #[verifier::external_body] fn trailing_trivia(&self) -> Vec<Token> { unimplemented!() }
    #[verifier::external_body] fn has_trailing_comments(&self, search: CommentSearch) -> (r: bool) { unimplemented!() }
    #[verifier::external_body] fn trailing_comments(&self) -> Vec<Token> { unimplemented!() }
}
""", module="formatters::functions"),
        Fn(FUN, "format_parameter", contract="ensures param_sem(r) == param_sem(*parameter), //# C02.parameter_same"),
        Fn(FUN, "format_singleline_parameters", contract="""
    ensures ppairs(r).len() == ppairs(n_fb_parameters(function_body)).len(), //# C02.function_parameters_same
            param_sig(r) == param_sig(n_fb_parameters(function_body)), //# C02.function_parameters_same
""", edits=[
            Hole("for pair in function_body.parameters().pairs() {", "let mut vx_it = peekable(function_body.parameters().pairs());\n    let ghost mut k: int = 0;\n    while let Some(pair) = vx_it.next() {", kind="desugar", why="for over an iterator: written as its definition, through the Peekable wrapper"),
            Between("let punctuation = pair", ".map(|punctuation| fmt_symbol!(ctx, punctuation, \", \", shape));", "let punctuation = match pair.punctuation() { Some(punctuation) => Some(fmt_symbol!(ctx, punctuation, \", \", shape)), None => None };", kind="rewrite", why="Option::map with a closure, written as the match it is"),
            Loop("while let Some(pair) = vx_it.next()", """
        invariant
            0 <= k <= ppairs(n_fb_parameters(function_body)).len(),
            pk_rest(&vx_it).len() == ppairs(n_fb_parameters(function_body)).len() - k,
            forall|j: int| 0 <= j < pk_rest(&vx_it).len() ==> *(#[trigger] pk_rest(&vx_it)[j]) == ppairs(n_fb_parameters(function_body))[k + j],
            ppairs(formatted_parameters).len() == k, //# C02.function_parameters_loop
            forall|i: int| 0 <= i < k ==> param_sem(pair_value(#[trigger] ppairs(formatted_parameters)[i])) == param_sem(pair_value(ppairs(n_fb_parameters(function_body))[i])), //# C02.function_parameters_loop
        ensures k == ppairs(n_fb_parameters(function_body)).len(),
        decreases pk_rest(&vx_it).len(),
""", step="proof { k = k + 1; }"),
            After("formatted_parameters\n}", "", optional=True) if False else Before("formatted_parameters\n", "proof { assert(param_sig(formatted_parameters) =~= param_sig(n_fb_parameters(function_body))); }\n    "),
        ]),
        Raw("""
// the choice between the two layouts of the parameter list: the expression this function's body is, in format_function_body
pub fn format_parameters_either(ctx: &Context, function_body: &FunctionBody, shape: Shape, multiline_params: bool) -> (r: (ContainedSpan, Punctuated<Parameter>))
    ensures ppairs(r.1).len() == ppairs(n_fb_parameters(function_body)).len(), param_sig(r.1) == param_sig(n_fb_parameters(function_body)),
{
    proof { assert forall|i: int, s: Shape| 0 <= i < ppairs(n_fb_parameters(function_body)).len() implies #[trigger] call_requires(format_parameter, (ctx, &pair_value(ppairs(n_fb_parameters(function_body))[i]), s)) by { } }
    let r = match multiline_params {
        true => format_contained_punctuated_multiline(
            ctx,
            function_body.parameters_parentheses(),
            function_body.parameters(),
            format_parameter,
            shape,
        ),
        false => (
            format_contained_span(ctx, function_body.parameters_parentheses(), shape),
            format_singleline_parameters(ctx, function_body, shape),
        ),
    };
    proof {
        if multiline_params {
            assert forall|i: int| 0 <= i < ppairs(r.1).len() implies param_sem(pair_value(#[trigger] ppairs(r.1)[i])) == param_sem(pair_value(ppairs(n_fb_parameters(function_body))[i])) by {
                assert(by_item_formatter_modulo_trivia(format_parameter, ctx, pair_value(ppairs(n_fb_parameters(function_body))[i]), pair_value(ppairs(r.1)[i])));
            }
        }
        assert(param_sig(r.1) =~= param_sig(n_fb_parameters(function_body)));
    }
    r
}
""", module="verif_collapse"),
        Fn(TU, "spans_multiple_lines", mode="stub", sig_edits=[Hole("<T: std::fmt::Display>", "<T>", kind="proxy", why="std::fmt::Display bound dropped on the stub")]),
        Fn(FUN, "format_function_body", contract="""
    ensures census(&n_fb_block(&r)) == census(&n_fb_block(function_body)), //# C02.function_body_keeps_statements
            param_sig(n_fb_parameters(&r)) == param_sig(n_fb_parameters(function_body)), //# C02.function_parameters_same
""", edits=[
            Between("let multiline_params = {", "should_parameters_format_multiline(ctx, function_body, shape, should_collapse)\n    };", "let multiline_params = hole_bool();", why="closures over the parameters and their Luau type specifiers: decides the layout of the parameter list only"),
            Between("let generics = function_body", ".map(|generic_declaration| format_generic_declaration(ctx, generic_declaration, shape));", "let generics = verif_collapse::format_optional_generics(ctx, function_body, shape);", why="closure over the optional Luau generics"),
            Hole("let shape = shape + generics.as_ref().map_or(0, |x| x.to_string().len());", "let shape = shape + hole_usize();", why="Display width of the generics"),
            Between("let (parameters_parentheses, formatted_parameters) = match multiline_params {", "format_singleline_parameters(ctx, function_body, shape),\n        ),\n    };", "let (parameters_parentheses, formatted_parameters) = verif_collapse::format_parameters_either(ctx, function_body, shape, multiline_params);", kind="wrapper", why="the choice between the two layouts of the parameter list: a verified wrapper whose body is this expression (the multi-line branch from the generic list contract proved in unit lists, the one-line branch from format_singleline_parameters)"),
            Between("let (type_specifiers, return_type) = {", ".map(|return_type| format_type_specifier(ctx, return_type, shape)),\n        )\n    };", "let (type_specifiers, return_type) = verif_collapse::format_specifiers(ctx, function_body, shape, multiline_params);", why="closures over the Luau type specifiers and the return type"),
            InlineClosure("create_normal_block"),
            Hole('const PARENS_LEN: usize = "()".len();', "let PARENS_LEN: usize = hole_usize();", why="str::len in a const: a width, used for layout only"),
            Between("let block_shape = block_shape\n                + type_specifiers.iter().fold(0, |acc, x| {", "+ return_type.as_ref().map_or(0, |x| x.to_string().len());", "let block_shape = block_shape + hole_usize();", why="Display widths of the Luau annotations"),
            Hole("function_body.block().stmts().next()", "verif_collapse::first_stmt(function_body.block())", count=None, kind="wrapper", why="Block::stmts() is an iterator: its first item"),
            Between("let (parameters_parentheses, return_type) = loop {", "            return_type,\n        );\n    };", '#[cfg(feature = "luau")] let (parameters_parentheses, return_type) = verif_collapse::first_line_trailing(ctx, function_body, parameters_parentheses, return_type, singleline_function);\n    #[cfg(not(feature = "luau"))] let (parameters_parentheses, return_type) = verif_collapse::first_line_trailing(ctx, function_body, parameters_parentheses, (), singleline_function);', why="a loop used as a block with cfg-dependent breaks: appends the trailing whitespace of the first line to `)` or to the return type"),
        ]),
    ]
    return its

LABELS = {
    "C01.collapsed_function_return_type_closed": dict(props=["C01", "C03"], text="should_collapse_function_body: a function whose Luau return type is followed by a comment is not collapsed (`end` would be printed behind the comment: D44)"),
    "C02.parameter_same": dict(props=["C02"], text="format_parameter: a name stays the same name, `...` stays `...`; the `unknown node` arm is unreachable"),
    "C02.function_parameters_same": dict(props=["C02"], text="format_singleline_parameters / format_function_body: as many parameters as the input, parameter i the input's parameter i, whichever layout the list gets"),
    "C02.function_parameters_loop": dict(props=["C02"], text="format_singleline_parameters loop invariant: the parameters pushed so far are the input's, in order"),
    "C02.empty_block_is_empty": dict(props=["C02"], text="is_block_empty: true exactly for a block without statement and without last statement"),
    "C02.if_guard_is_one_statement": dict(props=["C02", "C07"], text="is_if_guard: an `if` that is collapsed has no elseif / else and exactly one statement of a printable kind in its body"),
    "C03.if_guard_has_no_comments": dict(props=["C03"], text="is_if_guard: an `if` that is collapsed has no comment in its body (the one-line form replaces the statement's trivia) and none on `then` (a line comment there would swallow the body)"),
    "C02.collapsed_function_is_one_statement": dict(props=["C02", "C07"], text="should_collapse_function_body: a function body that is collapsed is empty or one statement of a printable kind"),
    "C03.collapsed_function_has_no_comments": dict(props=["C03", "C01"], text="should_collapse_function_body: a function body that is collapsed has no comment in the body, behind `)` or in front of `end`"),
    "C02.function_body_keeps_statements": dict(props=["C02", "C07"], text="format_function_body: on one line or not, the body of the result has the same number of statements and the same presence of a last statement as the input's (the one-line branch rebuilds the block from its single statement; its `unreachable!` and the precondition of format_stmt_no_trivia follow from should_collapse_function_body)"),
    "C01.if_keyword_closed": dict(props=["C01", "C02"], text="format_if: a line comment behind the `if` keyword is always followed by a line break (the header goes multiline; an if guard is not collapsed then), so the condition is never printed inside the comment"),
    "C02.format_if_keeps_condition": dict(props=["C02"], text="format_if: the condition is the input's, modulo its top-level parentheses and redundant ones (one-line, single-line and hanging layout)"),
    "C02.format_if_keeps_statements": dict(props=["C02"], text="format_if: collapsed or not, the result has the same number of statements (and the same presence of a last statement) in its body and in its else block, and the same elseif / else branches"),
    "C02.simple_block_is_one_statement": dict(props=["C02", "C07"], text="is_block_simple: a block that counts as simple consists of exactly one statement — a last statement, or one assignment / local assignment / call / goto (the kinds the one-line path can print) — and nothing else"),
}

UNIT = Unit("collapse", items() + [VERIF_MOD], LABELS, macros=[(GEN, "fmt_symbol")], header=HEADER + "use full_moon::ast::ElseIf;\nuse full_moon::ast::punctuated::Pair;\nuse full_moon::ast::Parameter;\n")
