"""Unit `collapse`: the single-line forms of `collapse_simple_statement` — C02 (no statement is dropped), C03 (a body that carries
comments is not collapsed: the collapsed form replaces the statement's trivia), C07 (the collapsed path only meets statement kinds
it can print).

  trivia_util.rs  is_block_empty, is_block_simple          the body has no / exactly one statement, of a kind the one-line path prints
  stmt.rs         is_if_guard                               + no elseif / else, no comments in the body or on `then`
  functions.rs    should_collapse_function_body             + no comments behind `)` / in front of `end` / in the body
  stmt.rs         format_if                                 statement census of the result == that of the input (collapsed or not)

The iterator idioms `block.stmts().next()` / `block.stmts().count()` are replaced, wherever they occur in these functions, by wrappers
with a sequence contract (class A: Block::stmts yields the statements of the block in order)."""
from gen import Unit, Fn, Item, Raw, RawFile, Hole, After, Before, Loop, Between, DebugAsserts
from common import *

TU = "src/formatters/trivia_util.rs"
GEN = "src/formatters/general.rs"
EX = "src/formatters/expression.rs"
BLK = "src/formatters/block.rs"
STM = "src/formatters/stmt.rs"
FUN = "src/formatters/functions.rs"

SPEC = r"""
// ---- the statements of a block ----
pub open spec fn block_len(b: &Block) -> nat { block_stmts(b).len() + if block_last(b) is Some { 1nat } else { 0nat } }
// the statement kinds format_stmt_no_trivia prints (the others are a panic there)
pub open spec fn simple_stmt_kind(s: Stmt) -> bool {
    match s { Stmt::LocalAssignment(_) => true, Stmt::Assignment(_) => true, Stmt::FunctionCall(_) => true,
              #[cfg(any(feature = "lua52", feature = "luajit"))] Stmt::Goto(_) => true, _ => false }
}
pub uninterp spec fn has_comments(k: NodeKey) -> bool;     // trivia_util::contains_comments: some token of the node carries a comment
// one statement of a printable kind and nothing else
pub open spec fn one_simple_statement(b: &Block) -> bool {
    block_len(b) == 1 && (block_stmts(b).len() == 1 ==> simple_stmt_kind(block_stmts(b)[0].0))
}

pub assume_specification [Block::last_stmt] (b: &Block) -> (r: Option<&LastStmt>)
    ensures r is Some == block_last(b) is Some, r is Some ==> *r->Some_0 == block_last(b)->Some_0.0;
pub assume_specification [LocalAssignment::names] (a: &LocalAssignment) -> (r: &Punctuated<TokenReference>);
pub assume_specification [LocalAssignment::expressions] (a: &LocalAssignment) -> (r: &Punctuated<Expression>);
pub assume_specification [Assignment::variables] (a: &Assignment) -> (r: &Punctuated<Var>);
pub assume_specification [Assignment::expressions] (a: &Assignment) -> (r: &Punctuated<Expression>);
pub assume_specification<T> [Punctuated::<T>::len] (p: &Punctuated<T>) -> (r: usize);

// ---- if statements: the blocks they carry ----
#[verifier::external_type_specification] #[verifier::external_body] pub struct ExElseIf(ElseIf);
pub uninterp spec fn if_block(n: &If) -> Block;
pub uninterp spec fn if_else_ifs(n: &If) -> Option<nat>;     // the number of elseif branches (None: no list)
pub uninterp spec fn if_else(n: &If) -> Option<Block>;
pub uninterp spec fn if_else_tok(n: &If) -> bool;
pub open spec fn census(b: &Block) -> (nat, bool) { (block_stmts(b).len(), block_last(b) is Some) }
// C02 at the level of statements: the same number of statements in every block of the `if`, the same branches
pub open spec fn same_census(a: &If, r: &If) -> bool {
    census(&if_block(a)) == census(&if_block(r)) && if_else_ifs(a) == if_else_ifs(r)
    && (if_else(a) is Some) == (if_else(r) is Some) && (if_else(a) is Some ==> census(&if_else(a)->Some_0) == census(&if_else(r)->Some_0))
    && if_else_tok(a) == if_else_tok(r)
}
pub open spec fn if_rest_same(a: &If, r: &If) -> bool { if_block(r) == if_block(a) && if_else_ifs(r) == if_else_ifs(a) && if_else(r) == if_else(a) && if_else_tok(r) == if_else_tok(a) }
pub assume_specification [If::block] (n: &If) -> (r: &Block) ensures *r == if_block(n);
pub assume_specification [If::else_if] (n: &If) -> (r: Option<&Vec<ElseIf>>) ensures (r is Some) == (if_else_ifs(n) is Some), r is Some ==> r->Some_0@.len() == if_else_ifs(n)->Some_0;
pub assume_specification [If::else_block] (n: &If) -> (r: Option<&Block>) ensures (r is Some) == (if_else(n) is Some), r is Some ==> *r->Some_0 == if_else(n)->Some_0;
pub assume_specification [If::else_token] (n: &If) -> (r: Option<&TokenReference>) ensures (r is Some) == if_else_tok(n);
pub assume_specification [If::if_token] (n: &If) -> (r: &TokenReference);
pub assume_specification [If::then_token] (n: &If) -> (r: &TokenReference);
pub assume_specification [If::end_token] (n: &If) -> (r: &TokenReference);
pub assume_specification [If::condition] (n: &If) -> (r: &Expression);
pub assume_specification [If::with_if_token] (n: If, t: TokenReference) -> (r: If) ensures if_rest_same(&n, &r);
pub assume_specification [If::with_then_token] (n: If, t: TokenReference) -> (r: If) ensures if_rest_same(&n, &r);
pub assume_specification [If::with_end_token] (n: If, t: TokenReference) -> (r: If) ensures if_rest_same(&n, &r);
pub assume_specification [If::with_condition] (n: If, e: Expression) -> (r: If) ensures if_rest_same(&n, &r);
pub assume_specification [If::with_block] (n: If, b: Block) -> (r: If)
    ensures if_block(&r) == b, if_else_ifs(&r) == if_else_ifs(&n), if_else(&r) == if_else(&n), if_else_tok(&r) == if_else_tok(&n);
pub assume_specification [If::with_else_if] (n: If, e: Option<Vec<ElseIf>>) -> (r: If)
    ensures if_else_ifs(&r) == (if e is Some { Some(e->Some_0@.len()) } else { None }), if_block(&r) == if_block(&n), if_else(&r) == if_else(&n), if_else_tok(&r) == if_else_tok(&n);
pub assume_specification [If::with_else] (n: If, b: Option<Block>) -> (r: If)
    ensures if_else(&r) == b, if_block(&r) == if_block(&n), if_else_ifs(&r) == if_else_ifs(&n), if_else_tok(&r) == if_else_tok(&n);
pub assume_specification [If::with_else_token] (n: If, t: Option<TokenReference>) -> (r: If)
    ensures if_else_tok(&r) == (t is Some), if_block(&r) == if_block(&n), if_else_ifs(&r) == if_else_ifs(&n), if_else(&r) == if_else(&n);
pub assume_specification [<If as Clone>::clone] (n: &If) -> (r: If) ensures r == *n;

// ---- function bodies ----
pub uninterp spec fn fb_block(f: &FunctionBody) -> Block;
pub uninterp spec fn fb_paren_trail_comments(f: &FunctionBody) -> bool;   // a comment behind the `)` of the parameters
pub uninterp spec fn fb_end_lead_comments(f: &FunctionBody) -> bool;      // a comment in front of `end`
pub assume_specification [FunctionBody::block] (f: &FunctionBody) -> (r: &Block) ensures *r == fb_block(f);
"""

WRAP = r"""
#[verifier::external_body] pub fn first_stmt(b: &Block) -> (r: Option<&Stmt>)
    ensures r is Some == (block_stmts(b).len() > 0), r is Some ==> *r->Some_0 == block_stmts(b)[0].0 { unimplemented!() /* b.stmts().next() */ }
#[verifier::external_body] pub fn paren_close_trailing_comments(f: &FunctionBody) -> (r: bool) ensures r == fb_paren_trail_comments(f) { unimplemented!() }
#[verifier::external_body] pub fn end_leading_comments(f: &FunctionBody) -> (r: bool) ensures r == fb_end_lead_comments(f) { unimplemented!() }
#[verifier::external_body] pub fn format_else_ifs(ctx: &Context, if_node: &If, shape: Shape) -> (r: Option<Vec<ElseIf>>)
    ensures (r is Some) == (if_else_ifs(if_node) is Some), r is Some ==> r->Some_0@.len() == if_else_ifs(if_node)->Some_0 { unimplemented!() /* if_node.else_if().map(|l| l.iter().map(|e| format_else_if(ctx, e, shape)).collect()) */ }
#[verifier::external_body] pub fn stmt_count(b: &Block) -> (r: usize) ensures r == block_stmts(b).len() { unimplemented!() /* b.stmts().count() */ }
"""

# wherever they occur (any number of times, none included): a rewrite of these functions keeps being read through the wrappers
def stmts_holes(var="block"):
    return [Hole(f"{var}.stmts().next()", f"verif_collapse::first_stmt({var})", count=None, kind="wrapper", why="Block::stmts() is an iterator: its first item"),
            Hole(f"{var}.stmts().count()", f"verif_collapse::stmt_count({var})", count=None, kind="wrapper", why="Block::stmts() is an iterator: the number of items")]

def items():
    its = common_items()
    its += [
        Raw(vnode_impls([("Block", "NodeKey::Other(other_key(*self))", "")])),
        Raw(SPEC),
        Raw(WRAP, module="verif_collapse"),
        Fn(TU, "contains_comments", mode="stub", sig_edits=[VN], contract="ensures r == has_comments(node.key()),",
           note="Node::tokens().any(token_contains_comments): defines has_comments"),
        Fn(TU, "is_last_stmt_simple", mode="stub", note="decides on the kind of `return` values only; no statement is counted here"),
        Fn(TU, "is_block_empty", contract="""
    ensures r == (block_len(block) == 0), //# C02.empty_block_is_empty
""", edits=stmts_holes()),
        Fn(TU, "is_block_simple", contract="""
    ensures r ==> one_simple_statement(block), //# C02.simple_block_is_one_statement
""", edits=stmts_holes()),
        Fn(STM, "is_if_guard", contract="""
    ensures r ==> if_else_ifs(if_node) is None && if_else(if_node) is None && one_simple_statement(&if_block(if_node)), //# C02.if_guard_is_one_statement
            r ==> !has_comments(NodeKey::Other(other_key(if_block(if_node)))), //# C03.if_guard_has_no_comments
"""),
        Fn(CTX, "should_collapse_simple_functions", impl_of="Context", mode="stub", proved_in="ctx"),
        Fn(CTX, "should_collapse_simple_conditionals", impl_of="Context", mode="stub", proved_in="ctx"),
        Fn(FUN, "block_contains_nested_function", mode="stub", note="looks into the expressions of the one statement; counts nothing"),
        Fn(FUN, "should_collapse_function_body", contract="""
    ensures r ==> block_len(&fb_block(function_body)) == 0 || one_simple_statement(&fb_block(function_body)), //# C02.collapsed_function_is_one_statement
            r ==> !has_comments(NodeKey::Other(other_key(fb_block(function_body)))) && !fb_paren_trail_comments(function_body) && !fb_end_lead_comments(function_body), //# C03.collapsed_function_has_no_comments
""", edits=[
            Hole("""function_body
        .parameters_parentheses()
        .tokens()
        .1
        .trailing_trivia()
        .any(trivia_util::trivia_is_comment)""", "verif_collapse::paren_close_trailing_comments(function_body)", kind="wrapper", why="iterator over the trailing trivia of `)`", optional=True),
            Hole("""function_body
            .end_token()
            .leading_trivia()
            .any(trivia_util::trivia_is_comment)""", "verif_collapse::end_leading_comments(function_body)", kind="wrapper", why="iterator over the leading trivia of `end`", optional=True),
        ]),
        # ---- format_if ----
        Raw("""
impl UpdateTrivia for Stmt {
    open spec fn same_sem_u(&self, r: &Self) -> bool { true }
    open spec fn trivia_ok(&self, l: FormatTriviaType, t: FormatTriviaType, r: &Self) -> bool { true }
    #[verifier::external_body] fn update_trivia(&self, leading_trivia: FormatTriviaType, trailing_trivia: FormatTriviaType) -> (r: Self) { unimplemented!() }
}
impl UpdateTrivia for LastStmt {
    open spec fn same_sem_u(&self, r: &Self) -> bool { true }
    open spec fn trivia_ok(&self, l: FormatTriviaType, t: FormatTriviaType, r: &Self) -> bool { true }
    #[verifier::external_body] fn update_trivia(&self, leading_trivia: FormatTriviaType, trailing_trivia: FormatTriviaType) -> (r: Self) { unimplemented!() }
}
"""),
        Item(GEN, "enum", "EndTokenType"),
        Fn(GEN, "format_symbol", mode="stub"),
        Fn(GEN, "format_end_token", mode="stub"),
        Fn(EX, "format_expression", mode="stub", proved_in="expr"),
        Fn(EX, "hang_expression_trailing_newline", mode="stub"),
        Fn(STM, "remove_condition_parentheses", mode="stub", proved_in="stmt"),
        Fn(STM, "should_indent_further", mode="stub", sig_edits=[Hole("<'a>(trivia: impl Iterator<Item = &'a Token>, shape: Shape)", "(trivia: Vec<Token>, shape: Shape)", kind="proxy", why="iterator parameter")]),
        Fn(STM, "format_stmt_no_trivia", mode="stub", proved_in="block", contract="requires simple_stmt_kind(*stmt),",
           note="its second precondition (the statement is formatted normally: not ignored, in range) is not carried here: an `if` that reaches format_if is itself formatted normally and an ignore comment in its body makes is_if_guard false (argued, not proved)"),
        Fn(BLK, "format_last_stmt_no_trivia", mode="stub"),
        Fn(BLK, "format_block", mode="stub", proved_in="block", contract="ensures census(&r) == census(block),"),
        Fn(STM, "format_if", contract="""
    requires if_else_tok(if_node) == (if_else(if_node) is Some),   // parsed input: an `else` token comes with an else block
    ensures same_census(if_node, &r), //# C02.format_if_keeps_statements
""", edits=[
            DebugAsserts(),
            Hole('const IF_LEN: usize = "if ".len();', "let IF_LEN: usize = hole_usize();", why="str::len in a const: a width, used for layout only"),
            Hole('const THEN_LEN: usize = " then".len();', "let THEN_LEN: usize = hole_usize();", why="str::len in a const: a width, used for layout only"),
            Hole("strip_trivia(&singleline_condition).to_string().len()", "hole_usize()", why="Display width of the condition"),
            Hole("strip_trivia(&singleline_if).to_string().len()", "hole_usize()", why="Display width of the one-line form"),
            Hole("""if_node.else_if().map(|else_if| {
        else_if
            .iter()
            .map(|else_if| format_else_if(ctx, else_if, shape))
            .collect()
    })""", "verif_collapse::format_else_ifs(ctx, if_node, shape)", kind="wrapper", why="closure over the elseif branches: one formatted branch per branch"),
            Hole("should_indent_further(else_token.leading_trivia(), shape)", "should_indent_further(hole_vec_token(), shape)", why="iterator argument; chooses a comment indentation only"),
            Hole("if_node.block().stmts().next()", "verif_collapse::first_stmt(if_node.block())", count=None, kind="wrapper", why="Block::stmts() is an iterator: its first item"),
        ]),
    ]
    return its

LABELS = {
    "C02.empty_block_is_empty": dict(props=["C02"], text="is_block_empty: true exactly for a block without statement and without last statement"),
    "C02.if_guard_is_one_statement": dict(props=["C02", "C07"], text="is_if_guard: an `if` that is collapsed has no elseif / else and exactly one statement of a printable kind in its body"),
    "C03.if_guard_has_no_comments": dict(props=["C03"], text="is_if_guard: an `if` that is collapsed has no comment in its body (the one-line form replaces the statement's trivia)"),
    "C02.collapsed_function_is_one_statement": dict(props=["C02", "C07"], text="should_collapse_function_body: a function body that is collapsed is empty or one statement of a printable kind"),
    "C03.collapsed_function_has_no_comments": dict(props=["C03", "C01"], text="should_collapse_function_body: a function body that is collapsed has no comment in the body, behind `)` or in front of `end`"),
    "C02.format_if_keeps_statements": dict(props=["C02"], text="format_if: collapsed or not, the result has the same number of statements (and the same presence of a last statement) in its body and in its else block, and the same elseif / else branches"),
    "C02.simple_block_is_one_statement": dict(props=["C02", "C07"], text="is_block_simple: a block that counts as simple consists of exactly one statement — a last statement, or one assignment / local assignment / call / goto (the kinds the one-line path can print) — and nothing else"),
}

UNIT = Unit("collapse", items() + [VERIF_MOD], LABELS, macros=[(GEN, "fmt_symbol")], header=HEADER + "use full_moon::ast::ElseIf;\n")
