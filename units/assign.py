"""Unit `assign`: src/formatters/assignment.rs attempt_assignment_tactics — C02: whichever of its layout tactics wins (one line, hanging at
`=`, one value per line with the values that do not fit hung again from the *original* expression), the values come out as the
same expressions in the same order, and the `=` stays the `=`.

The function trial-formats the list up to four times and picks one result; every candidate comes from the generic list formatters
(contracts proved in unit `lists`) applied to format_expression (unit `expr`), or from hang_expression on the original value.
The loop that re-hangs the values of a multi-line list pairs each formatted item with its original by `into_pairs().zip(..).enumerate()`:
it is written out as the two iterators and a counter it stands for; its closure gets a contract (its text is unchanged)."""
from gen import Unit, Fn, Item, Raw, RawFile, Hole, After, Before, Loop, Between
from common import *
import lists as LISTS

ASG = "src/formatters/assignment.rs"
GEN = "src/formatters/general.rs"

SPEC = r"""
pub open spec fn pvals<T>(p: Punctuated<T>) -> Seq<T> { ppairs(p).map_values(|x: Pair<T>| pair_value(x)) }
pub open spec fn expr_sig(p: Punctuated<Expression>) -> Seq<Skel> { pvals(p).map_values(|e: Expression| erase(skel(e))) }
pub open spec fn exprs_wf(p: Punctuated<Expression>) -> bool { forall|i: int| 0 <= i < ppairs(p).len() ==> wf(skel(pair_value(#[trigger] ppairs(p)[i]))) }
pub assume_specification<T> [Punctuated::<T>::len] (p: &Punctuated<T>) -> (r: usize) ensures r == ppairs(*p).len();
pub assume_specification<T> [Punctuated::<T>::is_empty] (p: &Punctuated<T>) -> (r: bool) ensures r == (ppairs(*p).len() == 0);
pub assume_specification<T> [Punctuated::<T>::into_pairs] (p: Punctuated<T>) -> (r: impl Iterator<Item = Pair<T>>) ensures it_rest(&r) == ppairs(p);
pub assume_specification<T> [Punctuated::<T>::iter] (p: &Punctuated<T>) -> (r: full_moon::ast::punctuated::Iter<'_, T>)
    ensures it_rest(&r).len() == ppairs(*p).len(), forall|i: int| 0 <= i < it_rest(&r).len() ==> *(#[trigger] it_rest(&r)[i]) == pair_value(ppairs(*p)[i]);
#[verifier::external_type_specification] #[verifier::external_body] #[verifier::reject_recursive_types(T)] pub struct ExIter<'a, T>(full_moon::ast::punctuated::Iter<'a, T>);
// Pair::map applies the closure to the value and keeps the punctuation
pub assume_specification<T, U, F: FnOnce(T) -> U> [Pair::<T>::map] (p: Pair<T>, f: F) -> (r: Pair<U>)
    requires f.requires((pair_value(p),)), ensures f.ensures((pair_value(p),), pair_value(r));
#[verifier::external_body] pub fn first_expression(p: &Punctuated<Expression>) -> (r: &Expression) requires ppairs(*p).len() >= 1 ensures *r == pair_value(ppairs(*p)[0]) { unimplemented!() /* p.iter().next().unwrap() */ }
#[verifier::external_body] pub fn single_item_list(e: Expression) -> (r: Punctuated<Expression>) ensures ppairs(r).len() == 1, pair_value(ppairs(r)[0]) == e { unimplemented!() /* std::iter::once(Pair::new(e, None)).collect() */ }
"""

WRAPPERS = r"""
// format_punctuated / format_punctuated_multiline applied to format_expression: the calls of this function, each verified from the generic
// contract (unit lists) and format_expression's
pub fn format_expressions_single(ctx: &Context, expressions: &Punctuated<Expression>, shape: Shape) -> (r: Punctuated<Expression>)
    requires exprs_wf(*expressions), ensures ppairs(r).len() == ppairs(*expressions).len(), expr_sig(r) == expr_sig(*expressions)
{
    proof { assert forall|i: int, s: Shape| 0 <= i < ppairs(*expressions).len() implies #[trigger] call_requires(format_expression, (ctx, &pair_value(ppairs(*expressions)[i]), s)) by { } }
    let r = format_punctuated(ctx, expressions, shape, format_expression);
    proof { assert forall|i: int| 0 <= i < ppairs(r).len() implies erase(skel(pair_value(#[trigger] ppairs(r)[i]))) == erase(skel(pair_value(ppairs(*expressions)[i]))) by { assert(by_item_formatter(format_expression, ctx, pair_value(ppairs(*expressions)[i]), pair_value(ppairs(r)[i]))); }
            assert(expr_sig(r) =~= expr_sig(*expressions)); }
    r
}
pub fn format_expressions_multi_hang(ctx: &Context, expressions: &Punctuated<Expression>, shape: Shape, hang_level: Option<usize>) -> (r: Punctuated<Expression>)
    requires exprs_wf(*expressions), ensures ppairs(r).len() == ppairs(*expressions).len(), expr_sig(r) == expr_sig(*expressions)
{
    proof { assert forall|i: int, s: Shape| 0 <= i < ppairs(*expressions).len() implies #[trigger] call_requires(format_expression, (ctx, &pair_value(ppairs(*expressions)[i]), s)) by { } }
    let r = format_punctuated_multiline(ctx, expressions, shape, format_expression, hang_level);
    proof { assert forall|i: int| 0 <= i < ppairs(r).len() implies erase(skel(pair_value(#[trigger] ppairs(r)[i]))) == erase(skel(pair_value(ppairs(*expressions)[i]))) by { assert(by_item_formatter_modulo_trivia(format_expression, ctx, pair_value(ppairs(*expressions)[i]), pair_value(ppairs(r)[i]))); }
            assert(expr_sig(r) =~= expr_sig(*expressions)); }
    r
}
pub fn format_expressions_multi(ctx: &Context, expressions: &Punctuated<Expression>, shape: Shape) -> (r: Punctuated<Expression>)
    requires exprs_wf(*expressions), ensures ppairs(r).len() == ppairs(*expressions).len(), expr_sig(r) == expr_sig(*expressions)
{
    proof { assert forall|i: int, s: Shape| 0 <= i < ppairs(*expressions).len() implies #[trigger] call_requires(format_expression, (ctx, &pair_value(ppairs(*expressions)[i]), s)) by { } }
    let r = format_punctuated_multiline(
                ctx,
                expressions,
                shape,
                format_expression,
                None,
            );
    proof { assert forall|i: int| 0 <= i < ppairs(r).len() implies erase(skel(pair_value(#[trigger] ppairs(r)[i]))) == erase(skel(pair_value(ppairs(*expressions)[i]))) by { assert(by_item_formatter_modulo_trivia(format_expression, ctx, pair_value(ppairs(*expressions)[i]), pair_value(ppairs(r)[i]))); }
            assert(expr_sig(r) =~= expr_sig(*expressions)); }
    r
}
"""

TRY_STUB = Fn(GEN, "try_format_punctuated", mode="stub", proved_in="lists", sig_edits=[Hole("T: Node\n        + GetLeadingTrivia", "T: VNode\n        + GetLeadingTrivia", kind="proxy", why="proxy trait for the sealed full_moon::node::Node"),
                                                     Hole("+ HasInlineComments\n        + std::fmt::Display,", "+ HasInlineComments,", kind="proxy", why="the Display bound is only used for a width")], contract="""
    requires forall|i: int, s: Shape| 0 <= i < ppairs(*old).len() ==> #[trigger] value_formatter.requires((ctx, &pair_value(ppairs(*old)[i]), s)),
    ensures ppairs(r).len() == ppairs(*old).len(),
            forall|i: int| 0 <= i < ppairs(*old).len() ==> by_item_formatter_modulo_trivia(value_formatter, ctx, pair_value(#[trigger] ppairs(*old)[i]), pair_value(ppairs(r)[i])),
""")

GENERIC_STUBS = [
    Fn(GEN, "format_punctuated", mode="stub", proved_in="lists", sig_edits=[Hole("T: std::fmt::Display,", "", kind="proxy", why="the Display bound is only used for a width")], contract="""
    requires forall|i: int, s: Shape| 0 <= i < ppairs(*old).len() ==> #[trigger] value_formatter.requires((ctx, &pair_value(ppairs(*old)[i]), s)),
    ensures ppairs(r).len() == ppairs(*old).len(),
            forall|i: int| 0 <= i < ppairs(*old).len() ==> by_item_formatter(value_formatter, ctx, pair_value(#[trigger] ppairs(*old)[i]), pair_value(ppairs(r)[i])),
"""),
    Fn(GEN, "format_punctuated_multiline", mode="stub", proved_in="lists", sig_edits=[Hole("T: Node + GetLeadingTrivia", "T: VNode + GetLeadingTrivia", kind="proxy", why="proxy trait for the sealed full_moon::node::Node")], contract="""
    requires forall|i: int, s: Shape| 0 <= i < ppairs(*old).len() ==> #[trigger] value_formatter.requires((ctx, &pair_value(ppairs(*old)[i]), s)),
    ensures ppairs(r).len() == ppairs(*old).len(),
            forall|i: int| 0 <= i < ppairs(*old).len() ==> by_item_formatter_modulo_trivia(value_formatter, ctx, pair_value(#[trigger] ppairs(*old)[i]), pair_value(ppairs(r)[i])),
"""),
]

REHANG_INV = """
        invariant
            0 <= k <= ppairs(*expressions).len(),
            pk_rest(&vx_a).len() == ppairs(multiline_expr0).len() - k, ppairs(multiline_expr0).len() == ppairs(*expressions).len(),
            forall|j: int| 0 <= j < pk_rest(&vx_a).len() ==> #[trigger] pk_rest(&vx_a)[j] == ppairs(multiline_expr0)[k + j],
            pk_rest(&vx_b).len() == ppairs(*expressions).len() - k,
            forall|j: int| 0 <= j < pk_rest(&vx_b).len() ==> *(#[trigger] pk_rest(&vx_b)[j]) == pair_value(ppairs(*expressions)[k + j]),
            exprs_wf(*expressions), expr_sig(multiline_expr0) == expr_sig(*expressions),
            idx == k, ppairs(*expressions).len() <= usize::MAX,
            ppairs(output_expr).len() == k, //# C02.assignment_rehang_loop
            forall|i: int| 0 <= i < k ==> erase(skel(pair_value(#[trigger] ppairs(output_expr)[i]))) == erase(skel(pair_value(ppairs(*expressions)[i]))), //# C02.assignment_rehang_loop
        ensures k == ppairs(*expressions).len(),
        decreases pk_rest(&vx_a).len(),
"""

def items():
    its = common_items()
    its += [
        Raw(LISTS.SPEC, module="formatters::general"),
        *GENERIC_STUBS,
        Raw(SPEC),
        Fn(EX, "format_expression", mode="stub", proved_in="expr", contract="requires wf(skel(*expression)), ensures erase(skel(r)) == erase(skel(*expression)),"),
        Fn(EX, "hang_expression", mode="stub", proved_in="expr", contract="requires wf(skel(*expression)), ensures erase(skel(r)) == erase(skel(*expression)),"),
        Fn(TU, "can_hang_expression", mode="stub"),
        Fn(TU, "take_leading_comments", mode="stub", contract="ensures node.same_sem(&r.0),"),
        Fn(TU, "prepend_newline_indent", mode="stub", contract="ensures node.same_sem(&r),"),
        Fn(TU, "token_contains_comments", mode="stub"),
        Fn(ASG, "calculate_hang_level", contract="decreases expression,"),
        Fn(ASG, "prevent_equals_hanging", mode="stub"),
        Fn(ASG, "hang_equal_token", contract="ensures tok_of(r) == tok_of(*equal_token), //# C02.hang_equal_token_same", edits=[
            Between("let equal_token_trailing_trivia = equal_token\n        .trailing_trivia()", ".collect();", "let equal_token_trailing_trivia = hole_vec_token();", why="iterator chain over the trailing comments of `=` (comment handling: C03, not claimed here)"),
        ]),
        Fn(ASG, "hang_punctuated_list", contract="""
    requires ppairs(*punctuated).len() == 1, exprs_wf(*punctuated),   // its `assert!(punctuated.len() == 1)` (assignment.rs:60, one of the assertions C07 names) is an obligation here; both callers establish it
    ensures ppairs(r).len() == 1, expr_sig(r) == expr_sig(*punctuated), //# C02.hang_punctuated_list_same
""", edits=[
            Hole("for (idx, pair) in punctuated.pairs().enumerate() {", "let mut vx_it = peekable(punctuated.pairs());\n    let ghost mut k: int = 0;\n    let mut idx: usize = 0;\n    while let Some(pair) = vx_it.next() {", kind="desugar", why="for over an enumerated iterator: written as its definition (a counter next to the Peekable wrapper)"),
            Between("pair.punctuation().map(|x| {", "            }),", "match pair.punctuation() { Some(x) => Some(fmt_symbol!(ctx, x, \",\", shape).update_trailing_trivia(FormatTriviaType::Append(\n                    vec![create_newline_trivia(ctx)],\n                ))), None => None },", kind="rewrite", why="Option::map with a closure, written as the match it is"),
            Loop("while let Some(pair) = vx_it.next()", """
        invariant
            0 <= k <= ppairs(*punctuated).len(), ppairs(*punctuated).len() == 1, exprs_wf(*punctuated),
            pk_rest(&vx_it).len() == ppairs(*punctuated).len() - k,
            forall|j: int| 0 <= j < pk_rest(&vx_it).len() ==> *(#[trigger] pk_rest(&vx_it)[j]) == ppairs(*punctuated)[k + j],
            idx == k,
            ppairs(output).len() == k, //# C02.hang_punctuated_list_loop
            forall|i: int| 0 <= i < k ==> erase(skel(pair_value(#[trigger] ppairs(output)[i]))) == erase(skel(pair_value(ppairs(*punctuated)[i]))), //# C02.hang_punctuated_list_loop
        ensures k == ppairs(*punctuated).len(),
        decreases pk_rest(&vx_it).len(),
""", step="idx = idx + 1; proof { k = k + 1; }", enter="proof { assert(wf(skel(pair_value(ppairs(*punctuated)[k])))); }"),
            Before("output\n}", "proof { assert(expr_sig(output) =~= expr_sig(*punctuated)); }\n    "),
        ]),
        Raw(WRAPPERS, module="formatters::assignment"),
        Fn(ASG, "attempt_assignment_tactics", contract="""
    requires exprs_wf(*expressions), ppairs(*expressions).len() >= 1,
    ensures ppairs(r.0).len() == ppairs(*expressions).len(), //# C02.assignment_values_same
            expr_sig(r.0) == expr_sig(*expressions), //# C02.assignment_values_same
            tok_of(r.1) == tok_of(equal_token), //# C02.assignment_values_same
""", edits=[
            Hole("""format_punctuated(
            ctx,
            expressions,
            hanging_shape.with_infinite_width(),
            format_expression,
        )""", "format_expressions_single(ctx, expressions, hanging_shape.with_infinite_width())", kind="wrapper", why="generic list formatter with format_expression: verified wrapper"),
            Hole("""format_punctuated_multiline(
                ctx,
                expressions,
                hanging_shape,
                format_expression,
                None,
            )""", "format_expressions_multi(ctx, expressions, hanging_shape)", kind="wrapper", why="generic list formatter with format_expression: verified wrapper"),
            Hole("format_punctuated(ctx, expressions, shape, format_expression)", "format_expressions_single(ctx, expressions, shape)", kind="wrapper", why="generic list formatter with format_expression: verified wrapper"),
            Hole("format_punctuated(ctx, expressions, equal_token_shape, format_expression)", "format_expressions_single(ctx, expressions, equal_token_shape)", kind="wrapper", why="generic list formatter with format_expression: verified wrapper"),
            Hole("trivia_util::punctuated_inline_comments(expressions, true)", "hole_bool()", why="iterator over the list looking for comments: chooses the layout only"),
            Hole(".take_first_line(&strip_trivia(&expr_list))", ".take_first_line(&expr_list)", why="strip_trivia only affects the measured width"),
            Hole("""for (idx, (formatted, original)) in
                multiline_expr.into_pairs().zip(expressions).enumerate()
            {""", """let ghost multiline_expr0 = multiline_expr; let ghost mut k: int = 0;
            let mut vx_a = peekable(multiline_expr.into_pairs());
            let mut vx_b = peekable(expressions.iter());
            let mut idx: usize = 0;
            while let Some(formatted) = vx_a.next() {
                let original = match vx_b.next() { Some(vx_o) => vx_o, None => { break; } };""", kind="desugar", why="`a.into_pairs().zip(b).enumerate()` written as what it stands for: two iterators advanced together (the first one first) and a counter"),
            Hole("formatted.value().has_inline_comments()", "hole_bool()", why="trivia_util::HasInlineComments (iterator over the tokens): chooses the layout only"),
            Hole(".take_first_line(&strip_leading_trivia(formatted.value()))", ".take_first_line(formatted.value())", why="strip_leading_trivia only affects the measured width"),
            Hole("output_expr.push(formatted.map(|_| {", "output_expr.push(formatted.map(|vx_unused: Expression| -> (vx_r: Expression) requires wf(skel(*original)) ensures erase(skel(vx_r)) == erase(skel(*original)) {", kind="rewrite", why="the closure gets a contract (Verus knows nothing about the result of a closure without one); `_` is named"),
            Loop("while let Some(formatted) = vx_a.next()", REHANG_INV, step="idx = idx + 1; proof { k = k + 1; }",
                 enter="proof { assert(expr_sig(multiline_expr0)[k] == expr_sig(*expressions)[k]); assert(wf(skel(pair_value(ppairs(*expressions)[k])))); }"),
            Hole("let expression = expressions.iter().next().unwrap();", "let expression = first_expression(expressions);", kind="wrapper", why="Punctuated::iter().next().unwrap()"),
            Hole("strip_trivia(expression).has_inline_comments()", "hole_bool()", why="trivia_util::HasInlineComments on a stripped copy: chooses the layout only"),
            Between("let leading_comments = leading_comments\n                .iter()", ".collect();", "let leading_comments = hole_vec_token();", why="iterator chain: the comments in front of the value, each on its own line (comment handling: C03)"),
            Hole("std::iter::once(Pair::new(expression, None)).collect()", "single_item_list(expression)", kind="wrapper", why="iterator: a list of one item"),
            Hole(".take_first_line(&strip_trailing_trivia(&expr_list))", ".take_first_line(&expr_list)", why="strip_trailing_trivia only affects the measured width"),
            Hole(".take_first_line(&strip_trivia(&hanging_expr_list))", ".take_first_line(&hanging_expr_list)", why="strip_trivia only affects the measured width"),
            Hole("expression.has_inline_comments()", "hole_bool()", why="trivia_util::HasInlineComments: chooses the layout only"),
            Hole(".take_first_line(&strip_trailing_trivia(&hanging_equal_token_expr_list))", ".take_first_line(&hanging_equal_token_expr_list)", why="strip_trailing_trivia only affects the measured width"),
            Between('&& format!("{hanging_equal_token_expr_list}").lines().count() + 1', '< format!("{expr_list}").lines().count()', "&& hole_bool()", why="Display line counts of two candidates: chooses the layout only"),
        ]),
        # ---- assignments ----
        Raw("""
pub trait HasInlineComments { fn has_inline_comments(&self) -> bool; }
impl HasInlineComments for Var { #[verifier::external_body] fn has_inline_comments(&self) -> bool { unimplemented!() } }
impl HasInlineComments for TokenReference { #[verifier::external_body] fn has_inline_comments(&self) -> bool { unimplemented!() } }
""", module="formatters::trivia_util"),
        TRY_STUB,
        Raw(node_specs("Assignment", "n_asg", [("variables", "Punctuated<Var>", "ref"), ("equal_token", "TokenReference", "ref"), ("expressions", "Punctuated<Expression>", "ref")]) + """
pub assume_specification [Assignment::new] (v: Punctuated<Var>, e: Punctuated<Expression>) -> (r: Assignment) ensures n_asg_variables(&r) == v, n_asg_expressions(&r) == e;
pub open spec fn var_sig(p: Punctuated<Var>) -> Seq<int> { pvals(p).map_values(|v: Var| var_id(v)) }
impl VNode for Var {
    open spec fn key(&self) -> NodeKey { NodeKey::Other(other_key(*self)) }
    open spec fn line_open(&self) -> bool { other_line_open(*self) }
    #[verifier::external_body] fn start_position(&self) -> (r: Option<Position>) { unimplemented!() }
    #[verifier::external_body] fn end_position(&self) -> (r: Option<Position>) { unimplemented!() }
    #[verifier::external_body] fn leading_trivia_vec(&self) -> (r: Vec<&Token>) { unimplemented!() }
}
impl UpdateLeadingTrivia for Var {
    open spec fn same_sem(&self, r: &Self) -> bool { var_id(*r) == var_id(*self) }
    open spec fn lead_ok(&self, t: FormatTriviaType, r: &Self) -> bool { true }
    open spec fn on_new_line(&self) -> bool { other_nl(*self) }
    open spec fn rest_same(&self, r: &Self) -> bool { true }
    #[verifier::external_body] fn update_leading_trivia(&self, leading_trivia: FormatTriviaType) -> (r: Self) { unimplemented!() }
}
impl UpdateTrailingTrivia for Var {
    open spec fn same_sem_t(&self, r: &Self) -> bool { var_id(*r) == var_id(*self) }
    open spec fn trail_ok(&self, t: FormatTriviaType, r: &Self) -> bool { true }
    open spec fn not_open(&self) -> bool { other_closed(*self) }
    #[verifier::external_body] fn update_trailing_trivia(&self, trailing_trivia: FormatTriviaType) -> (r: Self) { unimplemented!() }
}
impl GetLeadingTrivia for Var {
    open spec fn leads_with_comment(&self) -> bool { other_lc(*self) }
    #[verifier::external_body] fn leading_trivia(&self) -> Vec<Token> { unimplemented!() }
    #[verifier::external_body] fn has_leading_comments(&self, search: CommentSearch) -> (r: bool) { unimplemented!() }
    #[verifier::external_body] fn leading_comments(&self) -> Vec<Token> { unimplemented!() }
}
impl GetTrailingTrivia for Var {
    open spec fn ends_open(&self) -> bool { !other_closed(*self) }
    #[verifier::external_body] fn trailing_trivia(&self) -> Vec<Token> { unimplemented!() }
    #[verifier::external_body] fn has_trailing_comments(&self, search: CommentSearch) -> (r: bool) { unimplemented!() }
    #[verifier::external_body] fn trailing_comments(&self) -> Vec<Token> { unimplemented!() }
}
impl GetTrailingTrivia for Punctuated<Var> {
    open spec fn ends_open(&self) -> bool { !other_closed(*self) }
    #[verifier::external_body] fn trailing_trivia(&self) -> Vec<Token> { unimplemented!() }
    #[verifier::external_body] fn has_trailing_comments(&self, search: CommentSearch) -> (r: bool) { unimplemented!() }
    #[verifier::external_body] fn trailing_comments(&self) -> Vec<Token> { unimplemented!() }
}
// try_format_punctuated(ctx, variables, shape, format_var, Some(1)): the call of format_assignment_no_trivia, verified from the generic contract
pub fn format_variables(ctx: &Context, variables: &Punctuated<Var>, shape: Shape) -> (r: Punctuated<Var>)
    ensures ppairs(r).len() == ppairs(*variables).len(), var_sig(r) == var_sig(*variables)
{
    let r = try_format_punctuated(
        ctx,
        variables,
        shape,
        format_var,
        Some(1),
    );
    proof { assert forall|i: int| 0 <= i < ppairs(r).len() implies var_id(pair_value(#[trigger] ppairs(r)[i])) == var_id(pair_value(ppairs(*variables)[i])) by { assert(by_item_formatter_modulo_trivia(format_var, ctx, pair_value(ppairs(*variables)[i]), pair_value(ppairs(r)[i]))); }
            assert(var_sig(r) =~= var_sig(*variables)); }
    r
}
""", module="formatters::assignment"),
        Fn(EX, "format_var", mode="stub", contract="ensures var_id(r) == var_id(*var),", note="names through format_token_reference, prefix/suffix chains through format_var_expression (class C: leaf identity)"),
        Fn(GEN, "format_symbol", mode="stub", proved_in="tok", contract="ensures tok_of(r) == tok_of(*wanted_symbol), tr_token(r) == tr_token(*wanted_symbol),"),
        Fn(ASG, "format_assignment_no_trivia", contract="""
    requires exprs_wf(n_asg_expressions(assignment)), ppairs(n_asg_expressions(assignment)).len() >= 1,
    ensures var_sig(n_asg_variables(&r)) == var_sig(n_asg_variables(assignment)), //# C02.assignment_same
            expr_sig(n_asg_expressions(&r)) == expr_sig(n_asg_expressions(assignment)), //# C02.assignment_same
""", edits=[
            Hole("""try_format_punctuated(
        ctx,
        assignment.variables(),
        shape.with_infinite_width(),
        format_var,
        Some(1),
    )""", "format_variables(ctx, assignment.variables(), shape.with_infinite_width())", kind="wrapper", why="generic list formatter with format_var: verified wrapper"),
            Hole("try_format_punctuated(ctx, assignment.variables(), shape, format_var, Some(1))", "format_variables(ctx, assignment.variables(), shape)", kind="wrapper", why="generic list formatter with format_var: verified wrapper"),
            Hole("""format_punctuated(
        ctx,
        assignment.expressions(),
        shape.with_infinite_width(),
        format_expression,
    )""", "format_expressions_single(ctx, assignment.expressions(), shape.with_infinite_width())", kind="wrapper", why="generic list formatter with format_expression: verified wrapper"),
            Hole("trivia_util::punctuated_inline_comments(assignment.expressions(), true)", "hole_bool()", why="iterator over the list looking for comments: chooses the layout only"),
            Hole('const EQUAL_TOKEN_LEN: usize = "= ".len();', "let EQUAL_TOKEN_LEN: usize = hole_usize();", why="str::len in a const: a width"),
            Between("+ (strip_leading_trivia(&var_list).to_string().len()\n            + 3", "+ strip_trailing_trivia(&expr_list).to_string().len());", "+ hole_usize();", why="Display widths of the two lists"),
            Hole("let shape = shape + (strip_leading_trivia(&var_list).to_string().len() + 3);", "let shape = shape + hole_usize();", why="Display width of the variable list"),
        ]),
        # ---- local assignments ----
        Raw(node_specs("LocalAssignment", "n_lasg", [("local_token", "TokenReference", "-"), ("names", "Punctuated<TokenReference>", "ref"), ("equal_token", "TokenReference", "opt"), ("expressions", "Punctuated<Expression>", "ref")]) + """
pub assume_specification [LocalAssignment::new] (names: Punctuated<TokenReference>) -> (r: LocalAssignment) ensures n_lasg_names(&r) == names;
#[cfg(feature = "lua54")] #[verifier::external_type_specification] #[verifier::external_body] pub struct ExAttribute(full_moon::ast::lua54::Attribute);
#[cfg(feature = "luau")] #[verifier::external_type_specification] #[verifier::external_body] pub struct ExTypeSpecifier(full_moon::ast::luau::TypeSpecifier);
#[cfg(feature = "lua54")] pub assume_specification [LocalAssignment::with_attributes] (n: LocalAssignment, v: Vec<Option<full_moon::ast::lua54::Attribute>>) -> (r: LocalAssignment)
    ensures n_lasg_names(&r) == n_lasg_names(&n), n_lasg_equal_token(&r) == n_lasg_equal_token(&n), n_lasg_expressions(&r) == n_lasg_expressions(&n);
#[cfg(feature = "luau")] pub assume_specification [LocalAssignment::with_type_specifiers] (n: LocalAssignment, v: Vec<Option<full_moon::ast::luau::TypeSpecifier>>) -> (r: LocalAssignment)
    ensures n_lasg_names(&r) == n_lasg_names(&n), n_lasg_equal_token(&r) == n_lasg_equal_token(&n), n_lasg_expressions(&r) == n_lasg_expressions(&n);
#[cfg(feature = "lua54")] #[verifier::external_body] pub fn format_attributes(ctx: &Context, assignment: &LocalAssignment, shape: Shape) -> Vec<Option<full_moon::ast::lua54::Attribute>> { unimplemented!() }
#[cfg(feature = "luau")] #[verifier::external_body] pub fn format_type_specifiers(ctx: &Context, assignment: &LocalAssignment, shape: Shape) -> Vec<Option<full_moon::ast::luau::TypeSpecifier>> { unimplemented!() }
pub open spec fn name_sig(p: Punctuated<TokenReference>) -> Seq<int> { pvals(p).map_values(|t: TokenReference| tok_of(t)) }
impl UpdateLeadingTrivia for Punctuated<TokenReference> {
    open spec fn same_sem(&self, r: &Self) -> bool { name_sig(*r) == name_sig(*self) }
    open spec fn lead_ok(&self, t: FormatTriviaType, r: &Self) -> bool { true }
    open spec fn on_new_line(&self) -> bool { other_nl(*self) }
    open spec fn rest_same(&self, r: &Self) -> bool { true }
    #[verifier::external_body] fn update_leading_trivia(&self, leading_trivia: FormatTriviaType) -> (r: Self) { unimplemented!() }
}
impl GetLeadingTrivia for Punctuated<TokenReference> {
    open spec fn leads_with_comment(&self) -> bool { other_lc(*self) }
    #[verifier::external_body] fn leading_trivia(&self) -> Vec<Token> { unimplemented!() }
    #[verifier::external_body] fn has_leading_comments(&self, search: CommentSearch) -> (r: bool) { unimplemented!() }
    #[verifier::external_body] fn leading_comments(&self) -> Vec<Token> { unimplemented!() }
}
impl GetTrailingTrivia for Punctuated<TokenReference> {
    open spec fn ends_open(&self) -> bool { !other_closed(*self) }
    #[verifier::external_body] fn trailing_trivia(&self) -> Vec<Token> { unimplemented!() }
    #[verifier::external_body] fn has_trailing_comments(&self, search: CommentSearch) -> (r: bool) { unimplemented!() }
    #[verifier::external_body] fn trailing_comments(&self) -> Vec<Token> { unimplemented!() }
}
impl VNode for Punctuated<TokenReference> {
    open spec fn key(&self) -> NodeKey { NodeKey::Other(other_key(*self)) }
    open spec fn line_open(&self) -> bool { other_line_open(*self) }
    #[verifier::external_body] fn start_position(&self) -> (r: Option<Position>) { unimplemented!() }
    #[verifier::external_body] fn end_position(&self) -> (r: Option<Position>) { unimplemented!() }
    #[verifier::external_body] fn leading_trivia_vec(&self) -> (r: Vec<&Token>) { unimplemented!() }
}
// try_format_punctuated(ctx, names, shape, format_token_reference, Some(1)): verified from the generic contract
pub fn format_names(ctx: &Context, names: &Punctuated<TokenReference>, shape: Shape) -> (r: Punctuated<TokenReference>)
    ensures ppairs(r).len() == ppairs(*names).len(), name_sig(r) == name_sig(*names)
{
    let r = try_format_punctuated(
        ctx,
        names,
        shape,
        format_token_reference,
        Some(1),
    );
    proof { assert forall|i: int| 0 <= i < ppairs(r).len() implies tok_of(pair_value(#[trigger] ppairs(r)[i])) == tok_of(pair_value(ppairs(*names)[i])) by { assert(by_item_formatter_modulo_trivia(format_token_reference, ctx, pair_value(ppairs(*names)[i]), pair_value(ppairs(r)[i]))); }
            assert(name_sig(r) =~= name_sig(*names)); }
    r
}
""", module="formatters::assignment"),
        Fn(GEN, "format_token_reference", mode="stub", proved_in="tok", contract="ensures tok_of(r) == tok_of(*token_reference),"),
        Fn(ASG, "names_below_local_comment", contract="ensures name_sig(r) == name_sig(name_list), //# C02.local_assignment_same"),
        Fn(ASG, "format_local_no_assignment", contract="""
    ensures name_sig(n_lasg_names(&r)) == name_sig(n_lasg_names(assignment)), //# C02.local_assignment_same
            ppairs(n_lasg_expressions(&r)).len() == 0 && n_lasg_equal_token(&r) is None, //# C02.local_assignment_same
""", edits=[
            Hole("""try_format_punctuated(
        ctx,
        assignment.names(),
        shape,
        format_token_reference,
        Some(1),
    )""", "format_names(ctx, assignment.names(), shape)", kind="wrapper", why="generic list formatter with format_token_reference: verified wrapper"),
            Between("let attributes = assignment\n        .attributes()", ".collect();", "let attributes = format_attributes(ctx, assignment, shape);", why="closure chain over the Lua 5.4 attributes of the names"),
            Between("let type_specifiers: Vec<Option<TypeSpecifier>> = assignment\n        .type_specifiers()", ".collect();", "let type_specifiers = format_type_specifiers(ctx, assignment, shape);", why="closure chain over the Luau type specifiers of the names"),
        ]),
        Fn(ASG, "format_local_assignment_no_trivia", contract="""
    requires exprs_wf(n_lasg_expressions(assignment)),
             ppairs(n_lasg_expressions(assignment)).len() > 0 ==> n_lasg_equal_token(assignment) is Some,   // parsed input: values come with an `=`
    ensures name_sig(n_lasg_names(&r)) == name_sig(n_lasg_names(assignment)), //# C02.local_assignment_same
            expr_sig(n_lasg_expressions(&r)) == expr_sig(n_lasg_expressions(assignment)), //# C02.local_assignment_same
            (n_lasg_equal_token(&r) is Some) == (ppairs(n_lasg_expressions(assignment)).len() > 0), //# C02.local_assignment_same
""", edits=[
            Between("let contains_comments = assignment\n            .equal_token()", "|| trivia_util::punctuated_inline_comments(assignment.expressions(), true);", "let contains_comments = hole_bool();", why="comment search over `=` and the values: chooses the layout only"),
            Hole("""try_format_punctuated(
            ctx,
            assignment.names(),
            shape.with_infinite_width(),
            format_token_reference,
            Some(1),
        )""", "format_names(ctx, assignment.names(), shape.with_infinite_width())", kind="wrapper", why="generic list formatter with format_token_reference: verified wrapper"),
            Hole("""try_format_punctuated(
                ctx,
                assignment.names(),
                shape,
                format_token_reference,
                Some(1),
            )""", "format_names(ctx, assignment.names(), shape)", kind="wrapper", why="generic list formatter with format_token_reference: verified wrapper"),
            Hole("""format_punctuated(
            ctx,
            assignment.expressions(),
            shape.with_infinite_width(),
            format_expression,
        )""", "format_expressions_single(ctx, assignment.expressions(), shape.with_infinite_width())", kind="wrapper", why="generic list formatter with format_expression: verified wrapper"),
            Between("let attributes: Vec<Option<_>> = assignment\n            .attributes()", ".collect();", "let attributes = format_attributes(ctx, assignment, shape);", why="closure chain over the Lua 5.4 attributes of the names"),
            Between("let type_specifiers: Vec<Option<TypeSpecifier>> = assignment\n            .type_specifiers()", ".collect();", "let type_specifiers = format_type_specifiers(ctx, assignment, shape);", why="closure chain over the Luau type specifiers of the names"),
            Between("let mut type_specifier_len = 0;", "// If the var list ended with a comment, we need to hang the equals token", "let mut type_specifier_len = hole_usize();", why="folds over the printed widths of attributes / type specifiers"),
            Between("let mut name_list_comment =\n            name_list.has_trailing_comments(trivia_util::CommentSearch::Single);", "name_list_comment |= trivia_util::ends_with_singleline_comment(type_specifier);\n        }", "let mut name_list_comment = hole_bool();", why="does the name list (with its attribute / type) end with a line comment: chooses whether `=` hangs"),
            Hole('const EQUAL_TOKEN_LEN: usize = "= ".len();', "let EQUAL_TOKEN_LEN: usize = hole_usize();", why="str::len in a const: a width"),
            Between("let singleline_shape = shape\n            + (strip_leading_trivia(&name_list).to_string().len()", "+ strip_trailing_trivia(&expr_list).to_string().len());", "let singleline_shape = shape + hole_usize();", why="Display widths"),
            Between("let shape = shape\n                + (strip_leading_trivia(&name_list).to_string().len()", "+ type_specifier_len);", "let shape = shape + hole_usize();", why="Display widths"),
        ]),
        # ---- return ----
        Raw(node_specs("Return", "n_ret", [("token", "TokenReference", "-"), ("returns", "Punctuated<Expression>", "ref")]) + """
pub assume_specification [Return::new] () -> (r: Return) ensures ppairs(n_ret_returns(&r)).len() == 0;
impl HasInlineComments for Expression { #[verifier::external_body] fn has_inline_comments(&self) -> bool { unimplemented!() } }
""", module="formatters::block"),
        Raw("""
#[verifier::external_body] pub fn vx_without_leading_newlines(t: &TokenReference) -> (r: Vec<Token>) { unimplemented!() /* trivia_remove_leading_newlines(t.leading_trivia().collect()) */ }
""", module="formatters::block"),
        Fn("src/formatters/block.rs", "last_stmt_remove_leading_newlines", contract="""
    // total (C07): the `unknown node` arm is an obligation over every kind of last statement the feature set knows
    // (unit block uses this function through an assumed contract on an uninterpreted `last_sem`; its totality is proved here)
""", edits=[
            Hole("trivia_remove_leading_newlines(token.leading_trivia().collect())", "vx_without_leading_newlines(&token)", count=None, kind="wrapper", why="iterator chain over the leading trivia (newlines at the front dropped)"),
            Hole("""trivia_remove_leading_newlines(
                    return_node.token().leading_trivia().collect(),
                )""", "vx_without_leading_newlines(return_node.token())", kind="wrapper", why="iterator chain over the leading trivia (newlines at the front dropped)"),
        ]),
        Fn("src/formatters/block.rs", "is_function_or_table_constructor", mode="stub"),
        Fn("src/formatters/block.rs", "format_return", contract="""
    requires exprs_wf(n_ret_returns(return_node)),
    ensures ppairs(n_ret_returns(&r)).len() == ppairs(n_ret_returns(return_node)).len(), //# C02.return_values_same
            expr_sig(n_ret_returns(&r)) == expr_sig(n_ret_returns(return_node)), //# C02.return_values_same
""", edits=[
            Hole('const RETURN_LEN: usize = "return ".len();', "let RETURN_LEN: usize = hole_usize();", why="str::len in a const: a width"),
            Hole("trivia_util::punctuated_inline_comments(returns, true)", "hole_bool()", why="iterator over the list looking for comments: chooses the layout only"),
            Hole("returns.iter().all(is_function_or_table_constructor)", "hole_bool()", why="iterator: are all values functions or tables (layout only)"),
            Hole("(true, Punctuated::new())", "(true, format_expressions_single(ctx, returns, shape))", kind="rewrite", why="the placeholder of the comment path (`it will never be used`) is replaced by the one-line candidate: the proof then needs no argument about the placeholder staying unused; the value chosen below is the same on every path that the real code takes"),
            Hole("format_punctuated(ctx, returns, shape, format_expression),\n                )", "format_expressions_single(ctx, returns, shape),\n                )", kind="wrapper", why="generic list formatter with format_expression: verified wrapper"),
            Hole("format_punctuated(ctx, returns, shape.with_infinite_width(), format_expression);", "format_expressions_single(ctx, returns, shape.with_infinite_width());", kind="wrapper", why="generic list formatter with format_expression: verified wrapper"),
            Hole("shape + strip_trailing_trivia(&singleline_returns).to_string().len();", "shape + hole_usize();", why="Display width of the list"),
            Between("|| returns\n                .iter()\n                .next()\n                .unwrap()", ".has_leading_comments(CommentSearch::Single);", "|| first_expression(returns).has_leading_comments(CommentSearch::Single);", kind="wrapper", why="Punctuated::iter().next().unwrap()"),
            Hole("format_punctuated_multiline(ctx, returns, shape, format_expression, hang_level);", "format_expressions_multi_hang(ctx, returns, shape, hang_level);", kind="wrapper", why="generic list formatter with format_expression: verified wrapper"),
            Hole("""for (idx, (mut formatted, original)) in
                    multiline_returns.into_pairs().zip(returns).enumerate()
                {""", """let ghost multiline_returns0 = multiline_returns; let ghost mut k: int = 0;
                let mut vx_a = peekable(multiline_returns.into_pairs());
                let mut vx_b = peekable(returns.iter());
                let mut idx: usize = 0;
                while let Some(vx_formatted) = vx_a.next() {
                    let mut formatted = vx_formatted;
                    let original = match vx_b.next() { Some(vx_o) => vx_o, None => { break; } };""", kind="desugar", why="`a.into_pairs().zip(b).enumerate()` written as what it stands for: two iterators advanced together (the first one first) and a counter"),
            Hole("hang_level.map_or(shape, |hang_level| {\n                            shape.with_indent(shape.indent().add_indent_level(hang_level))\n                        })", "match hang_level { Some(hang_level) => shape.with_indent(shape.indent().add_indent_level(hang_level)), None => shape }", kind="rewrite", why="Option::map_or with a closure, written as the match it is (layout only)"),
            Hole("formatted.value().has_inline_comments()", "hole_bool()", why="trivia_util::HasInlineComments: chooses the layout only"),
            Hole(".take_first_line(&strip_leading_trivia(formatted.value()))", ".take_first_line(formatted.value())", why="strip_leading_trivia only affects the measured width"),
            Hole("formatted = formatted.map(|_| {\n                            let expression =", "formatted = formatted.map(|vx_unused: Expression| -> (vx_r: Expression) requires wf(skel(*original)) ensures erase(skel(vx_r)) == erase(skel(*original)) {\n                            let expression =", kind="rewrite", why="the closure gets a contract; `_` is named"),
            Between("let leading_comments = leading_comments\n                            .iter()", ".collect();", "let leading_comments = hole_vec_token();", why="iterator chain: the comments in front of the first value, each on its own line (comment handling: C03)"),
            Hole("formatted = formatted.map(|_| {\n                            first_return_expression", "formatted = formatted.map(|vx_unused: Expression| -> (vx_r: Expression) ensures erase(skel(vx_r)) == erase(skel(first_return_expression)) {\n                            first_return_expression", kind="rewrite", why="the closure gets a contract; `_` is named"),
            Loop("while let Some(vx_formatted) = vx_a.next()", """
        invariant
            0 <= k <= ppairs(*returns).len(),
            pk_rest(&vx_a).len() == ppairs(multiline_returns0).len() - k, ppairs(multiline_returns0).len() == ppairs(*returns).len(),
            forall|j: int| 0 <= j < pk_rest(&vx_a).len() ==> #[trigger] pk_rest(&vx_a)[j] == ppairs(multiline_returns0)[k + j],
            pk_rest(&vx_b).len() == ppairs(*returns).len() - k,
            forall|j: int| 0 <= j < pk_rest(&vx_b).len() ==> *(#[trigger] pk_rest(&vx_b)[j]) == pair_value(ppairs(*returns)[k + j]),
            exprs_wf(*returns), expr_sig(multiline_returns0) == expr_sig(*returns),
            idx == k, ppairs(*returns).len() <= usize::MAX,
            ppairs(output_returns).len() == k, //# C02.return_rehang_loop
            forall|i: int| 0 <= i < k ==> erase(skel(pair_value(#[trigger] ppairs(output_returns)[i]))) == erase(skel(pair_value(ppairs(*returns)[i]))), //# C02.return_rehang_loop
        ensures k == ppairs(*returns).len(),
        decreases pk_rest(&vx_a).len(),
""", step="idx = idx + 1; proof { k = k + 1; }", enter="proof { assert(expr_sig(multiline_returns0)[k] == expr_sig(*returns)[k]); assert(wf(skel(pair_value(ppairs(*returns)[k])))); }"),
            Hole(".take_first_line(&strip_trivia(&hanging_returns))", ".take_first_line(&hanging_returns)", why="strip_trivia only affects the measured width"),
            Hole("shape.take_first_line(&strip_trailing_trivia(&formatted_returns));", "shape.take_first_line(&formatted_returns);", why="strip_trailing_trivia only affects the measured width"),
            Hole("let formatted_returns = format_punctuated(ctx, returns, shape, format_expression);", "let formatted_returns = format_expressions_single(ctx, returns, shape);", kind="wrapper", why="generic list formatter with format_expression: verified wrapper"),
        ]),
        # ---- the statement-level wrappers (trivia around the statement) and the last statement ----
        Raw("""
// update_trivia on an assignment / a local assignment / a return changes the trivia of its first and last token only (class C here; the
// implementation for Assignment is verified in unit trivia: the variables' first item and the expressions' last item are updated, nothing else)
impl UpdateTrivia for Assignment {
    open spec fn same_sem_u(&self, r: &Self) -> bool { var_sig(n_asg_variables(r)) == var_sig(n_asg_variables(self)) && expr_sig(n_asg_expressions(r)) == expr_sig(n_asg_expressions(self)) }
    open spec fn trivia_ok(&self, l: FormatTriviaType, t: FormatTriviaType, r: &Self) -> bool { true }
    #[verifier::external_body] fn update_trivia(&self, leading_trivia: FormatTriviaType, trailing_trivia: FormatTriviaType) -> (r: Self) { unimplemented!() }
}
impl UpdateTrivia for LocalAssignment {
    open spec fn same_sem_u(&self, r: &Self) -> bool { name_sig(n_lasg_names(r)) == name_sig(n_lasg_names(self)) && expr_sig(n_lasg_expressions(r)) == expr_sig(n_lasg_expressions(self))
        && (n_lasg_equal_token(r) is Some) == (n_lasg_equal_token(self) is Some) }
    open spec fn trivia_ok(&self, l: FormatTriviaType, t: FormatTriviaType, r: &Self) -> bool { true }
    #[verifier::external_body] fn update_trivia(&self, leading_trivia: FormatTriviaType, trailing_trivia: FormatTriviaType) -> (r: Self) { unimplemented!() }
}
""", module="formatters::assignment"),
        Fn(ASG, "format_assignment", contract="""
    requires exprs_wf(n_asg_expressions(assignment)), ppairs(n_asg_expressions(assignment)).len() >= 1,
    ensures var_sig(n_asg_variables(&r)) == var_sig(n_asg_variables(assignment)), //# C02.assignment_same
            expr_sig(n_asg_expressions(&r)) == expr_sig(n_asg_expressions(assignment)), //# C02.assignment_same
"""),
        Fn(ASG, "format_local_assignment", contract="""
    requires exprs_wf(n_lasg_expressions(assignment)),
             ppairs(n_lasg_expressions(assignment)).len() > 0 ==> n_lasg_equal_token(assignment) is Some,
    ensures name_sig(n_lasg_names(&r)) == name_sig(n_lasg_names(assignment)), //# C02.local_assignment_same
            expr_sig(n_lasg_expressions(&r)) == expr_sig(n_lasg_expressions(assignment)), //# C02.local_assignment_same
            (n_lasg_equal_token(&r) is Some) == (ppairs(n_lasg_expressions(assignment)).len() > 0), //# C02.local_assignment_same
"""),
        Raw("""
pub assume_specification [TokenReference::new] (l: Vec<Token>, t: Token, tr: Vec<Token>) -> (r: TokenReference);
#[verifier::external_body] pub fn identifier_token(s: &str) -> (r: Token) { unimplemented!() /* Token::new(TokenType::Identifier { identifier: s.into() }) */ }
// what a last statement is, trivia aside: its kind, and for a return its values
pub open spec fn last_same(a: LastStmt, b: LastStmt) -> bool {
    match (a, b) {
        (LastStmt::Break(_), LastStmt::Break(_)) => true,
        #[cfg(feature = "luau")] (LastStmt::Continue(_), LastStmt::Continue(_)) => true,
        (LastStmt::Return(x), LastStmt::Return(y)) => ppairs(n_ret_returns(&y)).len() == ppairs(n_ret_returns(&x)).len() && expr_sig(n_ret_returns(&y)) == expr_sig(n_ret_returns(&x)),
        _ => false,
    }
}
pub open spec fn last_wf(a: LastStmt) -> bool { match a { LastStmt::Return(x) => exprs_wf(n_ret_returns(&x)), _ => true } }
""", module="formatters::block"),
        Fn("src/formatters/block.rs", "format_last_stmt_no_trivia", contract="""
    requires last_wf(*last_stmt),
    ensures last_same(*last_stmt, r), //# C02.last_stmt_same
""", edits=[
            Between("Token::new(TokenType::Identifier {", "}),", "identifier_token(\"continue\"),", kind="wrapper", why="`\"continue\".into()` (Into<ShortString>): the identifier token `continue`"),
        ]),
        # ---- goto / label (Lua 5.2), attributes (Lua 5.4), compound assignments (Luau) ----
        Raw(node_specs("full_moon::ast::lua52::Goto", "n_goto", [("goto_token", "TokenReference", "-"), ("label_name", "TokenReference", "ref")], cfg='''#[cfg(feature = "lua52")] ''')
            + node_specs("full_moon::ast::lua52::Label", "n_label", [("left_colons", "TokenReference", "-"), ("name", "TokenReference", "ref"), ("right_colons", "TokenReference", "-")], cfg='''#[cfg(feature = "lua52")] ''') + """
#[cfg(feature = "lua52")] pub assume_specification [full_moon::ast::lua52::Goto::new] (label_name: TokenReference) -> (r: full_moon::ast::lua52::Goto) ensures n_goto_label_name(&r) == label_name;
#[cfg(feature = "lua52")] pub assume_specification [full_moon::ast::lua52::Label::new] (name: TokenReference) -> (r: full_moon::ast::lua52::Label) ensures n_label_name(&r) == name;
""", module="formatters::lua52"),
        Fn("src/formatters/lua52.rs", "format_goto", attrs='''#[cfg(feature = "lua52")]\n''', contract="ensures tok_of(n_goto_label_name(&r)) == tok_of(n_goto_label_name(goto)), //# C02.goto_label_same"),
        Fn("src/formatters/lua52.rs", "format_goto_no_trivia", attrs='''#[cfg(feature = "lua52")]\n''', contract="ensures tok_of(n_goto_label_name(&r)) == tok_of(n_goto_label_name(goto)), //# C02.goto_label_same"),
        Fn("src/formatters/lua52.rs", "format_label", attrs='''#[cfg(feature = "lua52")]\n''', contract="ensures tok_of(n_label_name(&r)) == tok_of(n_label_name(label)), //# C02.goto_label_same"),
        Raw(node_specs("full_moon::ast::lua54::Attribute", "n_attr", [("brackets", "ContainedSpan", "-"), ("name", "TokenReference", "ref")], cfg='''#[cfg(feature = "lua54")] ''') + """
#[cfg(feature = "lua54")] pub assume_specification [full_moon::ast::lua54::Attribute::new] (name: TokenReference) -> (r: full_moon::ast::lua54::Attribute) ensures n_attr_name(&r) == name;
""", module="formatters::lua54"),
        Fn(GEN, "format_contained_span", mode="stub"),
        Fn("src/formatters/lua54.rs", "format_attribute", attrs='''#[cfg(feature = "lua54")]\n''', contract="ensures tok_of(n_attr_name(&r)) == tok_of(n_attr_name(attribute)), //# C02.attribute_same"),
        Raw("""
#[cfg(feature = "luau")] #[verifier::external_type_specification] pub struct ExCompoundOp(CompoundOp);
#[cfg(feature = "luau")] pub open spec fn cop_id(op: CompoundOp) -> int {
    match op { CompoundOp::PlusEqual(_) => 1, CompoundOp::MinusEqual(_) => 2, CompoundOp::StarEqual(_) => 3, CompoundOp::SlashEqual(_) => 4, CompoundOp::DoubleSlashEqual(_) => 5,
               CompoundOp::PercentEqual(_) => 6, CompoundOp::CaretEqual(_) => 7, CompoundOp::TwoDotsEqual(_) => 8, _ => 0 }
}
#[cfg(feature = "luau")] pub open spec fn cop_tok(op: CompoundOp) -> TokenReference {
    match op { CompoundOp::PlusEqual(t) => t, CompoundOp::MinusEqual(t) => t, CompoundOp::StarEqual(t) => t, CompoundOp::SlashEqual(t) => t, CompoundOp::DoubleSlashEqual(t) => t,
               CompoundOp::PercentEqual(t) => t, CompoundOp::CaretEqual(t) => t, CompoundOp::TwoDotsEqual(t) => t, _ => some_token() }
}
// the text each compound operator is printed with (Luau grammar: compoundop), with the spaces StyLua puts around it
#[cfg(feature = "luau")] pub open spec fn cop_text(op: int) -> Seq<char> {
    if op == 1 { " += "@ } else if op == 2 { " -= "@ } else if op == 3 { " *= "@ } else if op == 4 { " /= "@ } else if op == 5 { " //= "@ }
    else if op == 6 { " %= "@ } else if op == 7 { " ^= "@ } else if op == 8 { " ..= "@ } else { " ? "@ }
}
#[cfg(feature = "luau")] pub uninterp spec fn n_ca_lhs(n: &CompoundAssignment) -> Var;
#[cfg(feature = "luau")] pub uninterp spec fn n_ca_op(n: &CompoundAssignment) -> CompoundOp;
#[cfg(feature = "luau")] pub uninterp spec fn n_ca_rhs(n: &CompoundAssignment) -> Expression;
#[cfg(feature = "luau")] pub assume_specification [CompoundAssignment::lhs] (n: &CompoundAssignment) -> (r: &Var) ensures *r == n_ca_lhs(n);
#[cfg(feature = "luau")] pub assume_specification [CompoundAssignment::compound_operator] (n: &CompoundAssignment) -> (r: &CompoundOp) ensures *r == n_ca_op(n);
#[cfg(feature = "luau")] pub assume_specification [CompoundAssignment::rhs] (n: &CompoundAssignment) -> (r: &Expression) ensures *r == n_ca_rhs(n);
#[cfg(feature = "luau")] pub assume_specification [CompoundAssignment::new] (lhs: Var, op: CompoundOp, rhs: Expression) -> (r: CompoundAssignment) ensures n_ca_lhs(&r) == lhs, n_ca_op(&r) == op, n_ca_rhs(&r) == rhs;
""", module="formatters::luau"),
        Fn("src/formatters/luau.rs", "format_compound_op", attrs='''#[cfg(feature = "luau")]\n''', contract="""
    ensures cop_id(r) == cop_id(*compound_op), //# C02.compound_assignment_same
            tr_token(cop_tok(r)) == symbol_of_text(cop_text(cop_id(*compound_op))), //# C02.compound_op_prints_the_operator
"""),
        Fn("src/formatters/luau.rs", "format_compound_assignment", attrs='''#[cfg(feature = "luau")]\n''', contract="""
    requires wf(skel(n_ca_rhs(compound_assignment))),
    ensures var_id(n_ca_lhs(&r)) == var_id(n_ca_lhs(compound_assignment)), //# C02.compound_assignment_same
            cop_id(n_ca_op(&r)) == cop_id(n_ca_op(compound_assignment)), //# C02.compound_assignment_same
            erase(skel(n_ca_rhs(&r))) == erase(skel(n_ca_rhs(compound_assignment))), //# C02.compound_assignment_same
""", edits=[
            Hole("(strip_leading_trivia(&lhs).to_string().len() + compound_operator.to_string().len());", "hole_usize();", why="Display widths of the variable and the operator"),
        ]),
    ]
    return its

LABELS = {
    "C02.local_assignment_same": dict(props=["C02"], text="format_local_assignment_no_trivia / format_local_no_assignment: the same names and the same values, in order; an `=` exactly when there are values"),
    "C02.return_values_same": dict(props=["C02"], text="format_return: whichever layout wins, as many values as the input, value i the input's value i modulo redundant parentheses"),
    "C02.return_rehang_loop": dict(props=["C02"], text="format_return, one value per line: every value pushed so far — kept as formatted, hung again from the original expression, or given the comments that stood behind `return` — is the input's value in the same place"),
    "C02.goto_label_same": dict(props=["C02"], text="format_goto / format_goto_no_trivia / format_label return a node with the same label name"),
    "C02.attribute_same": dict(props=["C02"], text="format_attribute returns an attribute with the same name"),
    "C02.compound_assignment_same": dict(props=["C02"], text="format_compound_op maps every compound operator to itself; format_compound_assignment returns the same variable, the same operator and the same value (modulo redundant parentheses)"),
    "C02.compound_op_prints_the_operator": dict(props=["C02"], text="format_compound_op prints every compound operator with the symbol the Luau grammar gives it"),
    "C02.last_stmt_same": dict(props=["C02"], text="format_last_stmt_no_trivia returns the same kind of last statement (break stays break, continue stays continue), a return with the same values"),
    "C02.hang_equal_token_same": dict(props=["C02"], text="hang_equal_token returns the same `=` token (only its trailing trivia are rebuilt)"),
    "C02.hang_punctuated_list_same": dict(props=["C02", "C07"], text="hang_punctuated_list: one value in, the same value (modulo redundant parentheses) out; its assertion `len == 1` holds at both call sites"),
    "C02.hang_punctuated_list_loop": dict(props=["C02"], text="hang_punctuated_list loop invariant: the values pushed so far are the input's, in order"),
    "C02.assignment_same": dict(props=["C02"], text="format_assignment_no_trivia: the same variables and the same values, in order, whichever layout is chosen"),
    "C02.assignment_values_same": dict(props=["C02"], text="attempt_assignment_tactics: whichever layout tactic wins, the list has as many values as the input, value i is the input's value i modulo redundant parentheses, and the `=` token is the `=`"),
    "C02.assignment_rehang_loop": dict(props=["C02"], text="attempt_assignment_tactics, one value per line: every value pushed so far — kept as formatted, or hung again from the original expression — is the input's value in the same place"),
}

UNIT = Unit("assign", items() + [VERIF_MOD], LABELS, macros=[(GEN, "fmt_symbol"), (EX, "fmt_op")], header=HEADER + "use full_moon::ast::punctuated::Pair;\n#[cfg(feature = \"lua54\")] use full_moon::ast::lua54::Attribute;\n#[cfg(feature = \"luau\")] use full_moon::ast::luau::CompoundOp;\n")
