"""Unit `lib`: src/lib.rs format_code / format_ast and formatters::CodeFormatter::format.
C01.1 (the returned text is the printed formatted AST; with verification on, it re-parses), C07 (a parse
error is reported, never success for text that did not parse), C12 (sorting runs iff enabled)."""
from gen import Unit, Fn, Item, Raw, RawFile, Hole, After, Before, Loop
from common import *

LIB = "src/lib.rs"
MOD = "src/formatters/mod.rs"

SPEC = r"""
#[verifier::external_type_specification] #[verifier::external_body] pub struct ExAst(full_moon::ast::Ast);
#[verifier::external_type_specification] #[verifier::external_body] pub struct ExFmError(full_moon::Error);

// ---- spec vocabulary ----
pub uninterp spec fn parse_ok(code: Seq<char>, syntax: LuaVersion) -> bool;       // full_moon accepts the text under that syntax
pub uninterp spec fn parsed(code: Seq<char>, syntax: LuaVersion) -> full_moon::ast::Ast;
pub uninterp spec fn print(ast: full_moon::ast::Ast) -> Seq<char>;                 // Ast's Display
pub uninterp spec fn ast_nodes(ast: full_moon::ast::Ast) -> Block;
pub uninterp spec fn ast_eof(ast: full_moon::ast::Ast) -> TokenReference;
pub uninterp spec fn sorted(c: Context, ast: full_moon::ast::Ast) -> full_moon::ast::Ast;   // result of the sort_requires codemod
pub uninterp spec fn fmt_block(c: Context, b: Block) -> Block;                     // result of format_block (contract: unit block)
pub uninterp spec fn fmt_eof(c: Context, t: TokenReference) -> TokenReference;    // result of format_eof (contract: unit token)
pub uninterp spec fn same_program(a: full_moon::ast::Ast, b: full_moon::ast::Ast) -> bool;  // AstVerifier::compare

pub assume_specification [full_moon::ast::Ast::nodes] (a: &full_moon::ast::Ast) -> (r: &Block) ensures *r == ast_nodes(*a);
pub assume_specification [full_moon::ast::Ast::eof] (a: &full_moon::ast::Ast) -> (r: &TokenReference) ensures *r == ast_eof(*a);
pub assume_specification [full_moon::ast::Ast::with_nodes] (a: full_moon::ast::Ast, b: Block) -> (r: full_moon::ast::Ast) ensures ast_nodes(r) == b, ast_eof(r) == ast_eof(a);
pub assume_specification [full_moon::ast::Ast::with_eof] (a: full_moon::ast::Ast, t: TokenReference) -> (r: full_moon::ast::Ast) ensures ast_nodes(r) == ast_nodes(a), ast_eof(r) == t;
pub assume_specification [<full_moon::ast::Ast as Clone>::clone] (a: &full_moon::ast::Ast) -> (r: full_moon::ast::Ast) ensures r == *a;

pub open spec fn formatted(c: Context, a: full_moon::ast::Ast, r: full_moon::ast::Ast) -> bool {
    ast_nodes(r) == fmt_block(c, ast_nodes(a)) && ast_eof(r) == fmt_eof(c, ast_eof(a))
}
pub open spec fn ctx_of(config: Config, range: Option<Range>) -> Context { Context { config, range, formatting_disabled: false } }
pub open spec fn pipeline(input: full_moon::ast::Ast, config: Config, range: Option<Range>, out: full_moon::ast::Ast) -> bool {
    let c = ctx_of(config, range);
    formatted(c, if config.sort_requires.enabled { sorted(c, input) } else { input }, out)
}
"""

VERIF_LIB = Raw(r"""
#[verifier::external_body]
pub fn parse(code: &str, syntax: LuaVersion) -> (r: Result<full_moon::ast::Ast, Vec<full_moon::Error>>)
    ensures (r is Ok) == parse_ok(code@, syntax), r is Ok ==> r->Ok_0 == parsed(code@, syntax)
{ unimplemented!() /* full_moon::parse_fallible(code, syntax.into()).into_result() */ }
#[verifier::external_body]
pub fn ast_to_string(ast: &full_moon::ast::Ast) -> (r: String) ensures r@ == print(*ast) { ast.to_string() }
""", module="verif")

PARSE1 = "full_moon::parse_fallible(code, config.syntax.into()).into_result()"
PARSE2 = """full_moon::parse_fallible(&output, config.syntax.into()).into_result()"""

def items():
    its = [x for x in common_items()]
    its += [
        Raw(SPEC),
        Fn(CTX, "new", impl_of="Context", mode="stub", contract="ensures r == ctx_of(config, range),"),
        Item(LIB, "enum", "OutputVerification", keep_derives=("Clone", "Copy")),
        Item(LIB, "enum", "Error", keep_derives=()),
        Fn(SH, "new", impl_of="Shape", mode="stub"),
        Fn("src/formatters/block.rs", "format_block", mode="stub", proved_in="block", contract="ensures r == fmt_block(*ctx, *block),"),
        Fn(GEN, "format_eof", mode="stub", contract="ensures r == fmt_eof(*ctx, *eof),"),
        Fn("src/sort_requires.rs", "sort_requires", mode="stub", contract="ensures r == sorted(*ctx, input_ast),"),
        Raw("""
pub struct AstVerifier {}
impl AstVerifier {
    #[verifier::external_body] pub fn new() -> Self { unimplemented!() }
    #[verifier::external_body] pub fn compare(&mut self, input_ast: full_moon::ast::Ast, reparsed_output: full_moon::ast::Ast) -> (r: bool)
        ensures r == same_program(input_ast, reparsed_output) { unimplemented!() }
}
""", module="verify_ast"),
        Item(MOD, "struct", "CodeFormatter"),
        Fn(MOD, "new", impl_of="CodeFormatter", contract="ensures r.context == ctx,"),
        Fn(MOD, "format", impl_of="CodeFormatter", contract="""
    ensures formatted(self.context, ast, r), //# C02.whole_ast
"""),
        Fn(LIB, "format_ast", contract="""
    ensures
        r is Ok ==> pipeline(input_ast, config, range, r->Ok_0), //# C12.sort_iff_enabled
        verify_output is Full && r is Ok ==> parse_ok(print(r->Ok_0), config.syntax) && same_program(input_ast, parsed(print(r->Ok_0), config.syntax)), //# C01.verified_output_parses
        verify_output is None ==> r is Ok, //# C07.format_ast_total
""", edits=[
            Hole("let output = ast.to_string();", "let output = verif::ast_to_string(&ast);", kind="wrapper", why="Display of Ast"),
            Hole(PARSE2, "verif::parse(output.as_str(), config.syntax)", kind="wrapper", why="full_moon::parse_fallible(..).into_result() behind a parse_ok spec"),
        ]),
        Fn(LIB, "format_code", contract="""
    ensures
        !parse_ok(code@, config.syntax) ==> r is Err && r->Err_0 is ParseError, //# C07.parse_error_reported
        r is Ok ==> parse_ok(code@, config.syntax), //# C07.no_success_without_parse
        r is Ok ==> exists|ast: full_moon::ast::Ast| #[trigger] print(ast) == r->Ok_0@ && pipeline(parsed(code@, config.syntax), config, range, ast), //# C01.output_is_printed_ast
        verify_output is Full && r is Ok ==> parse_ok(r->Ok_0@, config.syntax), //# C01.verified_text_parses
        parse_ok(code@, config.syntax) && verify_output is None ==> r is Ok, //# C07.format_code_total
""", edits=[
            Hole(PARSE1, "verif::parse(code, config.syntax)", kind="wrapper", why="full_moon::parse_fallible(..).into_result() behind a parse_ok spec"),
            Hole("let output = ast.to_string();", "let output = verif::ast_to_string(&ast);", kind="wrapper", why="Display of Ast"),
        ]),
    ]
    return its

LABELS = {
    "C02.whole_ast": dict(props=["C02", "C01"], text="CodeFormatter::format: the result is the input AST with exactly its block passed through format_block and its EOF token through format_eof"),
    "C12.sort_iff_enabled": dict(props=["C12", "C02"], text="format_ast: the sort_requires codemod runs iff config.sort_requires.enabled; otherwise the AST reaches the formatter untouched"),
    "C01.verified_output_parses": dict(props=["C01", "C14"], text="format_ast with OutputVerification::Full returns Ok only if the printed output re-parses under the same syntax and compares equal to the input"),
    "C07.format_ast_total": dict(props=["C07"], text="format_ast without verification always returns Ok (no error path swallowed / invented)"),
    "C07.parse_error_reported": dict(props=["C07", "C01"], text="format_code returns Err(ParseError) whenever the input does not parse"),
    "C07.no_success_without_parse": dict(props=["C07"], text="format_code never returns Ok for text that did not parse"),
    "C01.output_is_printed_ast": dict(props=["C01", "C02", "C08", "C09", "C10"], text="format_code returns exactly the Display text of the formatted AST of the parsed input (no post-processing of the text)"),
    "C01.verified_text_parses": dict(props=["C01", "C14"], text="format_code with OutputVerification::Full returns Ok only for text that parses under the same syntax"),
    "C07.format_code_total": dict(props=["C07"], text="format_code returns Ok for every input that parses (verification off)"),
}

UNIT = Unit("lib", items() + [VERIF_MOD, VERIF_LIB], LABELS, header=HEADER)
