"""Unit `sort`: src/sort_requires.rs — partition_nodes_into_groups (the parts concatenate to the input statement
sequence; a require group only grows by the statement at hand) and sort_requires (statement count kept; non-require
parts and groups containing an ignored statement are emitted verbatim, in place; a sorted group is a permutation of
itself). C12, C08 (ignore regions), C09 (partly in-range groups)."""
from gen import Unit, Fn, Item, Raw, RawFile, Hole, After, Before, Loop, Between, DropMacros
from common import *
import block as B

SR = "src/sort_requires.rs"

SPEC = r"""
// ---- spec vocabulary ----
pub uninterp spec fn kind_of_expr(e: Expression) -> Option<GroupKind>;       // get_expression_kind (string matching on `require` / `game:GetService`)
pub uninterp spec fn la_single(l: LocalAssignment) -> Option<(TokenReference, Expression)>;   // exactly one name and one value
pub uninterp spec fn start_line(t: TokenReference) -> usize;
pub uninterp spec fn end_line(s: StmtSemi) -> usize;
pub uninterp spec fn ident_of(t: TokenReference) -> Option<Seq<char>>;
pub open spec fn part_stmts(p: BlockPartition) -> Seq<StmtSemi> {
    match p { BlockPartition::RequiresGroup(_, l) => l@.map_values(|x: (String, StmtSemi)| x.1), BlockPartition::Other(l) => l@ }
}
pub open spec fn flatten(ps: Seq<BlockPartition>) -> Seq<StmtSemi>
    decreases ps.len()
{
    if ps.len() == 0 { Seq::empty() } else { flatten(ps.drop_last()) + part_stmts(ps.last()) }
}
pub open spec fn part_nonempty(p: BlockPartition) -> bool { part_stmts(p).len() > 0 }
pub open spec fn group_all_local(p: BlockPartition) -> bool {
    match p { BlockPartition::RequiresGroup(_, l) => forall|i: int| 0 <= i < l@.len() ==> (#[trigger] l@[i]).1.0 is LocalAssignment, _ => true }
}
pub open spec fn from_prefix(x: StmtSemi, s: Seq<StmtSemi>, n: int) -> bool { exists|j: int| 0 <= j < n && #[trigger] s[j] == x }
"""

VERIF = r"""
#[verifier::external_body] pub fn stmt_refs(b: &Block) -> (r: Vec<&StmtSemi>)
    ensures r@.len() == block_stmts(b).len(), forall|i: int| 0 <= i < r@.len() ==> *(#[trigger] r@[i]) == block_stmts(b)[i] { unimplemented!() /* block.stmts_with_semicolon() */ }
#[verifier::external_body] pub fn single_local(node: &LocalAssignment) -> (r: bool) ensures r == (la_single(*node) is Some) { unimplemented!() /* node.names().len() == 1 && node.expressions().len() == 1 */ }
#[verifier::external_body] pub fn first_name(node: &LocalAssignment) -> (r: &TokenReference) requires la_single(*node) is Some ensures *r == la_single(*node)->Some_0.0 { unimplemented!() /* node.names().iter().next().unwrap() */ }
#[verifier::external_body] pub fn first_expression(node: &LocalAssignment) -> (r: &Expression) requires la_single(*node) is Some ensures *r == la_single(*node)->Some_0.1 { unimplemented!() /* node.expressions().iter().next().unwrap() */ }
#[verifier::external_body] pub fn token_line(t: &TokenReference) -> (r: usize) ensures r == start_line(*t) { unimplemented!() /* name.start_position().unwrap().line() */ }
#[verifier::external_body] pub fn stmt_end_line(s: &StmtSemi) -> (r: usize) ensures r == end_line(*s) { unimplemented!() /* previous_require.1.end_position().expect(..).line() */ }
#[verifier::external_body] pub fn line_gap_over_one(current_line: usize, previous_line: usize) -> (r: bool) { unimplemented!() /* current_line - previous_require_line > 1 */ }
#[verifier::external_body] pub fn clone_pair(s: &StmtSemi) -> (r: StmtSemi) ensures r == *s { unimplemented!() }
"""

SPEC2 = r"""
// ---- sort_requires: what may be emitted for each part, with the ignore-region context threaded through ----
pub uninterp spec fn la_core(l: LocalAssignment) -> int;     // a local assignment modulo the leading trivia of `local`
pub uninterp spec fn other_core(s: Stmt) -> int;
pub open spec fn core_of(x: StmtSemi) -> (int, Option<TokenReference>) {
    match x.0 { Stmt::LocalAssignment(l) => (la_core(l), x.1), _ => (other_core(x.0), x.1) }
}
pub open spec fn stmts_of(l: Seq<(String, StmtSemi)>) -> Seq<StmtSemi> { l.map_values(|x: (String, StmtSemi)| x.1) }
pub open spec fn cores(s: Seq<StmtSemi>) -> Seq<(int, Option<TokenReference>)> { s.map_values(|x: StmtSemi| core_of(x)) }
pub uninterp spec fn name_le(a: Seq<char>, b: Seq<char>) -> bool;      // String's Ord
pub open spec fn names_sorted(l: Seq<(String, StmtSemi)>) -> bool { forall|i: int, j: int| 0 <= i < j < l.len() ==> name_le(#[trigger] l[i].0@, #[trigger] l[j].0@) }
pub open spec fn all_local(l: Seq<(String, StmtSemi)>) -> bool { forall|i: int| 0 <= i < l.len() ==> (#[trigger] l[i]).1.0 is LocalAssignment }
pub open spec fn pkey(x: StmtSemi) -> NodeKey { NodeKey::Pair(x.0, x.1) }
// the context after walking over the statements s (ignore start / end toggles folded from the left)
pub open spec fn ctx_fold(c: Context, s: Seq<StmtSemi>) -> Context
    decreases s.len()
{
    if s.len() == 0 { c } else { toggle(ctx_fold(c, s.drop_last()), pkey(s.last())) }
}
// some statement of s is ignored / outside the range under the context in force at that statement
pub open spec fn any_skip(c: Context, s: Seq<StmtSemi>) -> bool
    decreases s.len()
{
    if s.len() == 0 { false } else { any_skip(c, s.drop_last()) || !(decision(ctx_fold(c, s), pkey(s.last())) is Normal) }
}
// what sort_requires may emit for one part
pub open spec fn part_ok(c: Context, p: BlockPartition, seg: Seq<StmtSemi>) -> bool {
    match p {
        BlockPartition::Other(l) => seg == l@,
        BlockPartition::RequiresGroup(_, l) =>
            if any_skip(c, stmts_of(l@)) { seg == stmts_of(l@) }     // a group containing an ignored statement is left alone
            else { exists|l2: Seq<(String, StmtSemi)>| #[trigger] stmts_of(l2) == seg && l2.len() == l@.len() && names_sorted(l2)
                       && cores(stmts_of(l2)).to_multiset() == cores(stmts_of(l@)).to_multiset() },
    }
}
pub open spec fn emits(c0: Context, parts: Seq<BlockPartition>, out: Seq<StmtSemi>) -> bool
    decreases parts.len()
{
    if parts.len() == 0 { out.len() == 0 }
    else {
        let n = part_stmts(parts.last()).len() as int;
        out.len() >= n && emits(c0, parts.drop_last(), out.take(out.len() - n))
            && part_ok(ctx_fold(c0, flatten(parts.drop_last())), parts.last(), out.skip(out.len() - n))
    }
}
pub open spec fn sorted_from(c: Context, ins: Seq<StmtSemi>, out: Seq<StmtSemi>) -> bool {
    exists|parts: Seq<BlockPartition>| flatten(parts) == ins && #[trigger] emits(c, parts, out)
}
pub proof fn lemma_ctx_fold_append(c: Context, a: Seq<StmtSemi>, b: Seq<StmtSemi>)
    ensures ctx_fold(c, a + b) == ctx_fold(ctx_fold(c, a), b),
    decreases b.len(),
{
    if b.len() == 0 { assert(a + b =~= a); }
    else { lemma_ctx_fold_append(c, a, b.drop_last()); assert((a + b).drop_last() =~= a + b.drop_last()); assert((a + b).last() == b.last()); }
}
pub proof fn lemma_emits_push(c0: Context, parts: Seq<BlockPartition>, p: BlockPartition, out: Seq<StmtSemi>, seg: Seq<StmtSemi>)
    requires emits(c0, parts, out), seg.len() == part_stmts(p).len(), part_ok(ctx_fold(c0, flatten(parts)), p, seg),
    ensures emits(c0, parts.push(p), out + seg),
{
    assert(parts.push(p).drop_last() =~= parts);
    assert((out + seg).take((out + seg).len() - seg.len()) =~= out);
    assert((out + seg).skip((out + seg).len() - seg.len()) =~= seg);
}
#[verifier::external_type_specification] #[verifier::external_body] pub struct ExAst(Ast);
pub uninterp spec fn ast_nodes(a: Ast) -> Block;
pub uninterp spec fn rebuilt(a: Ast, stmts: Seq<StmtSemi>) -> Ast;     // a.with_nodes(a.nodes().clone().with_stmts(stmts)).update_positions()
"""
VERIF2 = r"""
#[verifier::external_body] pub fn parts_iter(parts: Vec<BlockPartition>) -> (r: std::iter::Peekable<std::vec::IntoIter<BlockPartition>>)
    ensures pk_rest(&r) == parts@ { unimplemented!() /* parts.into_iter() */ }
#[verifier::external_body] pub fn extend_group(stmts: &mut Vec<StmtSemi>, list: &Vec<(String, StmtSemi)>)
    ensures final(stmts)@ == old(stmts)@ + stmts_of(list@) { unimplemented!() /* stmts.extend(list.iter().map(|x| x.1.clone())) */ }
#[verifier::external_body] pub fn sort_by_name(list: &mut Vec<(String, StmtSemi)>)
    ensures final(list)@.len() == old(list)@.len(), names_sorted(final(list)@),
            cores(stmts_of(final(list)@)).to_multiset() == cores(stmts_of(old(list)@)).to_multiset(),
            forall|i: int| 0 <= i < final(list)@.len() ==> exists|j: int| 0 <= j < old(list)@.len() && #[trigger] final(list)@[i] == old(list)@[j]
{ unimplemented!() /* list.sort_by_key(|key| key.0.clone()): stable sort by the variable name (class B) */ }
#[verifier::external_body] pub fn rebuild(input_ast: Ast, stmts: Vec<StmtSemi>) -> (r: Ast)
    ensures r == rebuilt(input_ast, stmts@) { unimplemented!() /* input_ast.with_nodes(input_ast.nodes().clone().with_stmts(stmts)).update_positions() */ }
"""

def items():
    its = common_items()
    its += [
        Raw(B.SPEC, module="context"),
        Raw("""
impl vstd::std_specs::cmp::PartialEqSpecImpl for GroupKind {
    open spec fn obeys_eq_spec() -> bool { true }
    open spec fn eq_spec(&self, other: &Self) -> bool { *self == *other }
}
""", module="sort_requires"),
        Item(SR, "type", "StmtSemicolon"),
        Item(SR, "enum", "GroupKind", keep_derives=("Clone", "Copy", "PartialEq", "Eq")),
        Item(SR, "enum", "BlockPartition"),
        Raw(SPEC, module="sort_requires"),
        Raw(VERIF, module="verif_sort"),
        Fn(SR, "extract_identifier_from_token", mode="stub", contract="ensures (r is Some) == (ident_of(*token) is Some), r is Some ==> r->Some_0@ == ident_of(*token)->Some_0,"),
        Fn(SR, "get_expression_kind", mode="stub", contract="ensures r == kind_of_expr(*expression),"),
        Fn(SR, "partition_nodes_into_groups", contract="""
    requires forall|i: int| 0 <= i < block_stmts(block).len() ==> match (#[trigger] block_stmts(block)[i]).0 {
                 Stmt::LocalAssignment(l) => la_single(l) is Some && kind_of_expr(la_single(l)->Some_0.1) is Some ==> ident_of(la_single(l)->Some_0.0) is Some, _ => true },  // local names are identifiers (parser)
    ensures
        flatten(r@) == block_stmts(block), //# C12.partition_concatenates
        forall|i: int| 0 <= i < r@.len() ==> part_nonempty(#[trigger] r@[i]), //# C12.partition_nonempty
        forall|i: int| 0 <= i < r@.len() ==> group_all_local(#[trigger] r@[i]),
""", edits=[
            Hole("for stmt in block.stmts_with_semicolon() {", "let mut vx_it = verif::peekable(block.stmts_with_semicolon());\n    while let Some(stmt) = vx_it.next() {", kind="desugar",
                 why="`for x in it` written as its definition `while let Some(x) = it.next()` (Verus: for-loops do not support `continue`), through the Peekable wrapper that carries the ghost sequence"),
            Hole("node.names().len() == 1 && node.expressions().len() == 1", "verif_sort::single_local(node)", kind="wrapper", why="Punctuated::len x2"),
            Hole("node.names().iter().next().unwrap()", "verif_sort::first_name(node)", kind="wrapper", why="Punctuated::iter().next().unwrap()"),
            Hole("node.expressions().iter().next().unwrap()", "verif_sort::first_expression(node)", kind="wrapper", why="Punctuated::iter().next().unwrap()"),
            Hole("name.start_position().unwrap().line()", "verif_sort::token_line(name)", kind="wrapper", why="position of a parsed token (input validity: parsed ASTs carry positions)"),
            Between("let position = previous_require", "let previous_require_line = position.line();", "let previous_require_line = verif_sort::stmt_end_line(&previous_require.1);", kind="wrapper",
                    why="end position of a parsed statement (input validity: parsed ASTs carry positions)"),
            Hole("current_line - previous_require_line > 1", "verif_sort::line_gap_over_one(current_line, previous_require_line)", kind="wrapper",
                 why="line arithmetic on positions; the usize subtraction is NOT checked here (needs monotone positions of the parsed file)"),
            Hole("map.push((variable_name, stmt.clone()))", "map.push((variable_name, verif_sort::clone_pair(stmt)))", kind="wrapper", why="<(Stmt, Option<TokenReference>) as Clone>::clone", count=1),
            Hole("list.push(stmt.clone())", "list.push(verif_sort::clone_pair(stmt))", kind="wrapper", why="<(Stmt, Option<TokenReference>) as Clone>::clone"),
            After("let mut parts = Vec::new();", "let ghost all = block_stmts(block); let ghost mut k: int = 0;"),
            # proof hints (ghost only): extensional steps of `flatten` after each push
            Before("if let Stmt::LocalAssignment(node) = &stmt.0 {", "let ghost p0 = parts@; proof { assert(*stmt == all[k]); }"),
            After("parts.push(BlockPartition::RequiresGroup(expression_kind, Vec::new()))", "; proof { assert(parts@.drop_last() =~= p0); assert(part_stmts(parts@.last()) =~= Seq::<StmtSemi>::empty()); assert(flatten(parts@) =~= flatten(p0)); }"),
            After("parts.push(BlockPartition::Other(Vec::new()))", "; proof { assert(parts@.drop_last() =~= p0); assert(part_stmts(parts@.last()) =~= Seq::<StmtSemi>::empty()); assert(flatten(parts@) =~= flatten(p0)); }", count=2),
            Before("match parts.last_mut() {", "let ghost pm = parts@; proof { assert(flatten(pm) =~= all.take(k)); assert(pm.len() > 0); }", count=2),
            After("""                        _ => unreachable!(),
                    };""", "proof { assert(parts@.drop_last() =~= pm.drop_last()); assert(part_stmts(parts@.last()) =~= part_stmts(pm.last()).push(all[k])); assert(all.take(k + 1) =~= all.take(k).push(all[k])); assert(flatten(parts@) =~= all.take(k + 1)); }"),
            After("""            Some(BlockPartition::Other(list)) => list.push(verif_sort::clone_pair(stmt)),
            _ => unreachable!(),
        }""", "proof { assert(parts@.drop_last() =~= pm.drop_last()); assert(part_stmts(parts@.last()) =~= part_stmts(pm.last()).push(all[k])); assert(all.take(k + 1) =~= all.take(k).push(all[k])); assert(flatten(parts@) =~= all.take(k + 1)); }"),
            Loop("while let Some(stmt) = vx_it.next()", """
        invariant
            0 <= k <= all.len(), all == block_stmts(block),
            pk_rest(&vx_it).len() == all.len() - k,
            forall|j: int| 0 <= j < pk_rest(&vx_it).len() ==> *(#[trigger] pk_rest(&vx_it)[j]) == all[k + j],
            forall|i: int| 0 <= i < all.len() ==> match (#[trigger] all[i]).0 {
                 Stmt::LocalAssignment(l) => la_single(l) is Some && kind_of_expr(la_single(l)->Some_0.1) is Some ==> ident_of(la_single(l)->Some_0.0) is Some, _ => true },
            flatten(parts@) == all.take(k), //# C12.partition_loop
            forall|i: int| 0 <= i < parts@.len() ==> part_nonempty(#[trigger] parts@[i]), //# C12.partition_loop_nonempty
            forall|i: int| 0 <= i < parts@.len() ==> group_all_local(#[trigger] parts@[i]),
        ensures k == all.len(),
        decreases pk_rest(&vx_it).len(),
""", step="proof { k = k + 1; }"),
        ]),
        Raw(SPEC2, module="sort_requires"),
        Raw(VERIF2, module="verif_sort"),
        Raw("""
impl UpdateLeadingTrivia for LocalAssignment {
    open spec fn same_sem(&self, r: &Self) -> bool { la_core(*r) == la_core(*self) }
    open spec fn lead_ok(&self, t: FormatTriviaType, r: &Self) -> bool { true }
    open spec fn on_new_line(&self) -> bool { other_nl(*self) }
    open spec fn rest_same(&self, r: &Self) -> bool { true }
    #[verifier::external_body] fn update_leading_trivia(&self, leading_trivia: FormatTriviaType) -> (r: Self) { unimplemented!() }
}
pub assume_specification [Ast::nodes] (a: &Ast) -> (r: &Block) ensures *r == ast_nodes(*a);
""", module="sort_requires"),
        Fn(CTX, "should_format_node", impl_of="Context", mode="stub", sig_edits=[VN], proved_in="ctx", contract="ensures r == decision(*self, node.key()),"),
        Fn(CTX, "check_toggle_formatting", impl_of="Context", mode="stub", sig_edits=[VN], contract="ensures r == toggle(*self, node.key()),"),
        Fn(SR, "sort_requires", contract="""
    requires forall|i: int| 0 <= i < block_stmts(&ast_nodes(input_ast)).len() ==> match (#[trigger] block_stmts(&ast_nodes(input_ast))[i]).0 {
                 Stmt::LocalAssignment(l) => la_single(l) is Some && kind_of_expr(la_single(l)->Some_0.1) is Some ==> ident_of(la_single(l)->Some_0.0) is Some, _ => true },
    ensures r == input_ast || exists|out: Seq<StmtSemi>| #[trigger] sorted_from(*ctx, block_stmts(&ast_nodes(input_ast)), out) && r == rebuilt(input_ast, out), //# C12.sorted_within_groups
""", edits=[
            Hole("for part in parts {", "let ghost all_parts = parts@; let ghost ctx0 = ctx; let ghost mut i: int = 0;\n    let mut vx_parts = verif_sort::parts_iter(parts);\n    while let Some(part) = vx_parts.next() {", kind="desugar",
                 why="`for x in vec { … continue … }` written as `while let Some(x) = it.next()` (Verus: for-loops do not support `continue`)"),
            Loop("while let Some(part) = vx_parts.next()", """
        invariant
            0 <= i <= all_parts.len(), pk_rest(&vx_parts) == all_parts.skip(i),
            flatten(all_parts) == block_stmts(&ast_nodes(input_ast)),
            forall|q: int| 0 <= q < all_parts.len() ==> part_nonempty(#[trigger] all_parts[q]) && group_all_local(all_parts[q]),
            ctx == ctx_fold(ctx0, flatten(all_parts.take(i))),
            emits(ctx0, all_parts.take(i), stmts@), //# C12.sort_loop
        ensures i == all_parts.len(),
        decreases pk_rest(&vx_parts).len(),
""", step="proof { let seg = stmts@.skip(out0.len() as int); assert(stmts@ =~= out0 + seg); lemma_emits_push(ctx0, pfx, this_part, out0, seg); lemma_ctx_fold_append(ctx0, flatten(pfx), part_stmts(this_part)); assert(flatten(pfx.push(this_part)) =~= flatten(pfx) + part_stmts(this_part)); i = i + 1; }", enter="proof { assert(part == all_parts[i]); assert(all_parts.take(i + 1) =~= all_parts.take(i).push(all_parts[i])); assert(all_parts.take(i + 1).drop_last() =~= all_parts.take(i)); }\n let ghost out0 = stmts@; let ghost c_start = ctx; let ghost pfx = all_parts.take(i); let ghost this_part = part;"),
            Hole("for (_, stmt) in list.iter() {", "for (_, stmt) in gi: list.iter() {", kind="ghost-name", why="names the ghost iterator"),
            Loop("for (_, stmt) in gi: list.iter()", """
                    invariant
                        gi.seq().len() == list@.len(), forall|q: int| 0 <= q < list@.len() ==> *(#[trigger] gi.seq()[q]) == list@[q], c_start == ctx_fold(ctx0, flatten(pfx)),
                        ctx == ctx_fold(c_start, stmts_of(list@).take(gi.index@ as int)),
                        contains_ignored_stmt == any_skip(c_start, stmts_of(list@).take(gi.index@ as int)),
""",
                 enter="let ghost j = gi.index@ as int; let ghost sq = stmts_of(list@); proof { assert(sq.take(j + 1).drop_last() =~= sq.take(j)); assert(sq.take(j + 1).last() == sq[j]); assert(sq[j] == list@[j].1); assert(*stmt == list@[j].1); }"),
            After("""                        contains_ignored_stmt = true;
                    }
                }""", "proof { let sq = stmts_of(list@); assert(sq.take(sq.len() as int) =~= sq); assert(part_stmts(this_part) == sq); }\n let ghost l0 = list@;"),
            Hole("for stmt in list.iter() {", "for stmt in oi: list.iter() {", kind="ghost-name", why="names the ghost iterator"),
            Loop("for stmt in oi: list.iter()", """
                    invariant
                        oi.seq().len() == list@.len(), forall|q: int| 0 <= q < list@.len() ==> *(#[trigger] oi.seq()[q]) == list@[q],
                        ctx == ctx_fold(c_start, list@.take(oi.index@ as int)),
""",
                 enter="let ghost j = oi.index@ as int; proof { assert(list@.take(j + 1).drop_last() =~= list@.take(j)); assert(list@.take(j + 1).last() == list@[j]); assert(*stmt == list@[j]); }"),
            After("stmts.append(&mut list)", "; proof { assert(l_other.take(l_other.len() as int) =~= l_other); assert(part_stmts(this_part) == l_other); assert(stmts@ =~= out0 + l_other); assert(stmts@.skip(out0.len() as int) =~= l_other); assert(part_ok(c_start, this_part, l_other)); }"),
            Before("for stmt in oi: list.iter()", "let ghost l_other = list@;"),
            Hole("stmts.extend(list.iter().map(|x| x.1.clone()))", "verif_sort::extend_group(&mut stmts, &list)", kind="wrapper", why="Vec::extend(iter().map(closure))", count=2),
            After("""                    verif_sort::extend_group(&mut stmts, &list);
                    continue;""".replace("continue;", ""), "proof { assert(stmts@ =~= out0 + stmts_of(l0)); assert(stmts@.skip(out0.len() as int) =~= stmts_of(l0)); assert(part_ok(c_start, this_part, stmts_of(l0))); }"),
            Hole("""local_assignment
                            .local_token()
                            .leading_trivia()
                            .cloned()
                            .collect()""", "verif::hole_vec_token()", why="iterator chain: leading trivia of the first member's `local`"),
            Between("leading_trivia.extend(", ".cloned(),\n                        );", "verif::extend_vec_token(&mut leading_trivia, verif::hole_vec_token());", why="iterator chain: the comments in front of the new first member's own `local` (filter closure)"),
            Hole("list.sort_by_key(|key| key.0.clone());", "verif_sort::sort_by_name(&mut list);", kind="wrapper", why="slice::sort_by_key with a closure (stable sort by name: class B)"),
            Before("let block = block.clone().with_stmts(stmts);", "proof { assert(all_parts.take(all_parts.len() as int) =~= all_parts); assert(sorted_from(ctx0, block_stmts(&ast_nodes(input_ast)), stmts@)); }"),
            Hole("""let block = block.clone().with_stmts(stmts);
    input_ast.with_nodes(block).update_positions()""", "verif_sort::rebuild(input_ast, stmts)", kind="wrapper", why="Block::clone / with_stmts / Ast::with_nodes / update_positions folded into one assumed constructor"),
            # sorted branch: the two write-throughs keep every core and every name; the sort permutes
            Before("// Sort our list of requires", "let ghost l1 = list@; proof { assert(l1.len() == l0.len()); assert(forall|q: int| 0 <= q < l1.len() ==> core_of(#[trigger] l1[q].1) == core_of(l0[q].1)); assert(cores(stmts_of(l1)) =~= cores(stmts_of(l0))); assert(all_local(l1)); }"),
            After("verif_sort::sort_by_name(&mut list);", "let ghost l2 = list@; proof { assert(l2.len() > 0); assert(l2[0].1.0 is LocalAssignment); }"),
            Before("// Add to the list of stmts", "let ghost l3 = list@; proof { assert(l3.len() == l2.len()); assert(forall|q: int| 0 <= q < l3.len() ==> core_of(#[trigger] l3[q].1) == core_of(l2[q].1) && l3[q].0 == l2[q].0); assert(cores(stmts_of(l3)) =~= cores(stmts_of(l2))); assert(names_sorted(l3)); }"),
            After("""// Add to the list of stmts
                verif_sort::extend_group(&mut stmts, &list)""", "; proof { assert(stmts@.skip(out0.len() as int) =~= stmts_of(l3)); assert(!any_skip(c_start, stmts_of(l0))); assert(part_ok(c_start, this_part, stmts_of(l3))); }"),

        ]),
    ]
    return its

LABELS = {
    "C12.partition_concatenates": dict(props=["C12", "C02"], text="partition_nodes_into_groups: the parts, concatenated in order, are exactly the block's statements (nothing dropped, duplicated or moved)"),
    "C12.partition_nonempty": dict(props=["C12"], text="partition_nodes_into_groups never produces an empty part"),
    "C12.sorted_within_groups": dict(props=["C12", "C08", "C09", "C02"], text="sort_requires: the AST is returned untouched, or rebuilt from statements that are, part by part in place: a non-require part verbatim; a require group containing a statement that is ignored (directive or ignore start/end region, folded in statement order) or outside the range verbatim; otherwise a permutation of the group (same statements modulo the leading trivia of `local`) ordered by name"),
    "C12.sort_loop": dict(props=["C12", "C08", "C09"], text="sort_requires loop invariant: what has been emitted so far is what the parts consumed so far allow, under the context folded so far"),
    "C12.partition_loop": dict(props=["C12", "C02"], text="loop invariant: the parts built so far concatenate to the statements consumed so far"),
    "C12.partition_loop_nonempty": dict(props=["C12"], text="loop invariant: no part is empty"),
}

UNIT = Unit("sort", items() + [VERIF_MOD, B.VERIF_BLOCK], LABELS, header=HEADER)
