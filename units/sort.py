"""Unit `sort`: src/sort_requires.rs — partition_nodes_into_groups (the parts concatenate to the input statement
sequence; a require group only grows by the statement at hand) and sort_requires (statement count kept; non-require
parts and groups containing an ignored statement are emitted verbatim, in place; a sorted group is a permutation of
itself). C12, C08 (ignore regions), C09 (partly in-range groups)."""
from gen import Unit, Fn, Item, Raw, RawFile, Hole, After, Before, Loop, Between, DropMacros
from common import *
import block as B

SR = "src/sort_requires.rs"

SPEC = r"""
// ---- spec vocabulary ----
pub uninterp spec fn kind_of_expr(e: Expression) -> Option<GroupKind>;       // get_expression_kind (string matching on `require` / `game:GetService`)
pub uninterp spec fn la_single(l: LocalAssignment) -> Option<(TokenReference, Expression)>;   // exactly one name and one value
pub uninterp spec fn start_line(t: TokenReference) -> usize;
pub uninterp spec fn end_line(s: StmtSemi) -> usize;
pub uninterp spec fn ident_of(t: TokenReference) -> Option<Seq<char>>;
pub open spec fn part_stmts(p: BlockPartition) -> Seq<StmtSemi> {
    match p { BlockPartition::RequiresGroup(_, l) => l@.map_values(|x: (String, StmtSemi)| x.1), BlockPartition::Other(l) => l@ }
}
pub open spec fn flatten(ps: Seq<BlockPartition>) -> Seq<StmtSemi>
    decreases ps.len()
{
    if ps.len() == 0 { Seq::empty() } else { flatten(ps.drop_last()) + part_stmts(ps.last()) }
}
pub open spec fn part_nonempty(p: BlockPartition) -> bool { part_stmts(p).len() > 0 }
pub open spec fn from_prefix(x: StmtSemi, s: Seq<StmtSemi>, n: int) -> bool { exists|j: int| 0 <= j < n && #[trigger] s[j] == x }
"""

VERIF = r"""
#[verifier::external_body] pub fn stmt_refs(b: &Block) -> (r: Vec<&StmtSemi>)
    ensures r@.len() == block_stmts(b).len(), forall|i: int| 0 <= i < r@.len() ==> *(#[trigger] r@[i]) == block_stmts(b)[i] { unimplemented!() /* block.stmts_with_semicolon() */ }
#[verifier::external_body] pub fn single_local(node: &LocalAssignment) -> (r: bool) ensures r == (la_single(*node) is Some) { unimplemented!() /* node.names().len() == 1 && node.expressions().len() == 1 */ }
#[verifier::external_body] pub fn first_name(node: &LocalAssignment) -> (r: &TokenReference) requires la_single(*node) is Some ensures *r == la_single(*node)->Some_0.0 { unimplemented!() /* node.names().iter().next().unwrap() */ }
#[verifier::external_body] pub fn first_expression(node: &LocalAssignment) -> (r: &Expression) requires la_single(*node) is Some ensures *r == la_single(*node)->Some_0.1 { unimplemented!() /* node.expressions().iter().next().unwrap() */ }
#[verifier::external_body] pub fn token_line(t: &TokenReference) -> (r: usize) ensures r == start_line(*t) { unimplemented!() /* name.start_position().unwrap().line() */ }
#[verifier::external_body] pub fn stmt_end_line(s: &StmtSemi) -> (r: usize) ensures r == end_line(*s) { unimplemented!() /* previous_require.1.end_position().expect(..).line() */ }
#[verifier::external_body] pub fn line_gap_over_one(current_line: usize, previous_line: usize) -> (r: bool) { unimplemented!() /* current_line - previous_require_line > 1 */ }
#[verifier::external_body] pub fn clone_pair(s: &StmtSemi) -> (r: StmtSemi) ensures r == *s { unimplemented!() }
"""

def items():
    its = common_items()
    its += [
        Raw(B.SPEC, module="context"),
        Raw("""
impl vstd::std_specs::cmp::PartialEqSpecImpl for GroupKind {
    open spec fn obeys_eq_spec() -> bool { true }
    open spec fn eq_spec(&self, other: &Self) -> bool { *self == *other }
}
""", module="sort_requires"),
        Item(SR, "type", "StmtSemicolon"),
        Item(SR, "enum", "GroupKind", keep_derives=("Clone", "Copy", "PartialEq", "Eq")),
        Item(SR, "enum", "BlockPartition"),
        Raw(SPEC, module="sort_requires"),
        Raw(VERIF, module="verif_sort"),
        Fn(SR, "extract_identifier_from_token", mode="stub", contract="ensures (r is Some) == (ident_of(*token) is Some), r is Some ==> r->Some_0@ == ident_of(*token)->Some_0,"),
        Fn(SR, "get_expression_kind", mode="stub", contract="ensures r == kind_of_expr(*expression),"),
        Fn(SR, "partition_nodes_into_groups", contract="""
    requires forall|i: int| 0 <= i < block_stmts(block).len() ==> match (#[trigger] block_stmts(block)[i]).0 {
                 Stmt::LocalAssignment(l) => la_single(l) is Some && kind_of_expr(la_single(l)->Some_0.1) is Some ==> ident_of(la_single(l)->Some_0.0) is Some, _ => true },  // local names are identifiers (parser)
    ensures
        flatten(r@) == block_stmts(block), //# C12.partition_concatenates
        forall|i: int| 0 <= i < r@.len() ==> part_nonempty(#[trigger] r@[i]), //# C12.partition_nonempty
""", edits=[
            Hole("for stmt in block.stmts_with_semicolon() {", "let mut vx_it = verif::peekable(block.stmts_with_semicolon());\n    while let Some(stmt) = vx_it.next() {", kind="desugar",
                 why="`for x in it` written as its definition `while let Some(x) = it.next()` (Verus: for-loops do not support `continue`), through the Peekable wrapper that carries the ghost sequence"),
            Hole("node.names().len() == 1 && node.expressions().len() == 1", "verif_sort::single_local(node)", kind="wrapper", why="Punctuated::len x2"),
            Hole("node.names().iter().next().unwrap()", "verif_sort::first_name(node)", kind="wrapper", why="Punctuated::iter().next().unwrap()"),
            Hole("node.expressions().iter().next().unwrap()", "verif_sort::first_expression(node)", kind="wrapper", why="Punctuated::iter().next().unwrap()"),
            Hole("name.start_position().unwrap().line()", "verif_sort::token_line(name)", kind="wrapper", why="position of a parsed token (input validity: parsed ASTs carry positions)"),
            Between("let position = previous_require", "let previous_require_line = position.line();", "let previous_require_line = verif_sort::stmt_end_line(&previous_require.1);", kind="wrapper",
                    why="end position of a parsed statement (input validity: parsed ASTs carry positions)"),
            Hole("current_line - previous_require_line > 1", "verif_sort::line_gap_over_one(current_line, previous_require_line)", kind="wrapper",
                 why="line arithmetic on positions; the usize subtraction is NOT checked here (needs monotone positions of the parsed file)"),
            Hole("map.push((variable_name, stmt.clone()))", "map.push((variable_name, verif_sort::clone_pair(stmt)))", kind="wrapper", why="<(Stmt, Option<TokenReference>) as Clone>::clone", count=1),
            Hole("list.push(stmt.clone())", "list.push(verif_sort::clone_pair(stmt))", kind="wrapper", why="<(Stmt, Option<TokenReference>) as Clone>::clone"),
            After("let mut parts = Vec::new();", "let ghost all = block_stmts(block); let ghost mut k: int = 0;"),
            # proof hints (ghost only): extensional steps of `flatten` after each push
            Before("if let Stmt::LocalAssignment(node) = &stmt.0 {", "let ghost p0 = parts@; proof { assert(*stmt == all[k]); }"),
            After("parts.push(BlockPartition::RequiresGroup(expression_kind, Vec::new()))", "; proof { assert(parts@.drop_last() =~= p0); assert(part_stmts(parts@.last()) =~= Seq::<StmtSemi>::empty()); assert(flatten(parts@) =~= flatten(p0)); }"),
            After("parts.push(BlockPartition::Other(Vec::new()))", "; proof { assert(parts@.drop_last() =~= p0); assert(part_stmts(parts@.last()) =~= Seq::<StmtSemi>::empty()); assert(flatten(parts@) =~= flatten(p0)); }", count=2),
            Before("match parts.last_mut() {", "let ghost pm = parts@; proof { assert(flatten(pm) =~= all.take(k)); assert(pm.len() > 0); }", count=2),
            After("""                        _ => unreachable!(),
                    };""", "proof { assert(parts@.drop_last() =~= pm.drop_last()); assert(part_stmts(parts@.last()) =~= part_stmts(pm.last()).push(all[k])); assert(all.take(k + 1) =~= all.take(k).push(all[k])); assert(flatten(parts@) =~= all.take(k + 1)); }"),
            After("""            Some(BlockPartition::Other(list)) => list.push(verif_sort::clone_pair(stmt)),
            _ => unreachable!(),
        }""", "proof { assert(parts@.drop_last() =~= pm.drop_last()); assert(part_stmts(parts@.last()) =~= part_stmts(pm.last()).push(all[k])); assert(all.take(k + 1) =~= all.take(k).push(all[k])); assert(flatten(parts@) =~= all.take(k + 1)); }"),
            Loop("while let Some(stmt) = vx_it.next()", """
        invariant
            0 <= k <= all.len(), all == block_stmts(block),
            pk_rest(&vx_it).len() == all.len() - k,
            forall|j: int| 0 <= j < pk_rest(&vx_it).len() ==> *(#[trigger] pk_rest(&vx_it)[j]) == all[k + j],
            forall|i: int| 0 <= i < all.len() ==> match (#[trigger] all[i]).0 {
                 Stmt::LocalAssignment(l) => la_single(l) is Some && kind_of_expr(la_single(l)->Some_0.1) is Some ==> ident_of(la_single(l)->Some_0.0) is Some, _ => true },
            flatten(parts@) == all.take(k), //# C12.partition_loop
            forall|i: int| 0 <= i < parts@.len() ==> part_nonempty(#[trigger] parts@[i]), //# C12.partition_loop_nonempty
        ensures k == all.len(),
        decreases pk_rest(&vx_it).len(),
""", step="proof { k = k + 1; }"),
        ]),
    ]
    return its

LABELS = {
    "C12.partition_concatenates": dict(props=["C12", "C02"], text="partition_nodes_into_groups: the parts, concatenated in order, are exactly the block's statements (nothing dropped, duplicated or moved)"),
    "C12.partition_nonempty": dict(props=["C12"], text="partition_nodes_into_groups never produces an empty part"),
    "C12.partition_loop": dict(props=["C12", "C02"], text="loop invariant: the parts built so far concatenate to the statements consumed so far"),
    "C12.partition_loop_nonempty": dict(props=["C12"], text="loop invariant: no part is empty"),
}

UNIT = Unit("sort", items() + [VERIF_MOD, B.VERIF_BLOCK], LABELS, header=HEADER)
