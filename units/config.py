"""Unit `config`: src/cli/config.rs — load_overrides (C15/C20: each CLI value overrides exactly its field),
find_toml_file, lookup_config_file_in_directory, find_config_file (memoised upward search against a recursive
spec over a ghost file system; cache invariant), load_configuration / load_configuration_for_stdin (precedence:
forced > found > editorconfig unless disabled > default)."""
from gen import Unit, Fn, Item, Raw, RawFile, Hole, After, Before, Loop, Between, DropMacros

CFG = "src/cli/config.rs"
OPT = "src/cli/opt.rs"
LIB = "src/lib.rs"

HEADER = """
use std::path::{Path, PathBuf};
use std::collections::HashMap;
use anyhow::Result;
"""

PRELUDE = r"""
#[verifier::external_type_specification] #[verifier::external_body] pub struct ExAnyhowError(anyhow::Error);
#[verifier::external_type_specification] #[verifier::external_body] pub struct ExPathBuf(PathBuf);
#[verifier::external_type_specification] #[verifier::external_body] pub struct ExPath(Path);

// ---- ghost file system (class B: std::path / std::fs / std::env behave like this) ----
pub uninterp spec fn pid(p: &Path) -> int;                         // identity of a path
pub uninterp spec fn pbid(p: &PathBuf) -> int;                     // ... of an owned path (same identity space)
pub assume_specification [Path::to_path_buf] (p: &Path) -> (r: PathBuf) ensures pbid(&r) == pid(p);
pub assume_specification [<PathBuf as std::ops::Deref>::deref] (p: &PathBuf) -> (r: &Path) ensures pid(r) == pbid(p);
pub uninterp spec fn parent_of(d: int) -> Option<int>;
pub uninterp spec fn depth(d: int) -> nat;                         // number of components
pub uninterp spec fn joined(a: int, b: int) -> int;                // a.join(b)
pub uninterp spec fn has_toml(d: int) -> bool;                     // stylua.toml or .stylua.toml exists in d
pub uninterp spec fn toml_ok(d: int) -> bool;                      // ... and it reads and deserialises
pub uninterp spec fn toml_config(d: int) -> Config;                // its contents (before CLI overrides)
// the environment (class B: std::env::var / Path::exists read it): $XDG_CONFIG_HOME and $HOME as paths, which directories exist
pub uninterp spec fn env_xdg() -> Option<int>;
pub uninterp spec fn env_home() -> Option<int>;
pub uninterp spec fn dir_exists(d: int) -> bool;
pub uninterp spec fn joined_name(d: int, name: Seq<char>) -> int;   // d.join("<name>")
pub uninterp spec fn sid(s: &String) -> int;                        // the path a string names
pub uninterp spec fn editorconfig_ok(base: Config, p: int) -> bool;
pub uninterp spec fn editorconfig_of(base: Config, p: int) -> Config;
pub proof fn axiom_depth(d: int)
    ensures parent_of(d) is Some ==> depth(parent_of(d)->Some_0) < depth(d)
{ admit(); }

// ---- conversions of the clap enums (name-preserving: proved by the Kani harnesses of C20) ----
pub uninterp spec fn conv_syntax(a: opt::ArgLuaVersion) -> LuaVersion;
pub uninterp spec fn conv_line_endings(a: opt::ArgLineEndings) -> LineEndings;
pub uninterp spec fn conv_indent_type(a: opt::ArgIndentType) -> IndentType;
pub uninterp spec fn conv_quote_style(a: opt::ArgQuoteStyle) -> QuoteStyle;
pub uninterp spec fn conv_call_parentheses(a: opt::ArgCallParenType) -> CallParenType;
pub uninterp spec fn conv_collapse(a: opt::ArgCollapseSimpleStatement) -> CollapseSimpleStatement;
pub uninterp spec fn conv_space(a: opt::ArgSpaceAfterFunctionNames) -> SpaceAfterFunctionNames;

// ---- the documented semantics ----
// command-line format options override exactly their field
pub open spec fn ov_syntax(c: Config, o: opt::Opt) -> LuaVersion { match o.format_opts.syntax { Some(x) => conv_syntax(x), None => c.syntax } }
pub open spec fn ov_column_width(c: Config, o: opt::Opt) -> usize { match o.format_opts.column_width { Some(x) => x, None => c.column_width } }
pub open spec fn ov_line_endings(c: Config, o: opt::Opt) -> LineEndings { match o.format_opts.line_endings { Some(x) => conv_line_endings(x), None => c.line_endings } }
pub open spec fn ov_indent_type(c: Config, o: opt::Opt) -> IndentType { match o.format_opts.indent_type { Some(x) => conv_indent_type(x), None => c.indent_type } }
pub open spec fn ov_indent_width(c: Config, o: opt::Opt) -> usize { match o.format_opts.indent_width { Some(x) => x, None => c.indent_width } }
pub open spec fn ov_quote_style(c: Config, o: opt::Opt) -> QuoteStyle { match o.format_opts.quote_style { Some(x) => conv_quote_style(x), None => c.quote_style } }
pub open spec fn ov_call_parentheses(c: Config, o: opt::Opt) -> CallParenType { match o.format_opts.call_parentheses { Some(x) => conv_call_parentheses(x), None => c.call_parentheses } }
pub open spec fn ov_collapse(c: Config, o: opt::Opt) -> CollapseSimpleStatement { match o.format_opts.collapse_simple_statement { Some(x) => conv_collapse(x), None => c.collapse_simple_statement } }
pub open spec fn ov_sort(c: Config, o: opt::Opt) -> SortRequiresConfig { if o.format_opts.sort_requires { SortRequiresConfig { enabled: true } } else { c.sort_requires } }
pub open spec fn ov_space(c: Config, o: opt::Opt) -> SpaceAfterFunctionNames { match o.format_opts.space_after_function_names { Some(x) => conv_space(x), None => c.space_after_function_names } }
pub open spec fn overridden(c: Config, o: opt::Opt) -> Config {
    Config {
        syntax: ov_syntax(c, o), column_width: ov_column_width(c, o), line_endings: ov_line_endings(c, o), indent_type: ov_indent_type(c, o),
        indent_width: ov_indent_width(c, o), quote_style: ov_quote_style(c, o), no_call_parentheses: c.no_call_parentheses,
        call_parentheses: ov_call_parentheses(c, o), collapse_simple_statement: ov_collapse(c, o), sort_requires: ov_sort(c, o),
        space_after_function_names: ov_space(c, o),
    }
}
pub enum Found { Failed, Config(Config), Nothing }
// the documented places after the walk to the root (README "Finding the configuration"; C15: "then the XDG/HOME locations"), in this order:
// $XDG_CONFIG_HOME, $XDG_CONFIG_HOME/stylua, $HOME/.config, $HOME/.config/stylua — the first stylua.toml / .stylua.toml found is used
pub open spec fn dir_lookup(d: int, o: opt::Opt) -> Found {
    if has_toml(d) { if toml_ok(d) { Found::Config(overridden(toml_config(d), o)) } else { Found::Failed } } else { Found::Nothing }
}
pub open spec fn place_lookup(d: int, o: opt::Opt) -> Found {
    if !dir_exists(d) { Found::Nothing }
    else { match dir_lookup(d, o) {
        Found::Nothing => if dir_exists(joined_name(d, "stylua"@)) { dir_lookup(joined_name(d, "stylua"@), o) } else { Found::Nothing },
        x => x,
    } }
}
pub open spec fn fallback(o: opt::Opt) -> Found {
    match (if env_xdg() is Some { place_lookup(env_xdg()->Some_0, o) } else { Found::Nothing }) {
        Found::Nothing => if env_home() is Some { place_lookup(joined_name(env_home()->Some_0, ".config"@), o) } else { Found::Nothing },
        x => x,
    }
}
pub open spec fn fallback_ok(o: opt::Opt) -> bool { !(fallback(o) is Failed) }
pub open spec fn fallback_config(o: opt::Opt) -> Option<Config> { found_option(fallback(o)) }
// nearest stylua.toml / .stylua.toml walking up from d, stopping at root (or at the file-system root, then XDG/HOME
// with --search-parent-directories)
pub open spec fn search(d: int, root: Option<int>, o: opt::Opt) -> Found
    decreases depth(d) via search_decreases
{
    if has_toml(d) {
        if toml_ok(d) { Found::Config(overridden(toml_config(d), o)) } else { Found::Failed }
    } else if Some(d) == root || parent_of(d) is None {
        if o.search_parent_directories {
            if !fallback_ok(o) { Found::Failed } else if fallback_config(o) is Some { Found::Config(fallback_config(o)->Some_0) } else { Found::Nothing }
        } else { Found::Nothing }
    } else {
        search(parent_of(d)->Some_0, root, o)
    }
}
#[via_fn]
proof fn search_decreases(d: int, root: Option<int>, o: opt::Opt) { axiom_depth(d); }
pub uninterp spec fn cache_view(m: &HashMap<PathBuf, Option<Config>>) -> Map<int, Option<Config>>;
pub open spec fn found_option(f: Found) -> Option<Config> { match f { Found::Config(c) => Some(c), _ => None } }
"""

VERIF = r"""
#[verifier::external_body] pub fn cache_get(m: &HashMap<PathBuf, Option<Config>>, d: &Path) -> (r: Option<Option<Config>>)
    ensures r == (if cache_view(m).dom().contains(pid(d)) { Some(cache_view(m)[pid(d)]) } else { None }) { unimplemented!() }
#[verifier::external_body] pub fn cache_insert(m: &mut HashMap<PathBuf, Option<Config>>, d: &Path, v: Option<Config>)
    ensures cache_view(final(m)) == cache_view(old(m)).insert(pid(d), v) { unimplemented!() }
#[verifier::external_body] pub fn path_parent(d: &Path) -> (r: Option<&Path>)
    ensures (r is Some) == (parent_of(pid(d)) is Some), r is Some ==> pid(r->Some_0) == parent_of(pid(d))->Some_0 { unimplemented!() }
#[verifier::external_body] pub fn path_join(a: &Path, b: &Path) -> (r: PathBuf) ensures pbid(&r) == joined(pid(a), pid(b)) { unimplemented!() }
#[verifier::external_body] pub fn is_root(d: &Path, root: &Option<PathBuf>) -> (r: bool)
    ensures r == (root is Some && pid(d) == pbid(&root->Some_0)) { unimplemented!() /* Some(directory) == root.as_deref() */ }
#[verifier::external_body] pub fn to_path_buf(d: &Path) -> (r: PathBuf) ensures pbid(&r) == pid(d) { unimplemented!() }
#[verifier::external_body] pub fn star_lua() -> (r: PathBuf) { unimplemented!() /* PathBuf::from("*.lua") */ }
#[verifier::external_body] pub fn read_toml_with_overrides(d: &Path, file_path: &PathBuf, o: &opt::Opt) -> (r: Result<Config>)
    requires has_toml(pid(d)),
    ensures (r is Ok) == toml_ok(pid(d)), r is Ok ==> r->Ok_0 == overridden(toml_config(pid(d)), *o) { unimplemented!() /* read_and_apply_overrides(&file_path, self.opt) */ }
#[verifier::external_body] pub fn editorconfig_parse(base: Config, p: &Path) -> (r: Result<Config>)
    ensures (r is Ok) == editorconfig_ok(base, pid(p)), r is Ok ==> r->Ok_0 == editorconfig_of(base, pid(p)) { unimplemented!() }
#[verifier::external_body] pub fn no_parent_error() -> (r: anyhow::Error) { unimplemented!() }
pub struct NotPresent;
#[verifier::external_body] pub fn env_var_xdg_config_home() -> (r: Result<String, NotPresent>)
    ensures (r is Ok) == (env_xdg() is Some), r is Ok ==> sid(&r->Ok_0) == env_xdg()->Some_0 { unimplemented!() /* std::env::var("XDG_CONFIG_HOME") */ }
#[verifier::external_body] pub fn env_var_home() -> (r: Result<String, NotPresent>)
    ensures (r is Ok) == (env_home() is Some), r is Ok ==> sid(&r->Ok_0) == env_home()->Some_0 { unimplemented!() /* std::env::var("HOME") */ }
#[verifier::external_body] pub fn path_new(s: &String) -> (r: &Path) ensures pid(r) == sid(s) { unimplemented!() /* Path::new(s) */ }
#[verifier::external_body] pub fn path_exists(p: &Path) -> (r: bool) ensures r == dir_exists(pid(p)) { unimplemented!() /* p.exists() */ }
#[verifier::external_body] pub fn path_join_name(p: &Path, name: &str) -> (r: PathBuf) ensures pbid(&r) == joined_name(pid(p), name@) { unimplemented!() /* p.join(name) */ }
"""

def conv(field, fn):
    return Hole(f"{field}.into()", f"verif_conv::{fn}({field})", kind="wrapper", why="<Arg* as Into<_>>::into (From impl generated by convert_enum!)")

CONV_MOD = r"""
use super::*;
#[verifier::external_body] pub fn syntax(a: opt::ArgLuaVersion) -> (r: LuaVersion) ensures r == conv_syntax(a) { unimplemented!() }
#[verifier::external_body] pub fn line_endings(a: opt::ArgLineEndings) -> (r: LineEndings) ensures r == conv_line_endings(a) { unimplemented!() }
#[verifier::external_body] pub fn indent_type(a: opt::ArgIndentType) -> (r: IndentType) ensures r == conv_indent_type(a) { unimplemented!() }
#[verifier::external_body] pub fn quote_style(a: opt::ArgQuoteStyle) -> (r: QuoteStyle) ensures r == conv_quote_style(a) { unimplemented!() }
#[verifier::external_body] pub fn call_parentheses(a: opt::ArgCallParenType) -> (r: CallParenType) ensures r == conv_call_parentheses(a) { unimplemented!() }
#[verifier::external_body] pub fn collapse(a: opt::ArgCollapseSimpleStatement) -> (r: CollapseSimpleStatement) ensures r == conv_collapse(a) { unimplemented!() }
#[verifier::external_body] pub fn space(a: opt::ArgSpaceAfterFunctionNames) -> (r: SpaceAfterFunctionNames) ensures r == conv_space(a) { unimplemented!() }
"""

RESOLVER_WF = r"""
impl ConfigResolver<'_> {
    pub open spec fn root_id(&self) -> Option<int> {
        if self.opt.search_parent_directories { None } else { Some(pbid(&self.current_directory)) }
    }
    // representation invariant: the memo table only holds results of the documented search; the default is the
    // overridden built-in default
    pub open spec fn wf(&self) -> bool {
        &&& forall|d: int| #[trigger] cache_view(&self.config_cache).dom().contains(d) ==>
                cache_view(&self.config_cache)[d] == found_option(search(d, self.root_id(), *self.opt)) && !(search(d, self.root_id(), *self.opt) is Failed)
        &&& self.default_configuration == overridden(default_config(), *self.opt)
    }
    // the documented result for a file path / for stdin
    pub open spec fn expected(&self, dir: int, path: int) -> Option<Config> {
        if self.forced_configuration is Some { self.forced_configuration }
        else { match search(dir, self.root_id(), *self.opt) {
            Found::Failed => None,
            Found::Config(c) => Some(c),
            Found::Nothing => if self.opt.no_editorconfig { Some(self.default_configuration) }
                              else if editorconfig_ok(self.default_configuration, path) { Some(editorconfig_of(self.default_configuration, path)) } else { None },
        } }
    }
}
pub uninterp spec fn default_config() -> Config;
"""

ORDER = [("syntax", "ov_syntax"), ("column_width", "ov_column_width"), ("line_endings", "ov_line_endings"), ("indent_type", "ov_indent_type"),
         ("indent_width", "ov_indent_width"), ("quote_style", "ov_quote_style"), ("call_parentheses", "ov_call_parentheses"),
         ("space_after_function_names", "ov_space"), ("collapse_simple_statement", "ov_collapse"), ("sort_requires", "ov_sort")]
def override_hints():
    """proof hints (ghost asserts, proved not assumed): after the k-th `if`, the first k fields are overridden, the rest untouched"""
    out = []
    for k in range(len(ORDER)):
        done = [f"new_config.{f} == {sp}(config, *opt)" for f, sp in ORDER[:k+1]]
        rest = [f"new_config.{f} == config.{f}" for f, sp in ORDER[k+1:]] + ["new_config.no_call_parentheses == config.no_call_parentheses"]
        hint = "assert(" + " && ".join(done + rest) + ");"
        if k + 1 < len(ORDER):
            nxt = ORDER[k+1][0]
            anchor = f"if let Some({nxt}) = opt.format_opts.{nxt}" if nxt != "sort_requires" else "if opt.format_opts.sort_requires {"
            out.append(Before(anchor, hint, optional=True))
        else:
            out.append(Before("\n    new_config\n}", hint))
    return out

def items():
    return [
        Raw(PRELUDE),
        *[Item(LIB, "enum", n) for n in ["LuaVersion", "IndentType", "LineEndings", "QuoteStyle", "CallParenType", "CollapseSimpleStatement", "SpaceAfterFunctionNames"]],
        Item(LIB, "struct", "SortRequiresConfig"), Item(LIB, "struct", "Config"),
        Item(OPT, "enum", "Color", keep_derives=("Clone", "Copy")),
        Item(OPT, "enum", "OutputFormat", keep_derives=("Clone", "Copy")),
        *[Raw(f"#[derive(Clone, Copy)] pub enum {n} {{ Opaque(u8) }}", module="opt") for n in
          ["ArgLuaVersion", "ArgLineEndings", "ArgIndentType", "ArgQuoteStyle", "ArgCallParenType", "ArgCollapseSimpleStatement", "ArgSpaceAfterFunctionNames"]],
        Item(OPT, "struct", "FormatOpts", keep_derives=("Clone", "Copy")),
        Item(OPT, "struct", "Opt", keep_derives=()),
        Raw(VERIF, module="verif"),
        Raw(CONV_MOD, module="verif_conv"),
        Fn(CFG, "load_overrides", module="config", contract="""
    ensures
        r.syntax == ov_syntax(config, *opt), r.column_width == ov_column_width(config, *opt), r.line_endings == ov_line_endings(config, *opt),
        r.indent_type == ov_indent_type(config, *opt), r.indent_width == ov_indent_width(config, *opt), r.quote_style == ov_quote_style(config, *opt),
        r.no_call_parentheses == config.no_call_parentheses, r.call_parentheses == ov_call_parentheses(config, *opt),
        r.collapse_simple_statement == ov_collapse(config, *opt), r.sort_requires == ov_sort(config, *opt), r.space_after_function_names == ov_space(config, *opt),
        r == overridden(config, *opt), //# C15.cli_overrides
""", edits=[conv("syntax", "syntax"), conv("line_endings", "line_endings"), conv("indent_type", "indent_type"), conv("quote_style", "quote_style"),
            conv("call_parentheses", "call_parentheses"), conv("space_after_function_names", "space"), conv("collapse_simple_statement", "collapse")] + override_hints()),
        Raw("""
#[verifier::external_body] pub fn find_toml_file(directory: &Path) -> (r: Option<PathBuf>) ensures (r is Some) == has_toml(pid(directory)) { unimplemented!() }
""", module="config"),
        Item(CFG, "struct", "ConfigResolver"),
        Raw(RESOLVER_WF, module="config"),
        Fn(CFG, "get_configuration_search_root", impl_of="ConfigResolver", impl_header="impl ConfigResolver<'_>", contract="""
    ensures (r is Some) == (self.root_id() is Some), r is Some ==> pbid(&r->Some_0) == self.root_id()->Some_0,
""", edits=[Hole("self.current_directory.to_path_buf()", "verif::to_path_buf(&self.current_directory)", kind="wrapper", why="Path::to_path_buf")]),
        Fn(CFG, "lookup_config_file_in_directory", impl_of="ConfigResolver", impl_header="impl ConfigResolver<'_>", contract="""
    ensures
        !has_toml(pid(directory)) ==> r is Ok && r->Ok_0 is None,
        has_toml(pid(directory)) ==> (r is Ok) == toml_ok(pid(directory)),
        has_toml(pid(directory)) && r is Ok ==> r->Ok_0 == Some(overridden(toml_config(pid(directory)), *self.opt)), //# C15.config_in_directory
""", edits=[DropMacros(), Hole("read_and_apply_overrides(&file_path, self.opt)?", "verif::read_toml_with_overrides(directory, &file_path, self.opt)?", kind="wrapper", why="fs::read_to_string + toml::from_str + load_overrides behind the ghost file system")]),
        Fn(CFG, "search_config_locations", impl_of="ConfigResolver", impl_header="impl ConfigResolver<'_>", contract="""
    ensures
        (r is Ok) == !(fallback(*self.opt) is Failed), //# C15.fallback_errors
        r is Ok ==> r->Ok_0 == found_option(fallback(*self.opt)), //# C15.fallback_order
""", edits=[DropMacros(),
            Hole('std::env::var("XDG_CONFIG_HOME")', "verif::env_var_xdg_config_home()", kind="wrapper", why="std::env::var behind the ghost environment"),
            Hole('std::env::var("HOME")', "verif::env_var_home()", kind="wrapper", why="std::env::var behind the ghost environment"),
            Hole("Path::new(&xdg_config)", "verif::path_new(&xdg_config)", kind="wrapper", why="Path::new::<String> (generic AsRef<OsStr>)"),
            Hole('Path::new(&home).join(".config")', 'verif::path_join_name(verif::path_new(&home), ".config")', kind="wrapper", why="Path::new / Path::join::<&str> (generic AsRef)"),
            Hole('xdg_config_path.join("stylua")', 'verif::path_join_name(xdg_config_path, "stylua")', kind="wrapper", why="Path::join::<&str>"),
            Hole('home_config_path.join("stylua")', 'verif::path_join_name(&home_config_path, "stylua")', kind="wrapper", why="Path::join::<&str>"),
            Hole("xdg_config_path.exists()", "verif::path_exists(&xdg_config_path)", count=None, kind="wrapper", why="Path::exists (file system)"),
            Hole("home_config_path.exists()", "verif::path_exists(&home_config_path)", count=None, kind="wrapper", why="Path::exists (file system)"),
        ]),
        Fn(CFG, "find_config_file", impl_of="ConfigResolver", impl_header="impl ConfigResolver<'_>", contract="""
    requires old(self).wf(), (root is Some) == (old(self).root_id() is Some), root is Some ==> pbid(&root->Some_0) == old(self).root_id()->Some_0,
    ensures
        final(self).wf(), //# C15.cache_invariant
        final(self).opt == old(self).opt, final(self).current_directory == old(self).current_directory,
        final(self).forced_configuration == old(self).forced_configuration, final(self).default_configuration == old(self).default_configuration,
        (r is Ok) == !(search(pid(directory), old(self).root_id(), *old(self).opt) is Failed), //# C15.search_errors
        r is Ok ==> r->Ok_0 == found_option(search(pid(directory), old(self).root_id(), *old(self).opt)), //# C15.nearest_config
    decreases depth(pid(directory)),
""", edits=[DropMacros(),
            Hole("self.config_cache.get(directory)", "verif::cache_get(&self.config_cache, directory)", kind="wrapper", why="HashMap<PathBuf,_>::get::<Path>"),
            Hole("return Ok(*config);", "return Ok(config);", kind="wrapper", why="cache_get returns the value by copy"),
            Hole("directory.parent()", "verif::path_parent(directory)", kind="wrapper", why="Path::parent"),
            Hole("Some(directory) == root.as_deref()", "verif::is_root(directory, &root)", kind="wrapper", why="Option<&Path> == Option<&Path>"),
            Hole("""self.config_cache
            .insert(directory.to_path_buf(), resolved_configuration);""", "verif::cache_insert(&mut self.config_cache, directory, resolved_configuration);", kind="wrapper", why="HashMap::insert"),
            Before("let resolved_configuration = match", "proof { axiom_depth(pid(directory)); }"),
            ]),
        Fn(CFG, "load_configuration", impl_of="ConfigResolver", impl_header="impl ConfigResolver<'_>", contract="""
    requires old(self).wf(), parent_of(joined(pbid(&old(self).current_directory), pid(path))) is Some,
    ensures
        final(self).wf(), //# C15.cache_invariant_load
        final(self).opt == old(self).opt, final(self).current_directory == old(self).current_directory,
        final(self).forced_configuration == old(self).forced_configuration, final(self).default_configuration == old(self).default_configuration,
        (r is Ok) == (old(self).expected(parent_of(joined(pbid(&old(self).current_directory), pid(path)))->Some_0, pid(path)) is Some), //# C15.load_errors
        r is Ok ==> Some(r->Ok_0) == old(self).expected(parent_of(joined(pbid(&old(self).current_directory), pid(path)))->Some_0, pid(path)), //# C15.precedence
""", edits=[
            Hole("self.current_directory.join(path)", "verif::path_join(&self.current_directory, path)", kind="wrapper", why="Path::join"),
            Hole("""&absolute_path
            .parent()
            .with_context(|| format!("no parent directory found for {}", path.display()))?""", "&verif::path_parent(&absolute_path).ok_or_else(|| -> (e: anyhow::Error) { verif::no_parent_error() })?" if False else "&(match verif::path_parent(&absolute_path) { Some(p) => p, None => return Err(verif::no_parent_error()) })", kind="wrapper", why="Option::with_context(..)? spelled as a match"),
            Hole("""editorconfig::parse(self.default_configuration, path)
                        .context("could not parse editorconfig")""", "verif::editorconfig_parse(self.default_configuration, path)", kind="wrapper", why="stylua_lib::editorconfig::parse + context decoration"),
        ]),
    ]

LABELS = {
    "C15.cli_overrides": dict(props=["C15", "C20"], text="load_overrides: every command-line format option that is present overrides exactly its own Config field; absent ones (and --sort-requires when not given) leave the found value"),
    "C15.config_in_directory": dict(props=["C15"], text="lookup_config_file_in_directory: the directory's stylua.toml/.stylua.toml, read and with CLI overrides applied; none => None; unreadable => error"),
    "C15.cache_invariant": dict(props=["C15"], text="find_config_file keeps the memo-table invariant: every cached entry equals the documented upward search from that directory"),
    "C15.cache_invariant_load": dict(props=["C15"], text="load_configuration keeps the memo-table invariant (nothing but search results is ever cached)"),
    "C15.fallback_errors": dict(props=["C15"], text="search_config_locations fails exactly when the first configuration file found in the documented places cannot be read"),
    "C15.fallback_order": dict(props=["C15"], text="search_config_locations: $XDG_CONFIG_HOME, $XDG_CONFIG_HOME/stylua, $HOME/.config, $HOME/.config/stylua, in this order, each only if the directory exists; the first stylua.toml / .stylua.toml found, with the CLI overrides applied"),
    "C15.search_errors": dict(props=["C15", "C20"], text="find_config_file fails exactly when the nearest configuration file (or the XDG/HOME fallback) cannot be read"),
    "C15.nearest_config": dict(props=["C15"], text="find_config_file returns the nearest stylua.toml/.stylua.toml walking up, stopping at the working directory, or continuing to the root and the XDG/HOME locations with --search-parent-directories"),
    "C15.load_errors": dict(props=["C15"], text="load_configuration fails exactly when the documented search or the editorconfig fallback fails"),
    "C15.precedence": dict(props=["C15"], text="load_configuration: --config-path file if given; else nearest stylua.toml; else .editorconfig unless disabled; else defaults (all with CLI overrides)"),
}

UNIT = Unit("config", items(), LABELS, header=HEADER, externs=("anyhow",), feature_sets=("default",), rlimit=60)
