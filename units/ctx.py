"""Unit `ctx`: src/context.rs — should_format_node (C08 formatting_disabled/directive ⟹ Skip, C09 range
arithmetic), the single source of newline/indent trivia (C10), the option predicates and the
function-name spacing constructors (C11)."""
from gen import Unit, Fn, Item, Raw, RawFile, Hole, After, Before, Loop
from common import *
import block as B

IGNORE_LOOP = """for trivia in leading_trivia {
            let comment_lines = match trivia.token_type() {
                TokenType::SingleLineComment { comment } => comment,
                TokenType::MultiLineComment { comment, .. } => comment,
                _ => continue,
            }
            .lines()
            .map(|line| line.trim());

            for line in comment_lines {
                if line == "stylua: ignore" {
                    return FormatNode::Skip;
                }
            }
        }"""

SPEC_WS = r"""
// ---- spec: what the whitespace constructors must produce (C10) -------------------------------
pub uninterp spec fn ss_view(s: full_moon::ShortString) -> Seq<char>;
pub open spec fn le_seq(le: LineEndings) -> Seq<char> {
    match le { LineEndings::Unix => "\n"@, LineEndings::Windows => "\r\n"@ }
}
pub open spec fn indent_tt(c: Config, level: usize) -> TokenType {
    match c.indent_type { IndentType::Tabs => tabs_tt(level), IndentType::Spaces => spaces_tt((level * c.indent_width) as usize) }
}
// what is_newline_tok / is_indent_tok (prelude/lines.rs, uninterpreted there) are: the tokens these constructors make (definitional; used by
// the bridges of tools/bridge_links.py, which derive the other units' assumed contracts of the constructors from the ones verified here)
pub proof fn axiom_newline_tok(t: Token, c: Config) requires is_newline_for(t, c) ensures is_newline_tok(t), token_type_of(t) is Whitespace { admit(); }
pub proof fn axiom_indent_tok(t: Token, c: Config, n: usize) requires token_type_of(t) == indent_tt(c, n) ensures is_indent_tok(t), token_type_of(t) is Whitespace { admit(); }
pub open spec fn is_newline_for(t: Token, c: Config) -> bool {
    match token_type_of(t) { TokenType::Whitespace { characters } => ss_view(characters) == le_seq(c.line_endings), _ => false }
}
"""

VERIF_CTX = Raw(r"""
#[verifier::external_body]
pub fn scan_ignore_directive<N: VNode>(node: &N, leading_trivia: &Vec<&Token>) -> (r: bool)
    ensures r == has_ignore(node.key())
{ unimplemented!() }
#[verifier::external_body]
pub fn into_short(s: String) -> (r: full_moon::ShortString) ensures ss_view(r) == s@ { s.into() }
#[verifier::external_body]
pub fn string_from(s: &str) -> (r: String) ensures r@ == s@ { String::from(s) }
""", module="verif")

def items():
    its = [x for x in common_items() if not (isinstance(x, Fn) and x.file == CTX)]
    its += [
        Raw(B.SPEC, module="context"),
        Raw(SPEC_WS, module="context"),
        Fn(CTX, "new", impl_of="Context", contract="ensures r.config == config, r.range == range, !r.formatting_disabled,"),
        Fn(CTX, "config", impl_of="Context", contract="ensures r == self.config,"),
        Fn(CTX, "should_format_node", impl_of="Context", sig_edits=[VN], contract="""
    ensures
        r == decision(*self, node.key()), //# C09.range_decision
        self.formatting_disabled ==> r is Skip, //# C08.disabled_skips
        has_ignore(node.key()) ==> r is Skip, //# C08.directive_skips
""", edits=[
            Hole("node.surrounding_trivia().0", "node.leading_trivia_vec()", kind="proxy", why="Node::surrounding_trivia through the VNode proxy"),
            Hole(IGNORE_LOOP, "if verif::scan_ignore_directive(node, &leading_trivia) { return FormatNode::Skip; }", kind="loop-abstraction",
                 why="for-loop over comment.lines().map(trim): string matching of the directive; control flow around it is kept"),
        ]),
        Fn(CTX, "should_omit_string_parens", impl_of="Context", ret="b", contract="""
    ensures b == (self.config.no_call_parentheses || self.config.call_parentheses is None || self.config.call_parentheses is NoSingleString), //# C11.omit_string_parens
"""),
        Fn(CTX, "should_omit_table_parens", impl_of="Context", ret="b", contract="""
    ensures b == (self.config.no_call_parentheses || self.config.call_parentheses is None || self.config.call_parentheses is NoSingleTable), //# C11.omit_table_parens
"""),
        Fn(CTX, "should_collapse_simple_functions", impl_of="Context"),
        Fn(CTX, "should_collapse_simple_conditionals", impl_of="Context"),
        Fn(CTX, "line_ending_character", contract="""
    ensures r@ == le_seq(line_endings), //# C10.line_ending_character
""", edits=[Hole('String::from("\\n")', 'verif::string_from("\\n")', kind="wrapper", why="<String as From<&str>>::from"),
            Hole('String::from("\\r\\n")', 'verif::string_from("\\r\\n")', kind="wrapper", why="<String as From<&str>>::from")]),
        Fn(CTX, "create_newline_trivia", contract="""
    ensures is_newline_for(r, ctx.config), //# C10.newline_trivia
""", edits=[Hole("line_ending_character(ctx.config().line_endings).into()", "verif::into_short(line_ending_character(ctx.config().line_endings))", kind="wrapper", why="<String as Into<ShortString>>::into")]),
        Fn(CTX, "create_plain_indent_trivia", contract="""
    requires indent_level * ctx.config.indent_width <= usize::MAX,   // machine arithmetic: nesting depth x configured width fits a usize (assumed)
    ensures token_type_of(r) == indent_tt(ctx.config, indent_level), //# C10.indent_trivia
"""),
        Fn(SH, "indent", impl_of="Shape", mode="stub"),
        Fn(CTX, "create_indent_trivia", contract="""
    requires shape.indent.block_indent + shape.indent.additional_indent <= usize::MAX, (shape.indent.block_indent + shape.indent.additional_indent) * ctx.config.indent_width <= usize::MAX,
    ensures token_type_of(r) == indent_tt(ctx.config, (shape.indent.block_indent + shape.indent.additional_indent) as usize), //# C10.indent_from_shape
"""),
        Fn(CTX, "create_function_definition_trivia", contract="""
    ensures token_type_of(r) == spaces_tt(if ctx.config.space_after_function_names is Always || ctx.config.space_after_function_names is Definitions { 1 } else { 0 }), //# C11.space_after_definitions
"""),
        Fn(CTX, "create_function_call_trivia", contract="""
    ensures token_type_of(r) == spaces_tt(if ctx.config.space_after_function_names is Always || ctx.config.space_after_function_names is Calls { 1 } else { 0 }), //# C11.space_after_calls
"""),
    ]
    # Indent accessors are needed transparently for create_indent_trivia
    its = [x for x in its if not (isinstance(x, Fn) and x.impl_of == "Indent" and x.name in ("block_indent", "additional_indent"))]
    its += [Fn(SH, "block_indent", impl_of="Indent", contract="ensures r == self.block_indent,"),
            Fn(SH, "additional_indent", impl_of="Indent", contract="ensures r == self.additional_indent,")]
    its = [x for x in its if not (isinstance(x, Fn) and x.impl_of == "Shape" and x.name == "indent" and x.contract == "")]
    its += [Fn(SH, "indent", impl_of="Shape", contract="ensures r == self.indent,")]
    return its

LABELS = {
    "C09.range_decision": dict(props=["C09", "C08"], text="should_format_node returns exactly decision(ctx, node): Skip if disabled or directive, NotInRange iff start < range.start or end > range.end (where both known), else Normal — all positions and bounds incl. inverted/empty ranges"),
    "C08.disabled_skips": dict(props=["C08"], text="inside `stylua: ignore start/end` every node is skipped"),
    "C08.directive_skips": dict(props=["C08"], text="a node with a `stylua: ignore` directive in its leading comments is skipped"),
    "C11.omit_string_parens": dict(props=["C11"], text="should_omit_string_parens follows the call_parentheses table (None, NoSingleString, deprecated flag)"),
    "C11.omit_table_parens": dict(props=["C11"], text="should_omit_table_parens follows the call_parentheses table (None, NoSingleTable, deprecated flag)"),
    "C10.line_ending_character": dict(props=["C10"], text="line_ending_character is \\n for Unix and \\r\\n for Windows"),
    "C10.newline_trivia": dict(props=["C10"], text="create_newline_trivia is a whitespace token holding exactly the configured line ending"),
    "C10.indent_trivia": dict(props=["C10"], text="create_plain_indent_trivia is `level` tabs, or level*indent_width spaces"),
    "C10.indent_from_shape": dict(props=["C10"], text="create_indent_trivia uses block_indent + additional_indent of the shape"),
    "C11.space_after_definitions": dict(props=["C11"], text="one space after a function name in definitions iff space_after_function_names is Always or Definitions"),
    "C11.space_after_calls": dict(props=["C11"], text="one space after a function name in calls iff space_after_function_names is Always or Calls"),
}

UNIT = Unit("ctx", items() + [VERIF_MOD, VERIF_CTX], LABELS, header=HEADER)
