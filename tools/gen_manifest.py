#!/usr/bin/env python3
"""Regenerate MANIFEST.json from vx/registry.py (claimed properties) and the fixed not-applicable list."""
import json, sys, os, subprocess
ROOT = os.path.dirname(os.path.dirname(os.path.abspath(__file__)))
sys.path.insert(0, os.path.join(ROOT, "vx")); sys.path.insert(0, os.path.join(ROOT, "units"))
import registry
NA = registry.NOT_APPLICABLE
props = [json.loads(l)["id"] for l in open(os.path.join(ROOT, "properties.jsonl"))]
checks = []
for pid in props:
    if pid not in registry.PROPS: continue
    sp = registry.PROPS[pid]
    checks.append({
        "property_id": pid,
        "quick_cmd": f"./check {pid}",
        "thorough_cmd": f"./check {pid} --tier thorough",
        "evidence_file": f"evidence/{pid}.json",
        "replay_cmd_template": f"./check {pid} --replay {{path}}",
        "engine": "vx",
        "level_claimed": {"category": "proof", "text": sp["explanation"] + " Decided for the named obligations on the real functions only; see level_note / evidence.coverage.not_decided for what is not decided.",
                          "design_ref": f"DESIGN.md §5 {pid}"},
        "level_note": "Assumed / trusted: " + "; ".join(sp.get("assumptions", []) + ["callee stubs, holes, wrappers and proxies are listed per run in evidence.coverage.trusted_base and holes_wrappers_proxies"]) +
                      ". Not decided: " + "; ".join(sp.get("not_decided", [])),
        "technique": sp.get("technique", "contract-based deductive verification (Verus) of mechanically extracted real functions; failed obligations replayed on the real library with witness programs") ,
    })
hooks_commits = [l.split()[0] for l in subprocess.run(["git", "-C", "/repo", "log", "--format=%h %s"], capture_output=True, text=True).stdout.splitlines() if " verif:" in l or " hook:" in l]
m = {
    "version": 1,
    "setup_cmd": "tools/setup.sh",
    "hooks": {"guard": "stylua_verif", "enable": "Verus units read source text and need no hook; Kani harnesses are in-crate under #[cfg(kani)] (cargo kani sets it); the replay crate uses only the public API",
              "baseline_off_cmd": "cd /repo && cargo test --workspace --no-fail-fast --offline", "source_commits": hooks_commits, "add_only": True},
    "engines": [
        {"name": "vx", "path": "vx/", "serves_properties": sorted(registry.PROPS), "kind_free_text": "python3: mechanical extractor of real function text from /repo, contract splicer (units/*.py + prelude/*.rs), Verus runner, diagnostic-to-obligation mapper, evidence writer"},
        {"name": "vxreplay", "path": "replay/", "serves_properties": sorted(registry.PROPS), "kind_free_text": "Rust crate with a path dependency on /repo: replays witness programs through the real stylua_lib and evaluates property-level oracles"},
    ],
    "checks": checks,
    "not_applicable": [{"property_id": k, "reason": v} for k, v in NA.items() if k not in registry.PROPS],
    "notes": "contract-based deductive verification of the real code with Verus (+ Kani for integer/enum kernels); exit 2 = undecided (never an alarm); see DESIGN.md",
}
json.dump(m, open(os.path.join(ROOT, "MANIFEST.json"), "w"), indent=1)
print("claimed:", [c["property_id"] for c in checks]); print("not applicable:", [x["property_id"] for x in m["not_applicable"]])
