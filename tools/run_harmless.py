#!/usr/bin/env python3
"""False-alarm test: apply every kept behaviour-preserving refactor (harmless/<id>/patch.diff, written by sub-agents that saw
neither /verif nor the properties' contracts, and checked by them with a differential run of the binary over tests/inputs*) to
/repo in turn, run every claimed check, undo it. Expected: exit 0 (verified) or exit 2 (undecided: an anchor moved and the
witnesses / bounded stand-ins pass); exit 1 — a VIOLATION — is a false alarm. Writes harmless/RESULTS.md.
usage: tools/run_harmless.py [ids]"""
import json, glob, os, subprocess, re, sys
ROOT = os.path.dirname(os.path.dirname(os.path.abspath(__file__)))
props = sorted({p for e in json.load(open(os.path.join(ROOT, "MANIFEST.json")))["engines"] for p in e["serves_properties"]})
only = sys.argv[1:]
sys.path.insert(0, os.path.join(ROOT, "vx")); sys.path.insert(0, os.path.join(ROOT, "units"))
import importlib, registry
from gen import Fn
def props_for(files):
    """the properties whose contract units extract a function from one of the files (the bounded stand-ins of the other properties see
    the same output as before: the refactors were checked by a differential run of the binary)"""
    out = []
    for p in props:
        for u in registry.PROPS[p].get("units", []):
            m = importlib.import_module(u)
            if any(isinstance(it, Fn) and it.file in files for it in m.UNIT.items):
                out.append(p); break
    return out
store = os.path.join(ROOT, "harmless", "results.json")
allrows = json.load(open(store)) if os.path.exists(store) else {}
for d in sorted(glob.glob(os.path.join(ROOT, "harmless", "H*"))):
    hid = os.path.basename(d)
    if only and hid not in only: continue
    if subprocess.run(["git", "-C", "/repo", "status", "--porcelain", "--untracked-files=no"], capture_output=True, text=True).stdout.strip():
        print("/repo not clean"); sys.exit(9)
    a = subprocess.run(["git", "-C", "/repo", "apply", os.path.join(d, "patch.diff")], capture_output=True, text=True)
    if a.returncode != 0:
        allrows[hid] = dict(result="patch does not apply to the current /repo HEAD"); continue
    res = {}
    try:
        files = set(re.findall(r"^\+\+\+ b/(\S+)", open(os.path.join(d, "patch.diff")).read(), re.M))
        for p in props_for(files):
            r = subprocess.run(["./check", p], cwd=ROOT, capture_output=True, text=True, timeout=2400)
            vio = re.findall(r"VIOLATION property=\S+ replay=(\S+)", r.stdout)
            labels = []
            for path in vio:
                try: labels.append((json.load(open(path)).get("obligation") or "")[:90])
                except Exception: labels.append(os.path.basename(path))
            und = [l.strip()[:160] for l in r.stdout.splitlines() if l.startswith("  [")][:2]
            res[p] = dict(exit=r.returncode, violations=labels, undecided=und if r.returncode == 2 else [])
            print(hid, p, r.returncode, labels or "", flush=True)
    finally:
        subprocess.run(["git", "-C", "/repo", "checkout", "--", "."])
    allrows[hid] = dict(result="FALSE ALARM" if any(v["exit"] == 1 for v in res.values()) else "quiet", checks=res,
                        files=sorted(set(re.findall(r"^\+\+\+ b/(\S+)", open(os.path.join(d, "patch.diff")).read(), re.M))))
    json.dump(allrows, open(store, "w"), indent=1, sort_keys=True)
with open(os.path.join(ROOT, "harmless", "RESULTS.md"), "w") as f:
    f.write("# Behaviour-preserving refactors: what the checks say with each one applied to /repo\n\n(written by tools/run_harmless.py; /repo HEAD = %s)\n\n| refactor | files | result | exit 0 | exit 2 (undecided) | exit 1 (alarm) |\n|---|---|---|---|---|---|\n" %
            subprocess.run(["git", "-C", "/repo", "rev-parse", "--short", "HEAD"], capture_output=True, text=True).stdout.strip())
    for k in sorted(allrows):
        v = allrows[k]; ch = v.get("checks", {})
        f.write("| %s | %s | %s | %s | %s | %s |\n" % (k, ", ".join(v.get("files", [])), v["result"], " ".join(p for p in ch if ch[p]["exit"] == 0), " ".join(p for p in ch if ch[p]["exit"] == 2),
                                                  "; ".join(f"{p}: {', '.join(ch[p]['violations'])}" for p in ch if ch[p]["exit"] == 1)))
