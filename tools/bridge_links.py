#!/usr/bin/env python3
"""Bridges for the `proved_in` links (developer / thorough tool). A stub in unit A that says `proved_in = B` assumes a contract in A's
vocabulary; unit B verifies the same function under B's contract. For every such link a *bridge* is generated into B's file:

    pub fn vx_bridge_f(<the parameters of f as B sees them>) -> (r: T)   <the stub's contract, word for word>   { f(<parameters>) }

and B is verified with it. `bridged`: the stub's contract follows from what B proves (modular reasoning, checked). `not bridged
(vocabulary)`: the stub's contract uses specification functions B's file does not have — it stays an assumption that B supports
but does not prove. `not derived`: B's file knows every word of the stub's contract and Verus cannot derive it from f's verified
contract — the stub claims something the proving unit does not establish in that form (each case is explained in DESIGN.md §6).
usage: VX_REPO=<worktree> tools/bridge_links.py [unit ...]     writes bridges.json"""
import os, sys, re, json, importlib
ROOT = os.path.dirname(os.path.dirname(os.path.abspath(__file__)))
sys.path.insert(0, os.path.join(ROOT, "vx")); sys.path.insert(0, os.path.join(ROOT, "units"))
import run, registry, gen
from gen import Fn, Raw, Unit, ExtractError
from rsx import Source

def params_of(sig):
    """names of the parameters in a rendered signature (text from `fn` to the body)"""
    a = sig.index("(")
    src = Source(sig)
    k = next(i for i, t in enumerate(src.toks) if t[1] == a)
    b = src.toks[src.match[k]][1]
    inner = sig[a + 1:b]
    out, depth, cur = [], 0, ""
    for ch in inner:
        if ch in "([{<": depth += 1
        elif ch in ")]}>": depth -= 1
        if ch == "," and depth == 0: out.append(cur); cur = ""
        else: cur += ch
    if cur.strip(): out.append(cur)
    names, recv = [], None
    for p in out:
        p = p.strip()
        if p in ("&self", "self"): recv = p; continue
        if p in ("&mut self", "mut self"): return None
        names.append(re.sub(r"^mut\s+", "", p.split(":")[0].strip()))
    return names, inner, recv

# proof hints of the bridges (calls of definitional axioms that live in the proving unit) and preconditions a bridge may assume (each a stated
# assumption of DESIGN.md, not a fact about the function)
HINTS = {
    "create_newline_trivia": "axiom_newline_tok(r, ctx.config);",
    "create_indent_trivia": "axiom_indent_tok(r, ctx.config, (shape.indent.block_indent + shape.indent.additional_indent) as usize);",
    "format_symbol": "axiom_tok_of_same_token(r, *wanted_symbol);",
    "format_token_reference": "axiom_tok_of_fmt(ctx.config, *token_reference, r);",
}
# line safety (prelude/lines.rs): `tok_open` is uninterpreted in the calling units; unit tok proves the same fact over the trailing trivia
# (`has_line_comment(trail(..))`). The two are linked by the definition of tok_open (an open token has a line comment in its trailing
# trivia: AXIOM_OPEN, definitional) and by the stated assumption that the token handed in is a token of the parsed input, where "has a line
# comment behind it" and "open" coincide (no formatter-made newline follows it yet) — ASSUMING below.
AXIOM_OPEN = """#[verifier::external_body] pub proof fn axiom_open_has_line_comment(t: TokenReference) ensures tok_open(t) ==> has_line_comment(trail(t)) {}
"""
OPEN_HINTS = {
    "format_symbol": "axiom_open_has_line_comment(r);",
    "format_end_token": "lemma_load_post_line_comment(ctx.config, trail(*current_token), FormatTokenType::TrailingTrivia, trail(r)); axiom_open_has_line_comment(r);",
}
OPEN_ASSUMING = {
    "format_symbol": "has_line_comment(trail(*current_symbol)) ==> tok_open(*current_symbol), has_line_comment(trail(*wanted_symbol)) ==> tok_open(*wanted_symbol)",
    "format_end_token": "has_line_comment(trail(*current_token)) ==> tok_open(*current_token)",
}
OPEN_NOTE = "tok_open(t) is has_line_comment(trail(t)) for the tokens handed in (tokens of the parsed input / fresh symbols: no formatter-made newline behind their comment yet); tok_open(r) ==> has_line_comment(trail(r)) is the definition of tok_open (prelude/lines.rs)"
ASSUMING = {
    "create_indent_trivia": ("shape.indent.block_indent + shape.indent.additional_indent <= usize::MAX, (shape.indent.block_indent + shape.indent.additional_indent) * ctx.config.indent_width <= usize::MAX",
                             "machine arithmetic: nesting depth x indent width fits a usize (DESIGN.md: assumed in every unit but ctx / Kani shape)"),
}

def bridge_text(stub, v):
    t, line, head_lines = v.render()
    kw = t.index("fn " + v.name)
    body_open = None
    # signature: from `fn` to the first `requires`/`ensures`/`decreases`/`{` at line start after it
    m = re.search(r"\n\s*(requires|ensures|decreases)\b|\n\{", t[kw:])
    sig = t[kw:kw + m.start()] if m else t[kw:]
    pr = params_of(sig)
    if pr is None: return None
    names, _, recv = pr
    sig2 = sig.replace("fn " + v.name, "fn vx_bridge_" + v.name, 1)
    contract = re.sub(r"//#[^\n]*", "", stub.contract or "").strip("\n")
    if not contract.strip(): return None
    call = f"{v.name}({', '.join(names)})"
    if recv:
        # a method: the bridge is a free function that takes the receiver as its first parameter
        ty = ("&" if recv.startswith("&") else "") + v.impl_of
        sig2 = re.sub(r"\(\s*&?self\s*,?", "(vx_self: " + ty + (", " if names else ""), sig2, count=1)
        contract = re.sub(r"\bself\b", "vx_self", contract)
        call = f"vx_self.{v.name}({', '.join(names)})"
    # the stub's name for the result
    sig2 = re.sub(r"->\s*\(\w+\s*:", "-> (" + (stub.ret or "r") + ":", sig2, count=1)
    uses_open = v.name in OPEN_HINTS and "tok_open" in contract
    if v.name in ASSUMING or uses_open:
        extra = ASSUMING[v.name][0] if v.name in ASSUMING else OPEN_ASSUMING[v.name]
        contract = (re.sub(r"^\s*requires\b", "requires " + extra + ",", contract, count=1) if re.match(r"\s*requires\b", contract) else "requires " + extra + ",\n" + contract)
    ret = re.search(r"->\s*\((\w+)\s*:", sig2)
    rn = ret.group(1) if ret else "r"
    hint = HINTS.get(v.name, "") + (" " + OPEN_HINTS[v.name] if uses_open else "")
    return (AXIOM_OPEN if uses_open else "") + f"{stub.attrs or ''}pub {sig2.rstrip()}\n{contract}\n{{ let {rn} = {call}; proof {{ {hint} }} {rn} }}\n"

def main():
    units = sorted({u for p in registry.PROPS.values() for u in p.get("units", [])})
    only = [a for a in sys.argv[1:] if not a.startswith("-")]
    mods = {u: importlib.import_module(u) for u in units}
    results = []
    for u, m in mods.items():
        if only and u not in only: continue
        for it in m.UNIT.items:
            if not (isinstance(it, Fn) and it.mode == "stub" and it.proved_in): continue
            tgt = mods.get(it.proved_in)
            cand = [x for x in (tgt.UNIT.items if tgt else []) if isinstance(x, Fn) and x.mode == "verify" and x.name == it.name and x.file == it.file and (x.impl_of or None) == (it.impl_of or None)]
            rec = dict(stub_unit=u, function=it.qual, proved_in=it.proved_in, contract=re.sub(r"\s+", " ", it.contract or "").strip())
            import hashlib
            rec["key"] = hashlib.sha256((rec["contract"] + "|" + re.sub(r"\s+", " ", (cand[0].contract if cand else "") or "")).encode()).hexdigest()[:16]
            if not cand: rec["status"] = "no verified function of that name in the named unit"; results.append(rec); continue
            if not (it.contract or "").strip(): rec["status"] = "no contract to bridge (the stub assumes nothing)"; results.append(rec); continue
            v = cand[0]
            try:
                bt = bridge_text(it, v)
            except (ExtractError, ValueError, StopIteration) as e:
                rec["status"] = f"not bridged (generator: {str(e)[:80]})"; results.append(rec); continue
            if bt is None: rec["status"] = "not bridged (method or empty contract)"; results.append(rec); continue
            tu = tgt.UNIT
            fs = tu.feature_sets[-1] if "all" not in tu.feature_sets else "all"
            b = Unit(tu.name, list(tu.items) + [Raw(bt, module=v.module)], tu.labels, macros=tu.macros, feature_sets=tu.feature_sets, header=tu.header, externs=tu.externs, rlimit=tu.rlimit)
            try:
                r = run.run_unit_once(b, fs, tag="-bridge")
                # specification functions of the stub's unit that the proving unit does not have: their definitions are copied in (the open ones
                # bring their meaning; an uninterpreted one can only be named)
                borrowed = []
                for _ in range(4):
                    missing = sorted({m for e in r["compile_errors"] for m in re.findall(r"cannot find function `(\w+)` in this scope", e.get("message") or "")} - set(borrowed))
                    if not missing: break
                    src_text = open(os.path.join(ROOT, "units", u + ".py")).read()
                    defs = []
                    for name in missing:
                        mm = re.search(r"(?m)^(?:#\[cfg[^\n]*\]\s*)?pub (?:open|uninterp|closed) spec fn " + name + r"\b[^\n]*(?:\n(?![ \t]*(?:pub |//|#\[|\"\"\")).*)*", src_text)
                        if mm: defs.append(mm.group(0)); borrowed.append(name)
                    if not defs: break
                    bt2 = "\n".join(defs) + "\n" + bt
                    b = Unit(tu.name, list(tu.items) + [Raw(bt2, module=v.module)], tu.labels, macros=tu.macros, feature_sets=tu.feature_sets, header=tu.header, externs=tu.externs, rlimit=tu.rlimit)
                    r = run.run_unit_once(b, fs, tag="-bridge")
                if borrowed: rec["borrowed_vocabulary"] = borrowed
            except ExtractError as e:
                rec["status"] = f"not bridged (extract: {str(e)[:80]})"; results.append(rec); continue
            text = open(r["path"]).read().split("\n")
            lo = next((i + 1 for i, l in enumerate(text) if "fn vx_bridge_" + v.name in l), None)
            if r["status"] == "ok": rec["status"] = "bridged" + (" under the stated assumption: " + ASSUMING[v.name][1] if v.name in ASSUMING else (" under the stated assumption: " + OPEN_NOTE if "axiom_open_has_line_comment" in bt else ""))
            elif r["compile_errors"]:
                msgs = "; ".join((e.get("message") or "")[:70] for e in r["compile_errors"][:2])
                rec["status"] = "not bridged (vocabulary / types: " + msgs + ")"
            elif r["status"] == "failed":
                near = [f for f in r["failures"] if lo and lo - 1 <= (f.get("gen_line") or 0) <= lo + 12]
                rec["status"] = ("not derived: every word of the stub's contract is known in the proving unit, but Verus does not derive it from the verified contract (" + "; ".join((f.get("message") or "")[:40] + " @ " + (f.get("text") or "")[:80] for f in near[:2]) + ")") if near else "unit fails elsewhere"
            else: rec["status"] = "undecided"
            results.append(rec)
            print(f"{u}: {it.qual} -> {it.proved_in} [{fs}]: {rec['status'][:140]}", flush=True)
    json.dump(results, open(os.path.join(ROOT, "bridges.json"), "w"), indent=1)
    import collections
    print(collections.Counter(r["status"].split(" (")[0].split(":")[0] for r in results))

if __name__ == "__main__":
    main()
