#!/bin/bash
# tools/confirm_seed.sh <seed-dir> : confirm a seeded change in the scratch worktree /var/tmp/stylua-wt
# (patch applies to /repo HEAD, test-suite passes with it, demo fails with it and passes without)
D="$1"; WT=/var/tmp/stylua-wt
[ -d "$WT" ] || git -C /repo worktree add --detach "$WT" HEAD -q     # scratch worktree outside /repo and /verif (remove it when done: git -C /repo worktree remove --force /var/tmp/stylua-wt)
cd $WT || exit 9
git checkout -q --detach "$(git -C /repo rev-parse HEAD)" 2>/dev/null; git reset -q --hard; git clean -fdq -e target
echo "== $D"
git apply "$D/patch.diff" || { echo "RESULT $D patch-does-not-apply"; exit 1; }
T=$(cargo test --offline 2>&1 | grep -E "^test result" | awk '{p+=$4; f+=$6} END {print p" passed "f" failed"}')
echo "tests with patch: $T"
bash "$D/demo.sh" $WT >/dev/null 2>&1; A=$?
git reset -q --hard; git clean -fdq -e target
bash "$D/demo.sh" $WT >/dev/null 2>&1; B=$?
git reset -q --hard; git clean -fdq -e target
echo "RESULT $D tests=[$T] demo_with_patch_exit=$A demo_without_exit=$B"
