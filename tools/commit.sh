#!/bin/bash
# tools/commit.sh "<message>": regenerate MANIFEST, run every quick check on the clean /repo tree, validate the evidence,
# and commit /verif only if all of that succeeded
cd "$(dirname "$0")/.."
python3 tools/gen_manifest.py >/dev/null || { echo "gen_manifest failed"; exit 1; }
out=$(tools/refresh_evidence.sh 2>&1); rc=$?
echo "$out" | grep -v "exit=0" | tail -8
if [ $rc -ne 0 ] || ! echo "$out" | grep -q "evidence valid for"; then echo "NOT COMMITTED: a check failed on the unchanged tree"; exit 1; fi
git add -A && git commit -qm "$1" && git log --oneline | head -1
