#!/usr/bin/env python3
"""Contract-strength probe (developer tool, not a registered check): token-level mutants of every function a unit verifies
(`&&`<->`||`, `==`<->`!=`, `<`<->`<=`, `>`<->`>=`, `true`<->`false`, a dropped `!`, `Some(..)`-arm / `None`-arm swaps are NOT attempted),
each applied to the scratch worktree $VX_REPO and run through the unit. A mutant that still verifies ("survives") shows a place where the
contract does not constrain the code — to be judged by hand: layout-only code survives rightly, a decision the property depends on
should not. usage: VX_REPO=/var/tmp/stylua-wt tools/mutation_campaign.py <unit> [fs] [max]"""
import os, sys, re, subprocess, importlib, json
ROOT = os.path.dirname(os.path.dirname(os.path.abspath(__file__)))
WT = os.environ.get("VX_REPO") or sys.exit("set VX_REPO")
sys.path.insert(0, os.path.join(ROOT, "vx")); sys.path.insert(0, os.path.join(ROOT, "units"))
import run
from gen import Fn, source, ExtractError
from rsx import Source
unit = sys.argv[1]; fs = sys.argv[2] if len(sys.argv) > 2 else None; mx = int(sys.argv[3]) if len(sys.argv) > 3 else 400
mod = importlib.import_module(unit); fs = fs or mod.UNIT.feature_sets[-1]
SWAP = {"&&": "||", "||": "&&", "==": "!=", "!=": "==", "<=": "<", ">=": ">", "true": "false", "false": "true"}
muts = []
for it in mod.UNIT.items:
    if not isinstance(it, Fn) or it.mode != "verify": continue
    src = source(it.file); d = src.find_fn(it.name, it.impl_of, it.trait_of, it.nth)
    if d["body_open"] is None: continue
    body = src.text[d["body_open"]:d["end"]]; off = d["body_open"]
    s = Source(body); code = s.code
    for ci, k in enumerate(code):
        kind, a, b = s.toks[k]; t = body[a:b]
        two = body[a:a + 2]
        if kind == "punct" and two in SWAP and (ci + 1 < len(code) and s.toks[code[ci + 1]][1] == a + 1):
            if two in ("<=", ">=") or two in ("&&", "||", "==", "!="):
                muts.append((it, off + a, off + a + 2, SWAP[two]))
        elif kind == "ident" and t in ("true", "false"):
            muts.append((it, off + a, off + b, SWAP[t]))
        elif kind == "punct" and t == "!" and body[a + 1] not in "=(" and body[a - 1] not in "a-zA-Z_" and not re.match(r"[A-Za-z_]", body[a - 1]):
            muts.append((it, off + a, off + b, ""))
seen = set(); res = []
for it, a, b, new in muts[:mx]:
    if (it.file, a) in seen: continue
    seen.add((it.file, a))
    p = os.path.join(WT, it.file); text = open(p).read()
    line = text.count("\n", 0, a) + 1
    open(p, "w").write(text[:a] + new + text[b:])
    try:
        try:
            r = run.run_unit(mod.UNIT, fs, tag="-mut")
            st = r["status"]; labs = sorted({l for f in r["failures"] for l in (f.get("labels") or [f"{f.get('fn')}.total"])})
        except ExtractError as e:
            st, labs = "undecided", ["anchor"]
    finally:
        open(p, "w").write(text)
    ctx = text[max(0, a - 50):b + 40].replace("\n", " ")
    res.append(dict(fn=it.qual, file=it.file, line=line, old=text[a:b], new=new, status=st, labels=labs, ctx=" ".join(ctx.split())))
    print(f"{st:10} {it.qual}:{line} `{text[a:b]}`->`{new}` {','.join(labs)[:80]}  | {' '.join(ctx.split())[:110]}", flush=True)
from collections import Counter
print(Counter(r["status"] for r in res))
json.dump(res, open(f"/var/tmp/mutants_{unit}.json", "w"), indent=1)
