#!/usr/bin/env python3
"""tools/save_seed.py <seed-out-dir> <id> <property> <detected_by> <needs...>  — keep a confirmed seeded change"""
import sys, os, shutil, json, subprocess, re
src, sid, prop, detected = sys.argv[1:5]
needs = " ".join(sys.argv[5:])
dst = f"/verif/seeded/{sid}"
os.makedirs(dst, exist_ok=True)
for f in ("patch.diff", "demo.sh", "notes.md"):
    if os.path.exists(os.path.join(src, f)):
        shutil.copy(os.path.join(src, f), os.path.join(dst, f))
log = open("/var/tmp/confirm_all.log").read() if os.path.exists("/var/tmp/confirm_all.log") else ""
m = re.search(r"RESULT " + re.escape(src) + r" (.*)", log)
meta = dict(id=sid, property=prop, needs_to_manifest=needs,
            confirmed=dict(how="tools/confirm_seed.sh in a scratch worktree of /repo HEAD (outside /repo and /verif): git apply; cargo test --offline; demo.sh; git reset --hard; demo.sh",
                           result=m.group(1) if m else "see DESIGN.md"),
            repo_head_when_confirmed=subprocess.run(["git", "-C", "/repo", "rev-parse", "--short", "HEAD"], capture_output=True, text=True).stdout.strip(),
            detected_by=detected)
json.dump(meta, open(os.path.join(dst, "meta.json"), "w"), indent=1)
print("saved", dst)
