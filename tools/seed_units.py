#!/usr/bin/env python3
"""developer tool: for each seeded change, apply it in the scratch worktree /var/tmp/stylua-wt and run the contract units of its
property there (VX_REPO), printing status and failed labels — shows which seeds end in a failed obligation, which undecided.
usage: VX_REPO=/var/tmp/stylua-wt tools/seed_units.py [seed ids]"""
import os, sys, json, glob, subprocess, importlib
ROOT = os.path.dirname(os.path.dirname(os.path.abspath(__file__)))
WT = os.environ.get("VX_REPO") or sys.exit("set VX_REPO to the scratch worktree")
sys.path.insert(0, os.path.join(ROOT, "vx")); sys.path.insert(0, os.path.join(ROOT, "units"))
import run, registry
from gen import ExtractError
only = sys.argv[1:]
for meta in sorted(glob.glob(os.path.join(ROOT, "seeded", "C*", "meta.json"))):
    m = json.load(open(meta)); d = os.path.dirname(meta)
    if only and m["id"] not in only: continue
    subprocess.run(["git", "-C", WT, "checkout", "-q", "--", "."])
    if subprocess.run(["git", "-C", WT, "apply", os.path.join(d, "patch.diff")]).returncode: print(m["id"], "patch does not apply"); continue
    out = []
    for u in registry.PROPS[m["property"]]["units"]:
        mod = importlib.import_module(u)
        for fs in mod.UNIT.feature_sets:
            try:
                r = run.run_unit(mod.UNIT, fs, tag="-wt")
                labs = sorted({l for f in r["failures"] for l in (f.get("labels") or f.get("implied_labels") or ["?"])})
                why = "" if r["status"] != "undecided" else " [" + "; ".join((e.get("message") or "")[:90] for e in (r["compile_errors"] + r["undecided"])[:2]) + "]"
                out.append(f"{u}/{fs}:{r['status']}{(' ' + ','.join(labs)) if labs else ''}{why}" + (" INLINED" if r.get("inlined_helpers") else "") + (" AUTO" if r.get("auto_helpers") else ""))
            except ExtractError as e:
                out.append(f"{u}/{fs}:lost-anchor [{str(e)[:110]}]")
    interesting = [o for o in out if ":ok" not in o]
    print(m["id"], m["property"], " | ".join(interesting) or "all units ok", flush=True)
subprocess.run(["git", "-C", WT, "checkout", "-q", "--", "."])
